"""Shared helpers of the hydraulic-function properties (C15, C16, C18):
exact real literals for Coq, the runner of `interval` goals (one goal per
case, sharded, in parallel), generators of knot sets, and an independent
Gauss-Legendre quadrature used by the oracles."""
import concurrent.futures as cf
import math
import os
import re
import shutil
import time
from fractions import Fraction

import numpy as np

from harness import common as C

HEADER = '''From Coq Require Import Reals List Lra.
From Coquelicot Require Import Coquelicot.
From Interval Require Import Tactic.
From Spowtd Require Import Model.Util %s.
Import ListNotations.
Open Scope R_scope.
'''


def cR(x):
    """Exact literal (in R_scope) of a float / int / Fraction."""
    f = Fraction(x)
    if f.denominator == 1:
        return '(%d)' % f.numerator
    return '(%d / %d)' % (f.numerator, f.denominator)


def cRpairs(xs, ys):
    return '[' + '; '.join('(%s, %s)' % (cR(a), cR(b)) for a, b in zip(xs, ys)) + ']'


def tol_expr(v, rel, ab):
    """|v| * rel + ab as an exact literal (v is a float constant, so the
    tolerance is a rational number computed exactly)."""
    return cR(abs(Fraction(v)) * Fraction(rel) + Fraction(ab))


RESULT_RE = re.compile(r'^(OK|MISMATCH|EVALFAIL) (\d+)\s*$', re.M)


def run_goals(prop, label, modules, goals, per_file=8, timeout=900, jobs=16, extra_header='', extra_args=()):
    """goals: list of (goal statement, tactic that reduces the model to an
    expression `interval` understands, interval options).  Every goal is closed
    by

        first [ <reduce>; first [ assert_succeeds (interval ...); idtac "OK" n
                                | idtac "MISMATCH" n ]
              | idtac "EVALFAIL" n ]

    so that a goal `interval` cannot prove is reported, not fatal.  Returns
    (status list aligned with goals: 'OK' | 'MISMATCH' | 'EVALFAIL' | None,
    errors [(file, output tail)], seconds)."""
    d = os.path.join(C.WORK, prop, label)
    shutil.rmtree(d, ignore_errors=True)
    os.makedirs(d)
    files = []
    for k in range(0, len(goals), per_file):
        path = os.path.join(d, '%s_%04d.v' % (label, k // per_file))
        with open(path, 'w') as f:
            f.write(HEADER % modules)
            f.write(extra_header)
            for n, g in enumerate(goals[k:k + per_file], k):
                stmt, reduce_tac, itac = g[:3]
                if len(g) > 3:      # vernacular placed before the goal (its failure fails the file)
                    f.write(g[3])
                f.write('Goal %s.\nProof.\n' % stmt)
                f.write('  first [ %s; first [ assert_succeeds (%s); idtac "OK" %d | idtac "MISMATCH" %d ]\n'
                        '        | idtac "EVALFAIL" %d ].\nAbort.\n' % (reduce_tac, itac, n, n, n))
        files.append((k, path))
    status = [None] * len(goals)
    errors = []
    t0 = time.time()
    with cf.ThreadPoolExecutor(max_workers=jobs) as ex:
        futs = {ex.submit(C.coqc, path, timeout, tuple(extra_args)): (k, path) for k, path in files}
        for fut in cf.as_completed(futs):
            k, path = futs[fut]
            rc, out, _ = fut.result()
            for m in RESULT_RE.finditer(out):
                status[int(m.group(2))] = m.group(1)
            if rc != 0:
                errors.append((path, out[-2000:]))
    for n, s in enumerate(status):
        if s is None and not any(p for p, _ in errors if p == files[n // per_file][1]):
            errors.append((files[n // per_file][1], 'no result line for goal %d' % n))
    return status, errors, time.time() - t0


INTERVAL = 'first [ interval with (i_prec 60) | interval with (i_prec 120, i_depth 20) ]'


# ------------------------------------------------------------------ quadrature (oracle)

_GL = {}


def gauss_legendre(f, a, b, n=48):
    """Integral of f over [a, b] by an n-point Gauss-Legendre rule (numpy only)."""
    if n not in _GL:
        _GL[n] = np.polynomial.legendre.leggauss(n)
    x, w = _GL[n]
    h = 0.5 * (b - a)
    c = 0.5 * (a + b)
    return h * float(np.sum(w * f(c + h * x)))


def piecewise_integral(f, a, b, breaks, n=48):
    """Integral of f over [a, b] split at the break points (f smooth between them)."""
    if a == b:
        return 0.0
    sign = 1.0
    if a > b:
        a, b, sign = b, a, -1.0
    pts = [a] + sorted(x for x in set(breaks) if a < x < b) + [b]
    return sign * math.fsum(gauss_legendre(f, p, q, n) for p, q in zip(pts[:-1], pts[1:]))


# ------------------------------------------------------------------ knot sets

def loguniform(rng, lo, hi):
    return math.exp(rng.uniform(math.log(lo), math.log(hi)))


def round_sig(x, sig):
    if x == 0:
        return 0.0
    return float('%.*g' % (sig, x))


def gen_knots(rng, n=None):
    """Strictly increasing abscissae (mm) with spacings over 3 orders of magnitude."""
    n = n or rng.choice([2, 2, 3, 3, 4, 4, 5, 6, 8])
    z = round(rng.choice([-2000.0, -800.0, -291.7, -100.0, -10.0, 0.0, 35.5]) + rng.uniform(-5, 5), 3)
    out = [z]
    for _ in range(n - 1):
        z = round(z + loguniform(rng, 0.5, 500.0), 3)
        if z <= out[-1]:
            z = out[-1] + 0.5
        out.append(z)
    return out


K_SHAPES = ['random', 'rising', 'falling', 'flat_pair', 'bounds', 'sawtooth', 'gentle', 'spiky']


WIDE_BOUNDS = (1e-7, 1e8)


def gen_conductivities(rng, n, shape, outside=False):
    """Positive conductivities within the PEST bounds 1e-4 .. 1e5 (km/d).

    outside=True (off by default; the same random numbers are drawn either way): the logarithms are stretched
    from [1e-4, 1e5] onto WIDE_BOUNDS, so that a share of the values lies below 1e-4 / above 1e5 - the property
    quantifies over all positive conductivities, the PEST bounds are only what a calibration explores.
    Shape 'spiky_low' (not in K_SHAPES, whose order the callers index): 'spiky' with a low first value, i.e. a
    long quiet segment below the first narrow peak."""
    lo, hi = 1e-4, 1e5
    if shape == 'random':
        k = [loguniform(rng, lo, hi) for _ in range(n)]
    elif shape == 'rising':
        k = sorted(loguniform(rng, lo, hi) for _ in range(n))
    elif shape == 'falling':
        k = sorted((loguniform(rng, lo, hi) for _ in range(n)), reverse=True)
    elif shape == 'flat_pair':  # two adjacent knots with the same K (slope 0 branch)
        k = [loguniform(rng, 1e-2, 1e3) for _ in range(n)]
        i = rng.randrange(0, n - 1)
        k[i + 1] = k[i]
    elif shape == 'bounds':
        k = [rng.choice([lo, hi]) for _ in range(n)]
        if len(set(k)) == 1:
            k[-1] = hi if k[0] == lo else lo
    elif shape == 'spiky':
        # factors of 1e4-1e6 between neighbours (with knots a millimetre apart, see gen_case: narrow peaks that an
        # integrator which is not told where the knots are steps over)
        k = [loguniform(rng, 1e-3, 5e-2) if i % 2 else loguniform(rng, 1e2, 2e3) for i in range(n)]
    elif shape == 'spiky_low':
        k = [loguniform(rng, 1e-3, 5e-2) if (i % 2 or i == 0) else loguniform(rng, 1e2, 2e3) for i in range(n)]
        if rng.random() < 0.5:
            k[0] = k[1]
    elif shape == 'sawtooth':
        k = [loguniform(rng, 1e-3, 1e-1) if i % 2 else loguniform(rng, 1e1, 1e4) for i in range(n)]
    else:  # gentle: factors close to 1 (but not closer than 1.5 %)
        k = [loguniform(rng, 1e-1, 1e1)]
        for _ in range(n - 1):
            k.append(k[-1] * rng.choice([1.02, 0.97, 1.3, 0.8, 1.015]))
    if outside:
        wlo, whi = WIDE_BOUNDS
        f = math.log(whi / wlo) / math.log(hi / lo)
        k = [wlo * (min(max(x, lo), hi) / lo) ** f for x in k]
        if shape == 'flat_pair':
            k[i + 1] = k[i]
        lo, hi = wlo, whi
    out = []
    for x in k:
        x = round_sig(min(max(x, lo), hi), rng.choice([3, 4, 6]))
        out.append(min(max(x, lo), hi))
    if shape == 'flat_pair':
        i = next(i for i in range(n - 1) if k[i] == k[i + 1])
        out[i + 1] = out[i]
    if shape == 'spiky_low' and k[0] == k[1]:
        out[0] = out[1]
    return out


def levels_for(rng, zk, count):
    """Levels aimed at the branches: below / at / just above the lowest knot,
    at and beside every knot, inside segments, at and just below the highest
    knot."""
    z0, zn = zk[0], zk[-1]
    up, dn = (lambda x: math.nextafter(x, math.inf)), (lambda x: math.nextafter(x, -math.inf))
    must = [z0, up(z0), zn, rng.choice([z0 - 100.0, dn(z0)]), rng.choice([dn(zn), z0 + 1e-9, z0 + 1e-3])]
    if len(zk) > 2:
        must.append(rng.choice(zk[1:-1]))
    pool = [z0 - 100.0, dn(z0), z0 + 1e-9, z0 + 1e-3, dn(zn)]
    for a, b in zip(zk[:-1], zk[1:]):
        pool += [0.5 * (a + b), a + (b - a) * rng.random(), dn(b), up(a)]
    pool += list(zk[1:-1])
    pool += [up(x) for x in zk[1:-1]]
    rng.shuffle(pool)
    out = list(must)
    for x in pool:
        if len(out) >= max(count, len(must)):
            break
        if x not in out:
            out.append(x)
    return out


# ------------------------------------------------------------------ parameters as a YAML parameter file gives them

YAML_STYLES = ('dump', 'repr', 'int', 'dot0', 'pest')


def yaml_number_text(x, style):
    """Text of the number x in a parameter file.  'dump': what yaml.safe_dump writes (1.0e-05); 'repr': Python's
    repr (1e-05 - which YAML 1.1, hence yaml.safe_load, reads as a STRING: no dot); 'int': no dot when x is a
    whole number (yaml.safe_load gives a Python int); 'dot0': fixed notation with a dot; 'pest': what PEST writes
    (1.0000000000000000E-05).  The value meant is float(text) in every style (all styles round-trip)."""
    import yaml
    x = float(x)
    if style == 'int' and x.is_integer() and abs(x) < 1e15:
        t = '%d' % int(x)
    elif style == 'repr':
        t = repr(x)
    elif style == 'pest':
        t = '%.16E' % x
    elif style == 'dot0':
        t = repr(x) if 'e' not in repr(x) else yaml.safe_dump(x).split('\n')[0]
    else:
        t = yaml.safe_dump(x).split('\n')[0]
    assert float(t) == x, (t, x)
    return t


def yaml_type(text):
    """Name of the Python type yaml.safe_load gives for this text (int / float / str)."""
    import yaml
    return type(yaml.safe_load(text)).__name__


# ------------------------------------------------------------------ the caller's array

ARRAY_MODES = ('owned', 'readonly', 'strided', 'reversed')


def array_arg(levels, mode):
    """(array handed to the callable, array that owns the memory).  'owned': a fresh writable contiguous float64
    array; 'readonly': the same with the write flag cleared; 'strided': every second element of a larger array
    (sentinels in between); 'reversed': a view with a negative stride."""
    lv = np.array([float(z) for z in levels], dtype='float64')
    if mode == 'owned':
        return lv, lv
    if mode == 'readonly':
        lv.setflags(write=False)
        return lv, lv
    if mode == 'strided':
        base = np.full(2 * len(lv) + 1, -12345.678)
        base[1::2] = lv
        return base[1::2], base
    if mode == 'reversed':
        base = lv[::-1].copy()
        return base[::-1], base
    raise ValueError(mode)


def call_twice(f, levels, mode='owned', times=2):
    """Call f with ONE array holding the levels, `times` times in a row, as a caller that keeps its array does.
    Returns ([('ok', float64 copy of the result) | ('err', kind)] per call, modified) where modified says that the
    memory of the caller's array differs bit-for-bit from a pristine copy taken before the first call."""
    import warnings
    a, base = array_arg(levels, mode)
    pristine = base.tobytes()
    results = []
    for _ in range(times):
        try:
            with warnings.catch_warnings():
                warnings.simplefilter('ignore')
                r = f(a)
            results.append(('ok', np.array(r, dtype='float64', copy=True).reshape(-1)))
        except Exception as e:  # pylint: disable=broad-except
            results.append(('err', C.err_of(e)))
    return results, base.tobytes() != pristine


# ------------------------------------------------------------------ PEATCLSM: certified tables of the normal cdf

def peat_record(p):
    """Coq literal of the parameter record (p: dict of Fractions / decimals)."""
    return ('{| sd := %s; theta_s := %s; b_shape := %s; psi_s := %s |}'
            % (cR(p['sd']), cR(p['theta_s']), cR(p['b']), cR(p['psi_s'])))


def _phi_float(x):
    return 0.5 * math.erfc(-x / math.sqrt(2.0))


def _gauss_np(t):
    return np.exp(-0.5 * t * t) / math.sqrt(2.0 * math.pi)


PEAT_MODS = ('Model.Transm Model.TransmEval Model.Peatclsm Model.PeatclsmEval Proofs.PeatclsmSpec '
             'Proofs.PeatclsmTac')
TAB_GRID = 10 ** 20


def _round_grid(x):
    return Fraction(round(x * TAB_GRID), TAB_GRID)


def _zlit(k):
    return '(%d)%%Z' % k if k < 0 else '%d%%Z' % k


def peat_tables(prop, label, p, chunks=8, timeout=900):
    """Certify, for the parameter set p, (1) a table PhiT of the cdf values
    F_s(zm_j) = Phi(zm_j / sd), j = 0..200 (each chunk: one anchor by a direct
    certified integral, then upwards with one certified integral per layer and
    additivity), and (2) a table ThT of the Campbell values
    theta_at p k = theta p (k/100 + 1/200), k = -201..200 (saturation test by
    lra, power by `interval`).  Tab.v defines PhiT, ThT (exact rationals on a
    1e-20 grid), eps, eta, M and proves
      phi_all   : forall j, In j (layers 201) -> |Fs P j - PhiT j| <= eps
      phi_range : forall j, In j (layers 201) -> |1 - PhiT j| <= M
      theta_all : forall k, In k (offsets 201) -> |theta_at P k - ThT k| <= eta.
    The bounds written here are hints only: Coq proves every one of them."""
    d = os.path.join(C.WORK, prop, label)
    shutil.rmtree(d, ignore_errors=True)
    os.makedirs(d)
    sd, ths, b, psi = (Fraction(p[k]) for k in ('sd', 'theta_s', 'b', 'psi_s'))
    xs = [(Fraction(-995 + 10 * j, 1000)) / sd for j in range(201)]
    rec = peat_record(p)
    lo, hi = [None] * 201, [None] * 201
    per = (201 + chunks - 1) // chunks
    files = []
    head = (HEADER % PEAT_MODS) + 'From Coq Require Import ZArith Lia.\nNotation P := %s.\n' % rec
    names = []
    for c in range(chunks):
        a, b_ = c * per, min(201, (c + 1) * per)
        if a >= b_:
            continue
        lines = [head]
        for j in range(a, b_):
            if j == a:
                v = Fraction(_phi_float(float(xs[j])))
                pad = Fraction(1, 10 ** 15)
                lo[j], hi[j] = v - pad, v + pad
                lines.append('Lemma phi_%d : %s <= Fs P %d <= %s.\nProof. phi_anchor %s. Qed.'
                             % (j, cR(lo[j]), j, cR(hi[j]), cR(xs[j])))
            else:
                inc = Fraction(gauss_legendre(_gauss_np, float(xs[j - 1]), float(xs[j]), 32))
                pad = Fraction(1, 10 ** 16) + abs(inc) / 10 ** 13
                lo[j], hi[j] = lo[j - 1] + inc - pad, hi[j - 1] + inc + pad
                lines.append('Lemma phi_%d : %s <= Fs P %d <= %s.\nProof. phi_step phi_%d %s %s. Qed.'
                             % (j, cR(lo[j]), j, cR(hi[j]), j - 1, cR(xs[j - 1]), cR(xs[j])))
        path = os.path.join(d, 'PhiChunk%d.v' % c)
        with open(path, 'w') as f:
            f.write('\n'.join(lines) + '\n')
        files.append(path)
        names.append('Tab.PhiChunk%d' % c)
    # Campbell values
    ks = list(range(-201, 201))
    tlo, thi = {}, {}
    perk = (len(ks) + chunks - 1) // chunks
    for c in range(chunks):
        lines = [head]
        for k in ks[c * perk:(c + 1) * perk]:
            dd = Fraction(k, 100) + Fraction(1, 200)
            if psi <= dd:
                tlo[k] = thi[k] = ths
            else:
                t = Fraction(float(ths) * math.pow(float(dd / psi), -1.0 / float(b)))
                pad = Fraction(1, 10 ** 17) + abs(t) / 10 ** 13
                tlo[k], thi[k] = t - pad, t + pad
            lines.append('Lemma th_%s : %s <= theta_at P %s <= %s.\nProof. theta_leaf. Qed.'
                         % (('m%d' % -k) if k < 0 else str(k), cR(tlo[k]), _zlit(k), cR(thi[k])))
        path = os.path.join(d, 'ThChunk%d.v' % c)
        with open(path, 'w') as f:
            f.write('\n'.join(lines) + '\n')
        files.append(path)
        names.append('Tab.ThChunk%d' % c)
    mids = [_round_grid((lo[j] + hi[j]) / 2) for j in range(201)]
    eps = max(max(hi[j] - mids[j], mids[j] - lo[j]) for j in range(201)) * Fraction(1001, 1000)
    tmid = {k: _round_grid((tlo[k] + thi[k]) / 2) for k in ks}
    eta = max(max(thi[k] - tmid[k], tmid[k] - tlo[k]) for k in ks) * Fraction(1001, 1000) + Fraction(1, 10 ** 30)
    lines = [head, 'Require Import %s.' % ' '.join(names), 'From Coq Require Import QArith Qreals.',
             'Open Scope R_scope.']
    lines.append('Definition PhiQ (j : Z) : Q :=\n  match j with\n'
                 + '\n'.join('  | %s => %s' % (_zlit(j), C.cQ(mids[j])) for j in range(201))
                 + '\n  | _ => 0%Q\n  end.')
    lines.append('Definition ThQ (k : Z) : Q :=\n  match k with\n'
                 + '\n'.join('  | %s => %s' % (_zlit(k), C.cQ(tmid[k])) for k in ks)
                 + '\n  | _ => 0%Q\n  end.')
    lines.append('Definition epsQ : Q := %s.\nDefinition etaQ : Q := %s.\nDefinition MQ : Q := (1000000001 # 1000000000)%%Q.\n'
                 'Definition thsQ : Q := %s.' % (C.cQ(eps), C.cQ(eta), C.cQ(ths)))
    lines.append('Ltac qb H := q_unfold PhiQ ThQ epsQ etaQ MQ; repeat split; apply Rabs_le; generalize H; lra.')
    lines.append('Lemma phi_F : Forall (fun j => Rabs (Fs P j - Q2R (PhiQ j)) <= Q2R epsQ /\\ '
                 'Rabs (1 - Q2R (PhiQ j)) <= Q2R MQ) (layers 201).')
    lines.append('Proof.\n  cbv beta iota delta [layers seq map Z.of_nat Pos.of_succ_nat Pos.succ].')
    for j in range(201):
        lines.append('  apply Forall_cons; [qb phi_%d|].' % j)
    lines.append('  apply Forall_nil.\nQed.')
    lines.append('Lemma phi_all : forall j, In j (layers 201) -> Rabs (Fs P j - Q2R (PhiQ j)) <= Q2R epsQ.\n'
                 'Proof. intros j Hj. exact (proj1 (proj1 (Forall_forall _ _) phi_F j Hj)). Qed.')
    lines.append('Lemma phi_range : forall j, In j (layers 201) -> Rabs (1 - Q2R (PhiQ j)) <= Q2R MQ.\n'
                 'Proof. intros j Hj. exact (proj2 (proj1 (Forall_forall _ _) phi_F j Hj)). Qed.')
    lines.append('Lemma theta_F : Forall (fun k => Rabs (theta_at P k - Q2R (ThQ k)) <= Q2R etaQ) (offsets 201).')
    lines.append('Proof.\n  cbv beta iota delta [offsets seq map Z.of_nat Pos.of_succ_nat Pos.succ Nat.mul Nat.add Z.sub Z.add '
                 'Z.opp Z.pos_sub Z.succ_double Z.pred_double Z.double Pos.pred_double Pos.add Pos.add_carry].')
    for k in ks:
        lines.append('  apply Forall_cons; [qb th_%s|].' % (('m%d' % -k) if k < 0 else str(k)))
    lines.append('  apply Forall_nil.\nQed.')
    lines.append('Lemma theta_all : forall k, In k (offsets 201) -> Rabs (theta_at P k - Q2R (ThQ k)) <= Q2R etaQ.\n'
                 'Proof. intros k Hk. exact (proj1 (Forall_forall _ _) theta_F k Hk). Qed.')
    lines.append('Lemma ths_ok : theta_s P = Q2R thsQ.\nProof. cbv beta iota delta [theta_s thsQ Q2R Qnum Qden]. field. Qed.')
    lines.append('Lemma adm_P : admissible P.\nProof. admissible_eval. Qed.')
    tab = os.path.join(d, 'Tab.v')
    with open(tab, 'w') as f:
        f.write('\n'.join(lines) + '\n')
    errors = []
    t0 = time.time()
    extra = ('-Q', d, 'Tab')
    with cf.ThreadPoolExecutor(max_workers=16) as ex:
        for path, (rc, out, _) in zip(files, ex.map(lambda q: C.coqc(q, timeout, extra), files)):
            if rc != 0:
                errors.append((path, out[-2000:]))
    if not errors:
        rc, out, _ = C.coqc(tab, timeout, extra)
        if rc != 0:
            errors.append((tab, out[-2000:]))
    return dict(dir=d, eps=eps, eta=eta, mids=mids, tmid=tmid, errors=errors, seconds=time.time() - t0,
                extra=extra, head=head)


# ------------------------------------------------------------------ wave 5 additions (nothing above draws from these)

#: round numbers software chunks / caches / switches algorithm at
BLOCK_BOUNDARIES = (1000, 1024, 2048, 3072, 4096, 8192, 10000)


def long_size(rng, band):
    """A size at or past one of the round numbers: band 0 -> exactly 1024 or 1025..1100 (the first full block and
    a little more), band 1 -> 2049..3071, band 2 -> 4097..5000, band 3 -> 1001..1023; never a multiple of 1000, and
    a multiple of 1024 only where band 0 says 'exactly 1024'."""
    if band == 0 and rng.random() < 0.34:
        return 1024
    lo, hi = ((1025, 1100), (2049, 3071), (4097, 5000), (1001, 1023))[band]
    while True:
        n = rng.randrange(lo, hi + 1)
        if n % 1000 and n % 1024:
            return n


LONG_ORDERS = ('shuffled', 'ascending', 'descending', 'record')


def long_array_from_pool(rng, pool, n, order, high):
    """n levels drawn (with repetition) from `pool` for ONE array call - the scalar value is then needed only once
    per pool level.  order: 'shuffled'; 'ascending' / 'descending' (sorted, ties kept); 'record' (a slow wave through
    the sorted pool plus jitter, like a water-level record).  Unless sorted, the levels of `high` (levels whose value
    is far from the minimum) are planted just before, at and just after every index of BLOCK_BOUNDARIES below n."""
    pool = sorted(float(z) for z in pool)
    m = len(pool)
    if order == 'record':
        period = rng.choice([337.0, 811.0, 1499.0])
        idx = [int(round((m - 1) * (0.5 + 0.5 * math.sin(2 * math.pi * i / period)) + rng.uniform(-2, 2))) for i in range(n)]
        xs = [pool[min(max(i, 0), m - 1)] for i in idx]
    else:
        xs = [pool[rng.randrange(m)] for _ in range(n)]
        if order in ('ascending', 'descending'):
            xs.sort(reverse=(order == 'descending'))
    if order in ('shuffled', 'record'):
        for b in BLOCK_BOUNDARIES:
            for k, i in enumerate((b - 1, b, b + 1, b - 2)):
                if 0 <= i < n:
                    xs[i] = float(high[k % len(high)])
    return xs


NEAR_KINDS = ('decimal', 'ulp', 'ulp', 'ratio-15', 'ratio-14', 'ratio-13', 'ratio-12', 'ratio-11', 'ratio-10',
              'ratio-9', 'ratio-8', 'ratio-7', 'ratio-6')


def rounding_neighbour(rng, kind, lo=1e-1, hi=1e3):
    """(K, K') : two positive numbers that differ by rounding only.  'decimal': a decimal and the same number as
    floating-point arithmetic produces it (0.3 and 0.1 * 3, 0.7 and sum([0.1] * 7), 1.21 and 1.1 * 1.1 ...), scaled
    by a power of ten; 'ulp': K and the float 1-3 ulps beside it; 'ratio-e': K and K (1 +- 10^-e).  Either may come
    first (the caller places them at adjacent knots)."""
    if kind == 'decimal':
        while True:
            m, d = rng.randrange(2, 60), rng.choice([0.1, 0.01, 0.001, 1.1, 0.7])
            how = rng.choice(['product', 'sum', 'sum'])
            a = m * d if how == 'product' else sum([d] * m)
            b = float('%.12g' % a)
            if a != b and abs(a - b) <= 4 * math.ulp(b):
                s = 10.0 ** rng.choice([0, 0, 1, 2, -1])
                pair = (a * s, b * s) if (a * s != b * s) else (a, b)
                break
    else:
        K = round_sig(loguniform(rng, lo, hi), rng.choice([2, 3, 6]))
        if kind == 'ulp':
            K2, towards = K, rng.choice([math.inf, 0.0])
            for _ in range(rng.choice([1, 1, 2, 3])):
                K2 = math.nextafter(K2, towards)
        else:
            e = int(kind.split('-')[1])
            K2 = K * (1.0 + rng.choice([1.0, -1.0]) * 10.0 ** -e)
            if K2 == K:
                K2 = math.nextafter(K, math.inf)
        pair = (K, K2)
    return pair if rng.random() < 0.5 else (pair[1], pair[0])
