"""Assemble MANIFEST.json from manifest.d/Cxx.json fragments (python3 -m harness.manifest)."""
import glob
import json
import os

VERIF = os.path.dirname(os.path.dirname(os.path.abspath(__file__)))


def main():
    props = [json.loads(l)['id'] for l in open(os.path.join(VERIF, 'properties.jsonl')) if l.strip()]
    checks = []
    ready_path = os.path.join(VERIF, 'manifest.d', 'ready.txt')
    ready = set(open(ready_path).read().split()) if os.path.exists(ready_path) else None
    for p in sorted(glob.glob(os.path.join(VERIF, 'manifest.d', 'C*.json'))):
        c = json.load(open(p))
        pid = c['property_id']
        if ready is not None and pid not in ready:
            continue   # fragment written by a builder, not yet accepted by the lead
        c.setdefault('quick_cmd', './check %s --tier quick' % pid)
        c.setdefault('thorough_cmd', './check %s --tier thorough' % pid)
        c.setdefault('evidence_file', 'evidence/%s.json' % pid)
        c.setdefault('replay_cmd_template', './check %s --replay {path}' % pid)
        c.setdefault('engine', 'coq-proofs')
        checks.append(c)
    claimed = [c['property_id'] for c in checks]
    na_path = os.path.join(VERIF, 'manifest.d', 'not_applicable.json')
    na = json.load(open(na_path)) if os.path.exists(na_path) else {}
    man = {
        'version': 1,
        'setup_cmd': 'cd /verif && /venv/bin/python -m harness.setup',
        'hooks': {
            'guard': 'SPOWTD_VERIF',
            'enable': 'no source hooks: instrumentation is installed from outside by the harness process '
                      '(sqlite3.connect wrapper, trace / authorizer / progress callbacks)',
            'baseline_off_cmd': 'cd /repo && /venv/bin/python -m pytest -q -p no:cacheprovider --timeout=900',
            'source_commits': [],
            'add_only': True,
        },
        'engines': [
            {'name': 'coq-proofs', 'path': 'coq/', 'serves_properties': claimed,
             'kind_free_text': 'Coq 8.16 development: Model/ (executable definitions), Proofs/ (lemmas), '
                               'Properties/ (one file of theorems per property, each closed by exact + Print Assumptions)'},
            {'name': 'correspondence-harness', 'path': 'harness/', 'serves_properties': claimed,
             'kind_free_text': 'Python: seeded generators, runners of the real spowtd code and CLI, case files '
                               'evaluated inside Coq (vm_compute / interval), independent oracles, shrinking, evidence'},
        ],
        'checks': checks,
        'not_applicable': [
            {'property_id': p, 'reason': na.get(p, 'check not built yet in this round (no technique limitation claimed); not claimed')}
            for p in props if p not in claimed],
        'notes': 'All checks are driven by ./check Cxx; see DESIGN.md. fix: commits in /repo are listed in known_findings.json.',
    }
    with open(os.path.join(VERIF, 'MANIFEST.json'), 'w') as f:
        json.dump(man, f, indent=1)
    print('claimed:', claimed)


if __name__ == '__main__':
    main()
