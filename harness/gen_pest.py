"""Generators shared by C19 and C20: small synthetic records on which the whole
workflow (load, classify, set-zeta-grid, set-curvature, rise, recession) succeeds,
i.e. several storms whose rises overlap in water level and several rain-free
recessions that overlap in water level; plus parameter files for both
parameterisations (C19).

Records use the format of harness.gen_classify (so `gen_classify.to_dataset`
turns them into the three text files)."""
import math

from harness import gen_classify as G

STEPS = [1800, 3600, 1200]


# depth of a recession as a fraction of the rise before it. None = the record returns to about the
# same level after every storm (the rise curve then tends to have as many levels as the recession curve,
# or a few more); 'shallow' = large storms with short recessions: the record climbs and the recessions
# cover a smaller range of levels than the rises (but still overlap one another: fraction > 1/2);
# 'deep' = the record sinks and the recessions cover a larger range than the rises (as in the field
# samples of the repository; rises still overlap: fraction < 2)
FALL_FRACTIONS = {None: [0.8, 1.0, 1.1], 'shallow': [0.55, 0.625, 0.7], 'deep': [1.3, 1.5, 1.7]}


def gen_curves_record(rng, ncycles=None, grid=None, size='small', gaps=None, shape=None):
    """A saw-tooth record: storm (heavy rain + fast rise) / long dry recession, repeated.

    `shape` (None / 'shallow' / 'deep', see FALL_FRACTIONS) selects how far each recession
    falls relative to the rise before it; the default draws exactly what it always drew.

    All values are dyadic (multiples of 1/8 mm) so that SQLite's text->double
    conversion at load is exact. Returns a record with the extra keys
    `grid_mm` (water-level step for set-zeta-grid), `curvature`, `ref` (None).
    """
    step = rng.choice(STEPS)
    step_h = step / 3600.0
    thr_s = rng.choice([2.0, 4.0, 1.0])
    thr_j = rng.choice([4.0, 8.0, 5.0])
    delta = thr_j * step_h
    ncycles = ncycles or (rng.randrange(3, 6) if size == 'small' else rng.randrange(5, 10))
    grid = grid or rng.choice([4.0, 5.0, 8.0, 2.5] if size == 'small' else [1.0, 2.0, 2.5, 0.5])
    z = rng.choice([-300.0, -120.5, -40.25, 12.5, -800.0])
    rain, zeta = [], [z]
    missing = []
    if gaps is None:
        gaps = rng.choice([0, 1, 1, 2])
    gap_cycles = set(rng.sample(range(ncycles), min(gaps, ncycles)))
    # one dry lead-in sample (flagged "unexplained" until the first rain)
    for _ in range(rng.randrange(0, 3)):
        rain.append(0.0)
        z -= 0.125 * rng.randrange(0, 4)
        zeta.append(z)
    for c in range(ncycles):
        ls = rng.randrange(1, 4)
        up = math.ceil(delta * 8) / 8 + 0.125 * rng.randrange(8, 40)   # > delta, dyadic
        for _ in range(ls):
            rain.append(thr_s + 0.5 * rng.randrange(1, 12))
            z += up + 0.125 * rng.randrange(0, 9)
            zeta.append(z)
        lr = rng.randrange(6, 14) if size == 'small' else rng.randrange(10, 30)
        total_up = zeta[-1] - zeta[-1 - ls]
        fall = max(0.125, round(total_up / lr * 8 * rng.choice(FALL_FRACTIONS[shape])) / 8)
        # light rain after the burst: the sample that closes the fast rise must be rainy,
        # otherwise everything up to the next rain is flagged as an unexplained rise
        for _ in range(rng.randrange(1, 3)):
            rain.append(rng.choice([thr_s, thr_s / 2, 0.25]))
            z -= 0.125
            zeta.append(z)
        gap_at = rng.randrange(3, lr - 2) if c in gap_cycles else None
        for k in range(lr):
            rain.append(0.0)
            z -= fall + (0.125 * rng.randrange(0, 3) if k % 3 == 0 else 0.0)
            zeta.append(z)
            if k == gap_at:  # a missing water-level sample splits the record into stretches
                missing.append(len(zeta) - 1)
    rain.append(0.0)  # rain step starting at the last water-level sample
    assert len(rain) == len(zeta)
    t0 = rng.choice([1361318400, 1356998400, 946684800]) // step * step
    return dict(cls='curves', step=step, thr_s=thr_s, thr_j=thr_j, t0=t0, rain=rain, zeta=zeta,
                missing=missing, lead=rng.randrange(0, 2), trail=rng.randrange(0, 2),
                grid_mm=grid, curvature=rng.choice([0.0, 1.0, 0.5, 2.25]), ref=None)


# round numbers at which software reads / writes / allocates in blocks; a LONG master curve has more levels
# than one of them and a number of levels that is no multiple of any
BLOCK_SIZES = [1000, 1024, 2048, 4096, 8192, 10000]


def gen_long_curves_record(rng, nlevels, shape=None, ncycles=None, scale=None, dyadic=None, rec=None):
    """A saw-tooth record (gen_curves_record, no gaps) whose master rise AND recession curves have more
    than `nlevels` levels each: the record is stretched in level by a power of two (`scale`: 1, 4, 16 -
    a tall record: storms of hundreds of mm) and the water-level step of set-zeta-grid is chosen fine
    enough for the span of levels the record covers (`dyadic`: a power of two, else a two-digit decimal such
    as 0.037).  The caller measures the number of levels on the tables the real commands wrote and calls
    again with `rec` = the record it got (then the step is halved, nothing else is drawn).

    Uses only `rng` (hand it a stream of its own).  Same record format as gen_curves_record plus
    `long` = dict(target, scale, span_mm)."""
    if rec is not None:
        rec = dict(rec, grid_mm=rec['grid_mm'] / 2)
        return rec
    rec = gen_curves_record(rng, ncycles=ncycles or rng.randrange(3, 6), size='small', gaps=0, shape=shape)
    scale = scale or rng.choice([1, 1, 4, 16])
    dyadic = rng.random() < 0.5 if dyadic is None else dyadic
    rec['zeta'] = [z * scale for z in rec['zeta']]
    # the curves cover most of the span of the record (the rises from the lowest storm foot to the highest
    # peak, the recessions from the highest peak to the lowest trough)
    span = max(rec['zeta']) - min(rec['zeta'])
    want = nlevels * rng.uniform(1.04, 1.35)
    if want % 8 < 1:          # stay clear of round counts
        want += 3
    step = 0.7 * span / want
    if dyadic:
        step = 2.0 ** math.floor(math.log2(step))
    else:
        e = math.floor(math.log10(step)) - 1
        step = round(math.floor(step / 10.0 ** e) * 10.0 ** e, -e)
    rec['grid_mm'] = step
    rec['long'] = dict(target=nlevels, scale=scale, span_mm=span)
    return rec


TOPS = ['positive', 'surface', 'negative']


def gen_shared_top_record(rng, top=None, grid=None, ncycles=None, on_line=False):
    """A saw-tooth record in which EVERY storm lifts the water level into one and the same cell of
    the water-level grid, the highest recorded level lying strictly inside that cell (off the grid
    lines; with `on_line` the highest peak stands exactly ON the upper grid line of the cell instead,
    with on_line='all' every peak does).
    The highest grid line below the record maximum is then crossed by every rise (it belongs to the
    master rise curve) and by every recession that starts above it (master recession curve); the
    storms start from different levels, so the lower end of the curves is ragged as usual.

    top: 'positive' (the shared cell lies above the surface), 'surface' (the cell just above level
    0: its lower grid line is level 0), 'negative' (below the surface), None = drawn.
    Same record format as gen_curves_record; every level is a multiple of 1/16 mm."""
    top = top or rng.choice(TOPS)
    step = rng.choice(STEPS)
    step_h = step / 3600.0
    thr_s = rng.choice([2.0, 4.0, 1.0])
    thr_j = rng.choice([4.0, 8.0, 5.0])
    delta = thr_j * step_h
    grid = grid or rng.choice([1.0, 2.0, 2.5, 0.5, 4.0, 5.0])
    ncycles = ncycles or rng.randrange(3, 6)
    kt = {'positive': rng.randrange(1, 30), 'surface': 0, 'negative': -rng.randrange(2, 200)}[top]
    eighths = rng.sample(range(1, 8), ncycles)
    if on_line == 'all':
        eighths = [8] * ncycles
    elif on_line:
        eighths[rng.randrange(ncycles)] = 8
    peaks = [(kt + e / 8.0) * grid for e in eighths]
    rain, zeta = [], []
    z = None
    for c in range(ncycles):
        ls = rng.randrange(1, 4)
        ups = [math.ceil(delta * 8) / 8 + 0.125 * rng.randrange(8, 40) + 0.125 * rng.randrange(0, 9)
               for _ in range(ls)]
        # every rise crosses the grid line under the shared cell and at least one more
        need = (eighths[c] / 8.0 + 1.0) * grid + 0.125 * rng.randrange(1, 24) - sum(ups)
        if need > 0:
            ups[rng.randrange(ls)] += math.ceil(need * 8) / 8
        bottom = peaks[c] - sum(ups)
        if z is None:
            # dry lead-in down to the first storm's starting level
            nlead = rng.randrange(0, 3)
            z = bottom + 0.125 * nlead
            zeta.append(z)
            for _ in range(nlead):
                rain.append(0.0)
                z -= 0.125
                zeta.append(z)
        else:
            lr = rng.randrange(6, 14)
            fall = math.floor((z - bottom) / lr * 16) / 16
            for k in range(lr):
                rain.append(0.0)
                z = bottom if k == lr - 1 else z - fall
                zeta.append(z)
        assert z == bottom, (z, bottom)
        for k, up in enumerate(ups):
            rain.append(thr_s + 0.5 * rng.randrange(1, 12))
            z = peaks[c] if k == ls - 1 else z + up
            zeta.append(z)
        for _ in range(rng.randrange(1, 3)):
            rain.append(rng.choice([thr_s, thr_s / 2, 0.25]))
            z -= 0.125
            zeta.append(z)
    lr = rng.randrange(6, 14)
    fall = max(0.125, math.floor(sum(ups) * rng.choice([0.8, 1.0, 1.1]) / lr * 16) / 16)
    for k in range(lr):
        rain.append(0.0)
        z -= fall
        zeta.append(z)
    rain.append(0.0)
    assert len(rain) == len(zeta)
    t0 = rng.choice([1361318400, 1356998400, 946684800]) // step * step
    return dict(cls='curves', step=step, thr_s=thr_s, thr_j=thr_j, t0=t0, rain=rain, zeta=zeta,
                missing=[], lead=rng.randrange(0, 2), trail=rng.randrange(0, 2),
                grid_mm=grid, curvature=rng.choice([0.0, 1.0, 0.5, 2.25]), ref=None,
                top=top, top_cell=kt, peaks=peaks)


def to_dataset(rec, et=None):
    ds = G.to_dataset(rec)
    if et is not None:
        ds.et = [(t, et[i % len(et)]) for i, (t, _) in enumerate(ds.et)]
    return ds


STEP_ARGS = {
    'classify': lambda db, rec: ['classify', db, '-s', rec['thr_s'], '-j', rec['thr_j']],
    'set-zeta-grid': lambda db, rec: ['set-zeta-grid', db, '-d', rec['grid_mm']],
    'set-curvature': lambda db, rec: ['set-curvature', db, rec['curvature']],
    'rise': lambda db, rec: ['rise', db] + (['-r', rec['ref']] if rec.get('ref') is not None else []),
    'recession': lambda db, rec: ['recession', db] + (['-r', rec['ref']] if rec.get('ref') is not None else []),
}


def step_argv(step, db, rec):
    return [str(a) for a in STEP_ARGS[step](db, rec)]
