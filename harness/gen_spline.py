"""Generators for the spline specific-yield properties (C14, C17): knot sets with
spacings over three orders of magnitude, integration limits placed relative to
the knot range, level grids inside / straddling / beyond the knots and their
refinements, and exact (Fraction) reference splines used as certificates."""
import math
from fractions import Fraction

POSITIONS = ['below', 'xmin', 'inside', 'knot', 'xmax', 'above']


def round_sig(x, sig):
    if x == 0:
        return 0.0
    return float('%.*g' % (sig, x))


def gen_knots(rng, kind=None, nmin=4, nmax=9):
    """Strictly increasing knots (mm) and specific-yield values."""
    kind = kind or rng.choice(['param', 'wide', 'tight', 'full', 'wiggly', 'negative'])
    n = rng.randrange(nmin, nmax + 1)
    start = rng.choice([-291.7, -1000.5, 0.0, -50.25, -3.0, 120.0, -800.0])
    xs = [start]
    for _ in range(n - 1):
        if kind == 'tight':
            d = 10 ** rng.uniform(-1.0, 0.5)
        elif kind == 'wide':
            d = 10 ** rng.uniform(-0.5, 2.5)
        else:
            d = 10 ** rng.uniform(0.3, 2.4)
        xs.append(xs[-1] + d)
    if kind == 'param':          # what parameter files look like: 4 significant digits
        xs = [round_sig(x, 4) for x in xs]
    elif kind != 'full':
        xs = [round(x, rng.choice([1, 2, 3])) for x in xs]
    # repair ties produced by rounding
    for i in range(1, len(xs)):
        if xs[i] <= xs[i - 1]:
            xs[i] = xs[i - 1] + 0.125
    if kind == 'wiggly':
        ys = [rng.uniform(0.02, 1.0) for _ in xs]
    elif kind == 'negative':     # values of either sign: the clamped function changes sign
        ys = [rng.uniform(-0.5, 0.8) for _ in xs]
    else:                        # increasing-ish, like a real specific yield profile
        y = rng.uniform(0.05, 0.2)
        ys = []
        for _ in xs:
            ys.append(y)
            y += rng.uniform(-0.02, 0.15)
    if kind in ('param', 'wide', 'tight'):
        ys = [round_sig(y, 4) for y in ys]
    return dict(kind=kind, knots=[float(x) for x in xs], values=[float(y) for y in ys])


def short_variant(ks):
    """The same geometry with short binary fractions (knots: multiples of 1/8 mm,
    values: multiples of 2^-16), so that exact rational arithmetic on the spline
    stays cheap inside Coq."""
    xs = [round(x * 8) / 8 for x in ks['knots']]
    for i in range(1, len(xs)):
        if xs[i] <= xs[i - 1]:
            xs[i] = xs[i - 1] + 0.125
    ys = [round(y * 65536) / 65536 for y in ks['values']]
    return dict(kind=ks['kind'] + '-short', knots=xs, values=ys)


def place(rng, knots, pos):
    """A level at the named position relative to the knot range."""
    xmin, xmax = knots[0], knots[-1]
    span = xmax - xmin
    if pos == 'below':
        return xmin - rng.choice([0.5, 10.0, span / 3, 1e-3, 250.0, math.ulp(xmin) * 4])
    if pos == 'xmin':
        return xmin
    if pos == 'inside':
        i = rng.randrange(len(knots) - 1)
        return knots[i] + (knots[i + 1] - knots[i]) * rng.choice([0.5, 0.25, 0.9, rng.random()])
    if pos == 'knot':
        return knots[rng.randrange(1, len(knots) - 1)]
    if pos == 'xmax':
        return xmax
    if pos == 'above':
        return xmax + rng.choice([0.5, 10.0, span / 3, 1e-3, 250.0, math.ulp(xmax) * 4])
    raise ValueError(pos)


def limit_pairs(rng, knots):
    """All 36 ordered pairs of positions (both orders, equal positions and equal
    limits included), drawn from two levels per position so that the set of
    distinct levels of one knot set stays small (<= 10)."""
    cand = {pos: [float(place(rng, knots, pos)) for _ in range(1 if pos in ('xmin', 'xmax') else 2)]
            for pos in POSITIONS}
    out = []
    for pa in POSITIONS:
        for pb in POSITIONS:
            out.append((pa, pb, rng.choice(cand[pa]), rng.choice(cand[pb])))
    return out


def gen_grid(rng, knots, where=None, nmax=24):
    """Increasing level grid relative to the knot range."""
    xmin, xmax = knots[0], knots[-1]
    span = xmax - xmin
    where = where or rng.choice(['inside', 'straddle_low', 'straddle_high', 'straddle_both',
                                 'below', 'above', 'master'])
    n = rng.randrange(2, nmax)
    if where == 'inside':
        lo, hi = xmin + span * rng.uniform(0, 0.4), xmax - span * rng.uniform(0, 0.4)
    elif where == 'straddle_low':
        lo, hi = xmin - span * rng.uniform(0.05, 0.5), xmin + span * rng.uniform(0.1, 0.9)
    elif where == 'straddle_high':
        lo, hi = xmin + span * rng.uniform(0.1, 0.9), xmax + span * rng.uniform(0.05, 0.5)
    elif where == 'straddle_both':
        lo, hi = xmin - span * rng.uniform(0.05, 0.5), xmax + span * rng.uniform(0.05, 0.5)
    elif where == 'below':
        hi = xmin - span * rng.uniform(0.0, 0.3)
        lo = hi - span * rng.uniform(0.1, 0.5)
    elif where == 'above':
        lo = xmax + span * rng.uniform(0.0, 0.3)
        hi = lo + span * rng.uniform(0.1, 0.5)
    elif where in ('span_two', 'span_step'):
        # ONE step over the whole knot range: the level before it lies below (or on) the lowest knot, the
        # level after it above (or on) the highest; 'span_two' is the grid of just these two levels,
        # 'span_step' has 0-3 ordinary levels on either side of the huge step
        off = [0.5, 10.0, span / 3, 1e-3, 250.0, 3 * span]
        a = xmin - rng.choice(off) if (where == 'span_two' or rng.random() < 0.75) else xmin
        b = xmax + rng.choice(off) if (where == 'span_two' or a == xmin or rng.random() < 0.75) else xmax
        grid = [a, b]
        if where == 'span_step':
            for _ in range(rng.randrange(0, 4)):
                grid.insert(0, grid[0] - rng.choice([0.5, 1.0, 7.25, span / 5]))
            for _ in range(rng.randrange(0, 4)):
                grid.append(grid[-1] + rng.choice([0.5, 1.0, 7.25, span / 5]))
        return where, [float(g) for g in grid]
    else:  # 'master': what the command produces: integer multiples of a step
        step = rng.choice([1.0, 0.5, 2.0, 5.0, 0.1, 10.0])
        k0 = math.floor((xmin - span * rng.uniform(-0.3, 0.3)) / step)
        n = min(n, 20)
        grid = [(k0 + i * rng.choice([1, 1, 1, 2])) * step for i in range(n)]
        grid = sorted(set(grid))
        if len(grid) < 2:
            grid = [k0 * step, (k0 + 1) * step]
        return where, [float(g) for g in grid]
    if rng.random() < 0.5:
        grid = [lo + (hi - lo) * i / (n - 1) for i in range(n)]
    else:
        grid = sorted(rng.uniform(lo, hi) for _ in range(n))
    # plant the ends of the knot range / a knot as grid levels now and then
    if rng.random() < 0.4:
        grid += [x for x in (xmin, xmax, knots[len(knots) // 2]) if lo <= x <= hi]
    grid = sorted(set(float(g) for g in grid))
    if len(grid) < 2:
        grid = [grid[0], grid[0] + 1.0]
    return where, grid


def refine(rng, grid):
    """A refinement: every level kept, extra levels inserted between and beyond."""
    out = set(grid)
    for a, b in zip(grid, grid[1:]):
        for _ in range(rng.choice([0, 1, 1, 2, 3])):
            out.add(a + (b - a) * rng.uniform(0.05, 0.95))
    if rng.random() < 0.5:
        out.add(grid[0] - rng.uniform(0.5, 20.0))
    if rng.random() < 0.5:
        out.add(grid[-1] + rng.uniform(0.5, 20.0))
    return sorted(out)


# ------------------------------------------------------------ exact reference splines

def frac_solve(A, b):
    """Gauss-Jordan over Fractions. A: n x n list of lists, b: list."""
    n = len(A)
    M = [list(map(Fraction, row)) + [Fraction(bi)] for row, bi in zip(A, b)]
    for c in range(n):
        p = next((r for r in range(c, n) if M[r][c] != 0), None)
        if p is None:
            raise ZeroDivisionError('singular collocation system')
        M[c], M[p] = M[p], M[c]
        inv = 1 / M[c][c]
        M[c] = [v * inv for v in M[c]]
        for r in range(n):
            if r != c and M[r][c] != 0:
                f = M[r][c]
                M[r] = [vr - f * vc for vr, vc in zip(M[r], M[c])]
    return [M[r][n] for r in range(n)]


def linear_pp(knots, values):
    """Exact piecewise-linear interpolant: list of (x0, [c0, c1])."""
    xs, ys = [Fraction(x) for x in knots], [Fraction(y) for y in values]
    return [(xs[i], [ys[i], (ys[i + 1] - ys[i]) / (xs[i + 1] - xs[i])]) for i in range(len(xs) - 1)]


def notaknot_pp(knots, values):
    """Exact not-a-knot cubic interpolating spline (what FITPACK's interpolating
    k=3 spline with interior knots x[2:-2] is): per segment i the coefficients of
    sum_k c_k (x - x_i)^k, from the classical second-derivative equations solved
    over the rationals."""
    xs, ys = [Fraction(x) for x in knots], [Fraction(y) for y in values]
    n = len(xs)
    assert n >= 4
    h = [xs[i + 1] - xs[i] for i in range(n - 1)]
    A = [[Fraction(0)] * n for _ in range(n)]
    rhs = [Fraction(0)] * n
    for i in range(1, n - 1):
        A[i][i - 1] = h[i - 1]
        A[i][i] = 2 * (h[i - 1] + h[i])
        A[i][i + 1] = h[i]
        rhs[i] = 6 * ((ys[i + 1] - ys[i]) / h[i] - (ys[i] - ys[i - 1]) / h[i - 1])
    # not-a-knot: third derivative continuous at x_1 and x_{n-2}
    A[0][0], A[0][1], A[0][2] = h[1], -(h[0] + h[1]), h[0]
    A[n - 1][n - 3], A[n - 1][n - 2], A[n - 1][n - 1] = h[n - 2], -(h[n - 3] + h[n - 2]), h[n - 3]
    m = frac_solve(A, rhs)
    segs = []
    for i in range(n - 1):
        c0 = ys[i]
        c1 = (ys[i + 1] - ys[i]) / h[i] - h[i] * (2 * m[i] + m[i + 1]) / 6
        c2 = m[i] / 2
        c3 = (m[i + 1] - m[i]) / (6 * h[i])
        segs.append((xs[i], [c0, c1, c2, c3]))
    return segs


def pp_eval(segs, xend, x):
    """Exact evaluation for xs[0] <= x <= xend."""
    x = Fraction(x)
    k = 0
    for i, (x0, _) in enumerate(segs):
        if x0 <= x:
            k = i
    x0, c = segs[k]
    t, acc = x - x0, Fraction(0)
    for ck in reversed(c):
        acc = acc * t + ck
    return acc


def pp_integral(segs, xend, a, b):
    """Exact integral of the piecewise polynomial between a <= b inside the range."""
    a, b = Fraction(a), Fraction(b)
    total = Fraction(0)
    ends = [s[0] for s in segs[1:]] + [Fraction(xend)]
    for (x0, c), x1 in zip(segs, ends):
        lo, hi = max(a, x0), min(b, x1)
        if lo >= hi:
            continue
        for k, ck in enumerate(c):
            total += ck * ((hi - x0) ** (k + 1) - (lo - x0) ** (k + 1)) / (k + 1)
    return total


# ------------------------------------------------------------ histories of functions in one process

def reference_function(knots, values, order=3):
    """The interpolating spline of the knots (not-a-knot cubic / polygon), constant beyond
    them, as a plain float callable built from the exact (Fraction) piecewise polynomial:
    no scipy, no object of the code under test, nothing remembered between calls.  Used as
    the reference for 'THIS function's own specific yield' where the question is whether a
    function built late in a process still is the function of its own parameters."""
    import bisect
    segs = notaknot_pp(knots, values) if order == 3 else linear_pp(knots, values)
    xs = [float(x) for x in knots]
    coef = [[float(c) for c in cs] for _, cs in segs]

    def f(x):
        x = min(max(float(x), xs[0]), xs[-1])
        k = min(max(bisect.bisect_right(xs, x) - 1, 0), len(coef) - 1)
        t, acc = x - xs[k], 0.0
        for c in reversed(coef[k]):
            acc = acc * t + c
        return acc
    return f


def _short(xs, ys, kind):
    xs = [round(x * 8) / 8 for x in xs]
    for i in range(1, len(xs)):
        if xs[i] <= xs[i - 1]:
            xs[i] = xs[i - 1] + 0.125
    return dict(kind=kind, knots=[float(x) for x in xs], values=[round(y * 65536) / 65536 for y in ys])


def _profile(rng, n):
    y = rng.uniform(0.05, 0.3)
    ys = []
    for _ in range(n):
        ys.append(y)
        y += rng.uniform(0.01, 0.15)
    return ys


HISTORY_KINDS = ['same-levels', 'same-levels-ends-differ', 'same-levels-interior-differs', 'same-end-levels',
                 'same-low-end-level', 'same-high-end-level', 'same-values', 'same-end-values']


def history_sequence(rng, kind):
    """Spline parameter sets to be built, used and discarded one after the other in ONE
    process, sharing what `kind` names and differing in the rest; the first set comes
    back at the end (a memo that keeps the first or the last answer differs there too).
    Knots are multiples of 1/8 mm some 10-200 mm apart, values multiples of 2^-16."""
    n = rng.randrange(4, 7)
    start = rng.choice([-291.75, -800.0, -50.25, 0.0, -120.5])
    xs = [start]
    for _ in range(n - 1):
        xs.append(xs[-1] + rng.uniform(12.0, 200.0))
    ys = _profile(rng, n)
    base = _short(xs, ys, 'history:base')
    xs, ys = base['knots'], base['values']

    def other_values(m=n):
        while True:
            v = _short(list(range(m)), _profile(rng, m), '')['values']
            if m != n or all(abs(a - b) > 1e-3 for a, b in zip(v, ys)):
                return v

    def other_interior(m):
        cuts = sorted(rng.uniform(0.08, 0.92) for _ in range(m - 2))
        return [xs[0]] + [xs[0] + (xs[-1] - xs[0]) * c for c in cuts] + [xs[-1]]

    seq = [base]
    if kind == 'same-levels':
        seq += [_short(xs, other_values(), kind) for _ in range(2)]
    elif kind == 'same-levels-ends-differ':
        seq.append(_short(xs, [ys[0] * 0.25] + ys[1:-1] + [ys[-1] + 0.375], kind))
        seq.append(_short(xs, [ys[0] + 0.125] + ys[1:], kind))
        seq.append(_short(xs, ys[:-1] + [ys[-1] * 0.5], kind))
    elif kind == 'same-levels-interior-differs':
        seq.append(_short(xs, [ys[0]] + [y + rng.choice([-0.03, 0.04, 0.11]) for y in ys[1:-1]] + [ys[-1]], kind))
    elif kind == 'same-end-levels':
        for m in (n, n + 1, max(4, n - 1)):
            seq.append(_short(other_interior(m), other_values(m), kind))
    elif kind == 'same-low-end-level':
        for f in (0.5, 1.75):
            seq.append(_short([xs[0] + (x - xs[0]) * f for x in xs], other_values(), kind))
    elif kind == 'same-high-end-level':
        for f in (0.5, 1.75):
            seq.append(_short([xs[-1] + (x - xs[-1]) * f for x in xs], other_values(), kind))
    elif kind == 'same-values':
        seq.append(_short([x + 37.5 for x in xs], ys, kind))
        seq.append(_short([xs[0] + (x - xs[0]) * 0.5 for x in xs], ys, kind))
        seq.append(_short([x - 1000.0 for x in xs], ys, kind))
    elif kind == 'same-end-values':
        v = other_values()
        seq.append(_short([x + 61.25 for x in other_interior(n)], [ys[0]] + v[1:-1] + [ys[-1]], kind))
        seq.append(_short(xs, [ys[0]] + v[1:-1] + [ys[-1]], kind))
    else:
        raise ValueError(kind)
    seq.append(dict(base, kind='history:base-again'))
    return seq


def history_levels(rng, seq):
    """Levels shared by every member of the sequence: far and just beyond either end of every
    member's knot range, the ends themselves, and points inside the first member's range."""
    los, his = [m['knots'][0] for m in seq], [m['knots'][-1] for m in seq]
    lo, hi = min(los), max(his)
    xs = seq[0]['knots']
    inside = [xs[0] + (xs[-1] - xs[0]) * f for f in (0.31, 0.5, 0.77)] + [xs[len(xs) // 2]]
    lv = {lo - 250.0, hi + 250.0} | set(inside) | set(los) | set(his)
    lv |= {x - 0.5 for x in los} | {x + 0.5 for x in his}
    return sorted(float(round(x * 64) / 64) for x in lv)


def history_grid(rng, seq, n=14):
    """One increasing grid for every member of the sequence, reaching beyond both ends of all."""
    lo, hi = min(m['knots'][0] for m in seq), max(m['knots'][-1] for m in seq)
    span = hi - lo
    a, b = lo - span * rng.uniform(0.1, 0.4), hi + span * rng.uniform(0.1, 0.4)
    grid = {a + (b - a) * i / (n - 1) for i in range(n)} | {seq[0]['knots'][0], seq[0]['knots'][-1]}
    return sorted(float(round(x * 16) / 16) for x in grid)


# ------------------------------------------------------------ parameters as a parameter file writes them

NUMBER_STYLES = ('int', 'plus', 'dot', 'dot0', 'exp', 'repr')


def number_text(x, style):
    """Text of the number x in a YAML parameter file.  Whole numbers: 'int' `-300` and 'plus' `+5` (yaml.safe_load
    gives a Python int), 'dot' `-300.`, 'dot0' `-300.0`, 'exp' `-3.0e+02` (floats); 'repr' and every other number:
    Python's repr.  Minus zero is written `-0.0` / `-0.` / `-0.0e+00` (a float: YAML integers have no minus zero).
    The value meant is float(text) in every style."""
    import yaml
    x = float(x)
    neg = math.copysign(1.0, x) < 0
    t = repr(x)
    if x.is_integer() and abs(x) < 1e15:
        mag = '%d' % abs(int(x))
        if style in ('int', 'plus') and not (x == 0 and neg):
            t = ('-' if neg else '+' if style == 'plus' else '') + mag
        elif style == 'dot':
            t = ('-' if neg else '') + mag + '.'
        elif style == 'dot0':
            t = ('-' if neg else '') + mag + '.0'
        elif style == 'exp' and float('%.1e' % x) == x:
            t = '%.1e' % x
    got = yaml.safe_load(t)
    if (isinstance(got, bool) or not isinstance(got, (int, float)) or float(got) != x
            or (math.copysign(1.0, float(got)) < 0) != neg):
        t = repr(x)
    return t


def typed_numbers(texts):
    """The Python numbers yaml.safe_load gives for the texts (int for `1`, float for `1.0`)."""
    import yaml
    return [yaml.safe_load(t) for t in texts]


def parameter_text(texts, flow=False):
    """The specific_yield section of a parameter file with the numbers written as the texts say."""
    if flow:
        body = '  zeta_knots_mm: [%s]\n  sy_knots: [%s]\n' % (', '.join(texts['zk']), ', '.join(texts['sy']))
    else:
        body = ('  zeta_knots_mm:\n' + ''.join('  - %s\n' % t for t in texts['zk'])
                + '  sy_knots:\n' + ''.join('  - %s\n' % t for t in texts['sy']))
    return 'specific_yield:\n  type: spline\n' + body


TYPED_SHAPES = ('whole', 'whole-zero-low', 'mixed', 'whole-zero-mid', 'mixed-zero', 'whole-zero-high', 'decimal')
TYPED_VIAS = ('yaml', 'factory-typed', 'yaml', 'class-typed')


def gen_typed_knots(rng, k):
    """A knot set as a parameter file may write it: knot levels that are whole numbers of mm (all of them / some
    of them / one of them exactly zero: lowest, interior, highest), values that are whole (0, 1) next to fractions,
    each number written in one of NUMBER_STYLES, so that yaml.safe_load hands over a mixture of Python ints and
    floats (in particular an int first and fractions after it), zeros as `0`, `0.0` and `-0.0`.  knots / values are
    the floats meant; texts the way they are written; via the route the function is to be made through."""
    shape = TYPED_SHAPES[k % len(TYPED_SHAPES)]
    n = rng.randrange(4, 8)
    xs = [rng.choice([-300, -1000, -50, -3, 120, -800, 1])]
    for _ in range(n - 1):
        xs.append(xs[-1] + rng.choice([2, 5, 10, 25, 40, 100, 150, 300] + ([1] if shape.startswith('whole') else [])))
    if 'zero' in shape:
        j = 0 if shape.endswith('low') else n - 1 if shape.endswith('high') else rng.randrange(1, n - 1)
        xs = [x - xs[j] for x in xs]
    xs = [float(x) for x in xs]
    if shape.startswith('mixed') or shape == 'decimal':
        for i in range(n):
            if xs[i] != 0 and (shape == 'decimal' or rng.random() < 0.5):
                xs[i] = round(xs[i] + rng.choice([0.25, 0.5, -0.3, 0.7, 0.125, -0.45]), 3)
    zero_texts = ['0', '0.0', '-0.0', '+0', '0.', '-0.', '0.0e+00', '-0.0e+00']
    whole_styles = ['int'] * 3 + ['plus', 'dot', 'dot0', 'exp']
    all_int = shape.startswith('whole') and rng.random() < 0.35
    zk = []
    for i, x in enumerate(xs):
        if x == 0:
            t = '0' if all_int else rng.choice(zero_texts)
            xs[i] = float(t)
        else:
            t = number_text(x, 'int' if all_int else rng.choice(whole_styles))
        zk.append(t)
    # values: whole numbers (0, 1: no storage / open water) next to short binary fractions and 4-digit decimals
    decimals = shape == 'decimal' or rng.random() < 0.4
    ys, sy = [], []
    for i in range(n):
        r = rng.random()
        if r < 0.3 or (i == 0 and k % 2 == 0):
            y = float(rng.choice([0, 1, 1, 1]))
        elif decimals and r < 0.7:
            y = round_sig(rng.uniform(0.02, 0.95), 4)
        else:
            y = rng.randrange(1, 64) / 64
        if y == 0:
            t = rng.choice(['0', '0', '0.0', '-0.0'])
            y = float(t)
        else:
            t = number_text(y, 'int' if (i == 0 and k % 2 == 0) else rng.choice(whole_styles))
        ys.append(y)
        sy.append(t)
    if all(float(y).is_integer() for y in ys):          # at least one fraction after the whole numbers
        i = rng.randrange(1, n)
        ys[i] = rng.randrange(1, 64) / 64
        sy[i] = repr(ys[i])
    return dict(kind='typed:' + shape, knots=xs, values=ys, texts=dict(zk=zk, sy=sy),
                via=TYPED_VIAS[(k // len(TYPED_SHAPES)) % len(TYPED_VIAS)], flow=bool(rng.random() < 0.3),
                exact=bool(n <= 5 or (all((y * 64).is_integer() for y in ys) and all((x * 8).is_integer() for x in xs))))


def place_typed(rng, knots, pos):
    """place(), at whole numbers of mm wherever the knots around are whole numbers (so that the level can be
    handed over as a Python int / numpy integer as well)."""
    xmin, xmax = knots[0], knots[-1]
    if pos == 'below' and float(xmin).is_integer():
        return xmin - rng.choice([1, 10, 250, 3])
    if pos == 'above' and float(xmax).is_integer():
        return xmax + rng.choice([1, 10, 250, 3])
    if pos == 'inside':
        i = rng.randrange(len(knots) - 1)
        lo, hi = math.floor(knots[i]) + 1, math.ceil(knots[i + 1]) - 1
        if lo <= hi:
            return float(rng.randrange(lo, hi + 1))
    return place(rng, knots, pos)


def typed_pairs(rng, knots):
    """limit_pairs() with whole-number levels where possible, plus pairs with a limit at 0.0 / -0.0 (position
    'zero', wherever zero lies relative to the knots)."""
    cand = {pos: [float(place_typed(rng, knots, pos)) for _ in range(1 if pos in ('xmin', 'xmax') else 2)]
            for pos in POSITIONS}
    out = []
    for pa in POSITIONS:
        for pb in POSITIONS:
            out.append((pa, pb, rng.choice(cand[pa]), rng.choice(cand[pb])))
    for z in (0.0, -0.0):
        for pos in rng.sample(POSITIONS, 3):
            x = rng.choice(cand[pos])
            out.append(('zero', pos, z, x) if rng.random() < 0.5 else (pos, 'zero', x, z))
    out.append(('zero', 'zero', 0.0, -0.0))
    return out


# ------------------------------------------------------------ large inputs (C14 large-input stage; additions only)

#: round numbers software chunks / caches / switches algorithm at
BLOCK_BOUNDARIES = (1000, 1024, 2048, 3072, 4096, 8192, 10000)

LONG_ORDERS = ('shuffled', 'descending', 'record', 'ascending-with-repeats', 'blocks-reversed')


def long_size(rng, band):
    """A size past one of the round numbers, never a multiple of a block size: band 0 -> 1001..1023 (past 1000,
    short of 1024), band 1 -> 1025..2047, band 2 -> 2049..4095, band 3 -> 4097..5000, band 4 -> 8193..10001."""
    lo, hi = ((1001, 1023), (1025, 2047), (2049, 4095), (4097, 5000), (8193, 10001))[band]
    while True:
        n = rng.randrange(lo, hi + 1)
        if all(n % b for b in (1000, 1024)):
            return n


def long_levels(rng, knots, n, order):
    """n levels for ONE array call: about 55 % distinct levels inside the knot range, 12 % exactly at knots (each knot
    many times), 18 % beyond either end (far, near, one ulp), 15 % copies of a few values; ordered as `order` says -
    'shuffled'; 'descending'; 'record' (an oscillating water-level record: a slow wave plus noise, leaving the knot
    range at its crests and troughs); 'ascending-with-repeats' (sorted, ties kept); 'blocks-reversed' (sorted, then
    every block of 1000 reversed).  Except for the two sorted orders, a knot, a level above the range and a level
    below it are planted just before, at and just after every index of BLOCK_BOUNDARIES below n."""
    xmin, xmax = knots[0], knots[-1]
    span = xmax - xmin
    if order == 'record':
        period = rng.choice([337.0, 811.0, 1499.0])
        mid, amp = 0.5 * (xmin + xmax), 0.62 * span
        xs = [round(mid + amp * math.sin(2 * math.pi * i / period) + rng.uniform(-0.03, 0.03) * span, 2) for i in range(n)]
    else:
        xs = []
        few = [place(rng, knots, 'inside') for _ in range(5)]
        for _ in range(n):
            r = rng.random()
            if r < 0.55:
                xs.append(xmin + span * rng.random())
            elif r < 0.67:
                xs.append(rng.choice(knots))
            elif r < 0.76:
                xs.append(place(rng, knots, 'below'))
            elif r < 0.85:
                xs.append(place(rng, knots, 'above'))
            else:
                xs.append(rng.choice(few))
        if order in ('descending', 'ascending-with-repeats', 'blocks-reversed'):
            xs.sort(reverse=(order == 'descending'))
        if order == 'blocks-reversed':
            xs = [x for k in range(0, n, 1000) for x in reversed(xs[k:k + 1000])]
    if order in ('shuffled', 'record', 'blocks-reversed'):
        for b in BLOCK_BOUNDARIES:
            for i, x in ((b - 1, rng.choice(knots[1:-1])), (b, xmax + rng.choice([0.5, 250.0])),
                         (b + 1, xmin - rng.choice([0.5, 250.0])), (b - 2, xmax), (b + 2, xmin)):
                if 0 <= i < n:
                    xs[i] = x
    return [float(x) for x in xs]


def many_ranges(rng, knots, n):
    """A long history of integrate() calls on ONE object: levels (a grid of n + 1 levels reaching beyond both ends of
    the knot range, like the grid of a rise curve), `calls` = n + n // 20 DISTINCT ranges as index pairs (every step of
    the grid in turn, now and then a longer range or one with the limits swapped), and `repeats`: ranges asked AGAIN
    after all of them - the earliest ones, the ones just before / at / after every round count of calls (1000, 1024,
    2048, ...), the latest ones and a random sample - each in the order it was first asked in and with the limits
    swapped."""
    xmin, xmax = knots[0], knots[-1]
    span = xmax - xmin
    lo = xmin - span * rng.uniform(0.05, 0.3)
    hi = xmax + span * rng.uniform(0.05, 0.3)
    step = round_sig((hi - lo) / n, 3)
    lo = round(lo, 2)
    levels = [float(lo + i * step) for i in range(n + 1)]
    if rng.random() < 0.5:      # the ends of the knot range as grid levels
        for x in (xmin, xmax):
            i = min(range(n + 1), key=lambda j: abs(levels[j] - x))
            levels[i] = float(x)
    assert all(b > a for a, b in zip(levels, levels[1:])), 'harness: grid not increasing'
    calls, seen = [], set()
    for i in range(n):
        calls.append([i, i + 1] if rng.random() < 0.9 else [i + 1, i])
        seen.add((i, i + 1))
        if i % 20 == 7:
            j = min(n, i + rng.choice([2, 5, 40, 400]))
            if (i, j) not in seen:
                seen.add((i, j))
                calls.append([i, j] if rng.random() < 0.7 else [j, i])
    m = len(calls)
    idx = set(range(0, min(m, 40))) | set(range(max(0, m - 10), m)) | {rng.randrange(m) for _ in range(40)}
    for b in BLOCK_BOUNDARIES:
        idx |= {i for i in range(b - 3, b + 4) if 0 <= i < m}
        idx |= {i for i in range(m - b - 3, m - b + 4) if 0 <= i < m}     # counted back from the latest call
    repeats = []
    for i in sorted(idx):
        a, b = calls[i]
        repeats += [[a, b], [b, a]]
    rng.shuffle(repeats)
    return dict(levels=levels, calls=calls, repeats=repeats)
