"""Generators for C12 / C13: sampled series aimed at the branch structure of
regrid (ceilings of the scaled ordinates, direction of each pair, samples on a
grid level and one ulp beside it, flat pairs, large abscissae), and synthetic
datasets whose recessions revisit the same levels after each storm so that the
master curves have several overlapping intervals."""
import math

from harness.dataset import Dataset

STEPS = [1.0, 0.5, 0.1, 0.3, 2.5]
EXTRA_STEPS = [0.7, 10.0, 0.25, 1e-3, 3.0]
SERIES_CLASSES = ['rising', 'falling', 'nonmono', 'flat', 'onlevel', 'ulp', 'tiny', 'zigzag',
                  'twopoint', 'wide']
X_CLASSES = ['index', 'epoch', 'offset', 'irregular']


def nextafter(x, up=True, n=1):
    """n representable numbers above / below x.  Beside 0 the neighbours are the denormals 5e-324 ...: the
    difference quotient of two such ordinates underflows to 0 inside scipy's interpolant (the chord degenerates to a
    step), which is a limit of binary64, not of spowtd; the claimed domain of C12 / C13 is ordinates that are 0 or
    normal numbers, so the neighbours of 0 are taken at the scale 1e-300."""
    if x == 0.0:
        return (1 if up else -1) * n * 1e-300
    for _ in range(n):
        x = math.nextafter(x, math.inf if up else -math.inf)
    return x


def on_level(k, step):
    """A float y whose binary64 quotient y / step is exactly the integer k, if
    one is found next to k * step (there is one for every k tried in practice);
    otherwise k * step."""
    y = k * step
    for cand in (y, nextafter(y), nextafter(y, False), nextafter(y, True, 2), nextafter(y, False, 2)):
        if cand / step == float(k):
            return cand
    return y


def level_value(rng, k, step, mode):
    """Ordinate near level k: exactly on it, one ulp beside, or strictly inside
    the cell [k, k+1)."""
    if mode == 'on':
        return on_level(k, step)
    if mode == 'below':
        return nextafter(on_level(k, step), False, rng.choice([1, 1, 2, 3]))
    if mode == 'above':
        return nextafter(on_level(k, step), True, rng.choice([1, 1, 2, 3]))
    if mode == 'product':          # what a user would type: k * step, wherever it lands
        return k * step
    return (k + rng.choice([0.5, 0.25, 0.75, rng.random(), rng.random()])) * step


def gen_levels(rng, cls, n):
    """Integer cell of each sample (the shape of the series)."""
    k = rng.randrange(-30, 30)
    ks = [k]
    for i in range(n - 1):
        if cls == 'rising':
            d = rng.choice([0, 1, 1, 2, 3, 7])
        elif cls == 'falling':
            d = -rng.choice([0, 1, 1, 2, 3, 7])
        elif cls == 'flat':
            d = rng.choice([0, 0, 0, 1, -1, 2])
        elif cls == 'zigzag':
            d = rng.choice([1, 2, 3]) * (1 if i % 2 == 0 else -1)
        elif cls == 'tiny':
            d = rng.choice([0, 0, 1, -1])
        elif cls == 'wide':
            d = rng.choice([-40, 25, 60, -15, 33])
        else:
            d = rng.choice([-5, -3, -2, -1, 0, 0, 1, 2, 3, 5])
        k += d
        ks.append(k)
    return ks


def gen_abscissae(rng, xcls, n):
    if xcls == 'index':
        return [float(i) for i in range(n)]
    if xcls == 'epoch':
        t0 = rng.choice([1361318400, 1400000000, 1356998400, 946684800])
        dt = rng.choice([600, 900, 1200, 1800, 3600])
        return [float(t0 + i * dt) for i in range(n)]
    if xcls == 'offset':
        dt = rng.choice([600, 1800, 3600])
        return [float(i * dt) for i in range(n)]
    x, out = rng.choice([0.0, -3.25, 1e6 + 0.1, 12.5]), []
    for _ in range(n):
        out.append(x)
        x = x + rng.choice([0.1, 1.0, 2.5, 1e-3, 37.0, rng.random() + 1e-6])
    return out


def gen_series(rng, cls=None, xcls=None, step=None, nmax=12):
    """One series (x, y) and a step."""
    cls = cls or rng.choice(SERIES_CLASSES)
    xcls = xcls or rng.choice(X_CLASSES)
    if step is None:
        step = rng.choice(STEPS) if rng.random() < 0.85 else rng.choice(EXTRA_STEPS)
    n = 2 if cls == 'twopoint' else rng.randrange(2, 5 if cls == 'wide' else nmax)
    ks = gen_levels(rng, 'nonmono' if cls in ('onlevel', 'ulp', 'twopoint') else cls, n)
    ys = []
    for i, k in enumerate(ks):
        if cls == 'onlevel':
            mode = rng.choice(['on', 'on', 'product', 'in'])
        elif cls == 'ulp':
            mode = rng.choice(['below', 'above', 'on', 'product'])
        elif cls == 'flat' and i and ks[i] == ks[i - 1] and rng.random() < 0.7:
            ys.append(ys[-1])            # exactly equal ordinates
            continue
        elif cls == 'tiny':
            mode = rng.choice(['below', 'above', 'on', 'in'])
        else:
            mode = rng.choice(['in', 'in', 'in', 'on', 'below', 'above', 'product'])
        ys.append(level_value(rng, k, step, mode))
    if cls == 'tiny' and rng.random() < 0.3:
        # denormal neighbourhood of level 0
        j = rng.randrange(n)
        ys[j] = rng.choice([5e-324, -5e-324, 0.0, -0.0, 2.2250738585072014e-308])
    xs = gen_abscissae(rng, xcls, n)
    if cls == 'twopoint':
        xs = [0.0, rng.choice([0.5, 3.75, 12.0, 0.1, 47.3, rng.random() * 30 + 0.01])]
    return dict(cls=cls, xcls=xcls, x=xs, y=ys, step=step)


def gen_malformed(rng):
    kind = rng.choice(['len', 'inf', 'nan', 'empty', 'single', 'single_inf'])
    step = rng.choice(STEPS)
    if kind == 'len':
        n = rng.randrange(0, 5)
        return dict(cls='bad-len', xcls='index', x=[float(i) for i in range(n)],
                    y=[1.0] * (n + rng.choice([1, 2])), step=step)
    if kind in ('inf', 'nan'):
        s = gen_series(rng, 'nonmono', 'index', step)
        s['y'][rng.randrange(len(s['y']))] = rng.choice([math.inf, -math.inf]) if kind == 'inf' else math.nan
        s['cls'] = 'bad-' + kind
        return s
    if kind == 'empty':
        return dict(cls='empty', xcls='index', x=[], y=[], step=step)
    if kind == 'single':
        return dict(cls='single', xcls='index', x=[3.0], y=[rng.choice([0.0, 1.5, -2.0])], step=step)
    return dict(cls='bad-single-inf', xcls='index', x=[3.0], y=[math.inf], step=step)


def gen_series_set(rng, nmax=5):
    """Several series sharing one step, overlapping in level (build_head_mapping)."""
    step = rng.choice(STEPS)
    m = rng.randrange(1, nmax + 1)
    shape = rng.choice(['recessions', 'rises', 'mixed'])
    out = []
    for _ in range(m):
        if shape == 'recessions':
            s = gen_series(rng, rng.choice(['falling', 'falling', 'nonmono', 'flat']),
                           rng.choice(['offset', 'offset', 'epoch']), step, nmax=9)
        elif shape == 'rises':
            s = gen_series(rng, 'twopoint', 'index', step)
        else:
            s = gen_series(rng, None, None, step, nmax=8)
        out.append(s)
    return dict(step=step, shape=shape, series=[dict(x=s['x'], y=s['y']) for s in out])


# ----------------------------------------------------------------- call forms and call histories (C12)

# How the caller hands the samples over.  The property quantifies over "any sampled series": the same numbers held
# as a float64 array, as a view into a larger array, as a read-only array, as integers, as float32, with the abscissae
# in a list (the form used by regrid.py's own example).
CALL_FORMS = ['f64', 'f64', 'f64-view', 'f64-rev', 'f64-col', 'f64-readonly', 'x-list', 'int', 'int32', 'f32']
POW2_STEPS = [1.0, 0.5, 0.25, 2.0, 4.0]
INT_STEPS = [1.0, 2.5, 0.5, 0.3, 0.1, 3.0, 2.0, 7.0, 0.7]
STEP_FORMS = ['float', 'float', 'np.float64', 'int']


def gen_exact_series(rng, kind, step, nmax=9):
    """A series whose numbers survive the narrower type exactly.
    'int': integer ordinates and integer abscissae (indices or UNIX epochs);
    'f32': ordinates that are multiples of step / 8 (step a power of two) of small size and small integer abscissae:
    with any step that is a power of two every quotient and every difference is exact in float32 as well, so float32 arithmetic anywhere
    inside the implementation gives the same real numbers as binary64 (with other steps the float32 quotient is a
    different series from the one the caller holds at 1e-7 relative: recorded by c12.call_probes, not judged)."""
    cls = rng.choice(['rising', 'falling', 'nonmono', 'flat', 'zigzag', 'nonmono'])
    n = rng.randrange(2, nmax)
    ks = gen_levels(rng, cls, n)
    if kind == 'int':
        m = rng.choice([1, 1, 2, 3, 10])
        ys = [float(k * m + rng.choice([0, 0, 0, 1])) for k in ks]
        xs = gen_abscissae(rng, rng.choice(['index', 'epoch', 'offset']), n)
    else:
        ys = []
        for i, k in enumerate(ks):
            if i and k == ks[i - 1] and rng.random() < 0.5:
                ys.append(ys[-1])
            else:
                ys.append((k + rng.choice([0.0, 0.0, 0.5, 0.25, 0.125, 0.875])) * step)
        xs = gen_abscissae(rng, rng.choice(['index', 'offset']), n)
    return dict(cls=cls + '-' + kind, x=xs, y=ys)


def gen_call_history(rng, fn=None, form=None):
    """One set of arrays and a sequence of calls made with those same arrays: regrid on one of the series and / or
    build_head_mapping on all of them, one to three calls, with the same and with a different grid step.
    -> dict(form, series=[{x, y}], calls=[{fn, i, step, stepform}])."""
    fn = fn or rng.choice(['regrid', 'regrid', 'mapping', 'mixed'])
    form = form or rng.choice(CALL_FORMS)
    if form == 'f32':
        pool = POW2_STEPS
    elif form in ('int', 'int32'):
        pool = INT_STEPS
    else:
        pool = STEPS + STEPS + EXTRA_STEPS
    s1 = rng.choice(pool)
    # the other step within a factor 5 (a series laid out on a 10 mm grid crosses 600 000 levels of a 0.001 mm grid)
    s2 = rng.choice([s for s in pool if s != s1 and 0.2 <= s / s1 <= 5.0] or [s1 * 2.0, s1 * 0.5])
    nser = 1 if fn == 'regrid' else rng.randrange(1, 5)
    series = []
    for _ in range(nser):
        if form == 'f32':
            s = gen_exact_series(rng, 'f32', min(s1, s2))
        elif form in ('int', 'int32'):
            s = gen_exact_series(rng, 'int', None)
            if form == 'int32':
                s['x'] = [float(i) for i in range(len(s['x']))] if max(s['x']) >= 2 ** 31 else s['x']
        else:
            cls = rng.choice(['rising', 'falling', 'nonmono', 'flat', 'onlevel', 'ulp', 'zigzag', 'twopoint', 'wide'])
            s = gen_series(rng, cls, None, rng.choice([s1, s2]), nmax=9)
        series.append(dict(x=s['x'], y=s['y']))
    pattern = rng.choice([[s1, s1], [s1, s2], [s1, s2, s1], [s1], [s1, s1, s2]])
    calls = []
    for j, st in enumerate(pattern):
        f = fn if fn != 'mixed' else rng.choice(['regrid', 'mapping'])
        stepform = rng.choice(STEP_FORMS)
        if stepform == 'int' and st != math.floor(st):
            stepform = 'float'
        calls.append(dict(fn=f, i=rng.randrange(nser) if f == 'regrid' else None, step=st, stepform=stepform))
    return dict(form=form, series=series, calls=calls)


# ----------------------------------------------------------------- datasets (C13)

DS_CLASSES = ['decay', 'decay', 'split', 'storms', 'sparse', 'bounds']
GRID_STEPS = [1.0, 0.5, 2.5, 0.1, 0.3, 5.0, 2.0]


ODD_TIME_STEPS = [90, 100, 450, 3900, 30, 45, 1000, 7, 5400]


def gen_curve_record(rng, cls=None, odd_steps=False, open_in_storm=False, t0=None):
    """A record (same shape as harness.gen_classify records) with several storms,
    each followed by a decaying recession that comes back to about the same
    level, so that rises and recessions overlap in level.  Thresholds are chosen
    so that storms are matched to rises.
    odd_steps: the time step is drawn from ODD_TIME_STEPS (or is the given number of seconds; not a whole number of minutes: 90, 100, 450, 30, 45, 7 s;
    not a whole number of hours: 3900, 5400 s; not a divisor of an hour: 1000 s) instead of 1200 / 1800 / 3600 s.
    open_in_storm: no dry stretch at the head of the record: the first rainfall time slice of the database is the
    first slice of a matched storm and the water level rises from its very first sample.
    t0: the epoch of the first sample (rounded down to a multiple of the step) instead of one of 2013 / 2000: with
    odd_steps=1 or 2 and 1.6e9 <= t0 <= 4e9 the record is 1 s / 2 s logging at present-day (and post-2038) epochs,
    where neighbouring epochs differ by less than 1e-9 relative.
    All options are off by default and draw nothing from `rng` when off."""
    cls = cls or rng.choice(DS_CLASSES)
    step = rng.choice([1800, 3600, 1200])
    if odd_steps is True:
        step = rng.choice(ODD_TIME_STEPS)
    elif odd_steps:
        step = int(odd_steps)             # the caller names the step
    thr_s = rng.choice([2.0, 4.0, 1.0])
    thr_j = rng.choice([2.0, 4.0, 5.0])
    step_h = step / 3600.0
    delta = thr_j * step_h
    grid = rng.choice(GRID_STEPS)
    nstorm = rng.randrange(1, 3) if cls == 'sparse' else rng.randrange(2, 6)
    base = rng.choice([-300.0, -120.5, -40.0, 10.0, -75.25])
    rain, zeta = [], [base]
    # leading dry stretch (not a recession: no rain seen yet)
    for _ in range(0 if open_in_storm else rng.randrange(1, 3)):
        rain.append(0.0)
        zeta.append(zeta[-1] - rng.choice([0.0, 0.25, 0.5]))
    for _ in range(nstorm):
        if cls == 'split' and rng.random() < 0.5:
            # the record moves to a distant level during a dry spell with a gap-free but
            # unexplained drop: later intervals share no level with the earlier ones
            base = base + rng.choice([-400.0, 350.0, -90.0])
            rain.append(0.0)
            zeta.append(base)
        ls = rng.randrange(1, 4)
        top_gain = rng.choice([8.0, 12.5, 20.0, 6.25, 15.0]) * max(1.0, grid)
        for k in range(ls):
            rain.append(thr_s + rng.choice([0.5, 1.0, 2.5, 6.0]))
            zeta.append(zeta[-1] + max(top_gain / ls, nextafter(delta) + 0.5))
        # a light-rain step closes the storm cleanly (the rise that ends at a rain-free sample
        # would otherwise count as unexplained and suppress the recession that follows)
        if rng.random() < 0.9:
            rain.append(rng.choice([thr_s / 2, 0.1, thr_s]))
            zeta.append(zeta[-1] - rng.choice([0.0, 0.125, 0.5]))
        # recession: exponential-like decay back towards base, slower and slower
        lr = rng.randrange(3, 9) if cls != 'sparse' else rng.randrange(1, 4)
        top = zeta[-1]
        target = base + rng.choice([-2.0, 0.0, 1.5, -0.5]) * max(1.0, grid)
        for k in range(lr):
            rain.append(0.0)
            nxt = target + (top - target) * (0.55 ** (k + 1))
            if cls == 'storms' and rng.random() < 0.15:
                nxt = zeta[-1] + nextafter(delta) + 0.25     # dry unexplained rise
            zeta.append(round(nxt * 8) / 8 if rng.random() < 0.6 else nxt)
    zeta = zeta[:len(rain)]
    if cls == 'bounds':
        # make min / max of the record sit exactly on a grid level or one ulp beside it
        lo, hi = min(zeta), max(zeta)
        klo, khi = math.floor(lo / grid), math.ceil(hi / grid)
        mode_lo, mode_hi = rng.choice(['on', 'below', 'above']), rng.choice(['on', 'below', 'above'])
        ilo, ihi = zeta.index(lo), zeta.index(hi)
        zeta[ilo] = level_value(rng, klo, grid, mode_lo)
        zeta[ihi] = level_value(rng, khi, grid, mode_hi)
    missing = []
    if rng.random() < 0.15 and len(rain) > 8:
        a = rng.randrange(2, len(rain) - 3)
        missing = [a]
    t0 = (rng.choice([1361318400, 1356998400, 946684800]) if t0 is None else int(t0)) // step * step
    rec = dict(cls=cls, step=step, thr_s=thr_s, thr_j=thr_j, t0=t0, rain=rain, zeta=zeta,
               missing=missing, lead=rng.randrange(0, 2), trail=rng.randrange(1, 3), grid=grid)
    if odd_steps:
        rec['cls'] += ':step-%d' % step
    if open_in_storm:
        rec['cls'] += ':opens-in-storm'
    return rec


# ----------------------------------------------------------------- steep pairs, long series, large grids (C12 / C13)
# Everything below draws only from the generator it is handed: the callers use their own streams
# (C.rng_for(seed, PROP, '<tag>')), so the streams above are what they were.

# Round numbers at which software cuts its work into blocks (samples per block, levels per batch, rows per query).
BLOCK_SIZES = [1000, 1024, 2048, 4096, 8192]
STEEP_COUNTS = [100, 137, 255, 256, 257, 300, 511, 512, 513, 700, 1000, 1023, 1024, 1025, 1500, 2048, 2049, 3000,
                4096, 4097, 5000]


def gen_steep_series(rng, direction, nlev=None, step=None):
    """A short series (2-5 samples) in which ONE pair of consecutive samples crosses nlev multiples of the step
    (100-5000: a drawdown of 1.4 m within an hourly sample at 1 mm, 9 mm within a minute at 0.01 mm), rising or
    falling as the caller says; the other pairs are ordinary.  The ends of the steep pair are inside a cell, on a
    level, or one ulp beside it."""
    step = step or rng.choice(STEPS + [0.01, 1e-3, 10.0])
    nlev = nlev or rng.choice(STEEP_COUNTS)
    n = rng.choice([2, 2, 3, 4, 5])
    j = rng.randrange(n - 1)                   # the steep pair is (j, j + 1)
    k = rng.randrange(-3000, 3000)
    ks = [k]
    for i in range(n - 1):
        if i == j:
            k += nlev if direction == 'rising' else -nlev
        else:
            k += rng.choice([-3, -1, 0, 1, 2, 5])
        ks.append(k)
    ys = []
    for i, kk in enumerate(ks):
        mode = rng.choice(['in', 'in', 'on', 'below', 'above']) if i in (j, j + 1) else 'in'
        ys.append(level_value(rng, kk, step, mode))
    xcls = rng.choice(['index', 'epoch', 'offset', 'minute'])
    if xcls == 'minute':
        t0 = rng.choice([1700000000, 1361318400])
        xs = [float(t0 + 60 * i) for i in range(n)]
    else:
        xs = gen_abscissae(rng, xcls, n)
    return dict(cls='steep-%s' % direction, xcls='epoch' if xcls == 'minute' else xcls, x=xs, y=ys, step=step,
                nlev=nlev)


LONG_SHAPES = ['zigzag-drift', 'recession', 'zigzag', 'staircase']


def seam_indices(n, blocks=None):
    """Indices p (1 <= p < n) such that samples p - 1 and p fall into different blocks for one of the block sizes."""
    return sorted({p for b in (blocks or BLOCK_SIZES) for p in range(b, n, b)})


def gen_long_levels(rng, shape, n):
    """Cell of each of n samples.  Whatever the shape, the pair of samples (p - 1, p) at EVERY seam p of
    seam_indices(n) crosses at least one level, and for the shapes 'recession' and 'staircase' the levels crossed
    there are crossed nowhere else (monotone record: a crossing that is lost is a level that is lost)."""
    seams = set(seam_indices(n))
    k = rng.randrange(-400, 400)
    ks = [k]
    for i in range(1, n):
        if shape == 'zigzag-drift':          # saw-tooth of 1-3 cells on a slow decline: a level is crossed 5-30 times
            d = rng.choice([1, 2, 3]) if i % 2 else -rng.choice([1, 2, 3])
            if i % 8 == 0:
                d -= 1
        elif shape == 'zigzag':              # saw-tooth about one level: a few levels, each crossed thousands of times
            d = rng.choice([1, 2]) if ks[-1] <= k else -rng.choice([1, 2])
        elif shape == 'recession':           # slow monotone fall: most pairs lie inside one cell
            d = -1 if rng.random() < 0.12 else 0
        else:                                # staircase up: long flats, steps of 1-4 cells
            d = rng.choice([1, 1, 2, 4]) if rng.random() < 0.08 else 0
        if i in seams and d == 0:
            d = -1 if shape == 'recession' else 1
        ks.append(ks[-1] + d)
    return ks


def gen_long_series(rng, n, shape=None, step=None, xcls=None):
    """One series of n samples (meant: 1500 <= n <= 10000, not a multiple of a block size) with level crossings IN
    the pairs of samples that straddle a block boundary for the block sizes 1000, 1024, 2048, 4096, 8192."""
    shape = shape or rng.choice(LONG_SHAPES)
    step = step or rng.choice(STEPS)
    ks = gen_long_levels(rng, shape, n)
    seams = set(seam_indices(n))
    ys = []
    for i, kk in enumerate(ks):
        if i and kk == ks[i - 1] and rng.random() < 0.5:
            ys.append(ys[-1])                    # exactly flat pair
            continue
        near_seam = i in seams or i + 1 in seams
        mode = rng.choice(['in', 'in', 'on', 'below', 'above']) if near_seam else rng.choice(['in', 'in', 'in', 'on'])
        if shape in ('recession', 'staircase') and mode != 'in':
            mode = 'in'                          # keep the record monotone (an ulp below a level is in the cell below)
        ys.append(level_value(rng, kk, step, mode))
    if shape in ('recession', 'staircase'):
        # inside one cell the draws are not ordered: sort each run of samples that share a cell
        i = 0
        while i < n:
            j = i
            while j + 1 < n and ks[j + 1] == ks[i]:
                j += 1
            ys[i:j + 1] = sorted(ys[i:j + 1], reverse=(shape == 'recession'))
            i = j + 1
    xcls = xcls or rng.choice(['epoch', 'offset', 'index'])
    if xcls == 'epoch':
        t0 = rng.choice([1361318400, 1700000000, 1425170400])
        xs = [float(t0 + 600 * i) for i in range(n)]
    elif xcls == 'offset':
        xs = [float(600 * i) for i in range(n)]
    else:
        xs = [float(i) for i in range(n)]
    return dict(cls='long-%s' % shape, xcls=xcls, x=xs, y=ys, step=step, n=n)


def long_sizes(rng, tier='quick'):
    """Sizes of the long series of one run: one past 4096 (and, one run in two, past 8192), one between 1500 and 4500;
    thorough: more.  Never a multiple of a block size; one size in four is a block size + 1 (a last block of one
    sample)."""
    def pick(lo, hi):
        if rng.random() < 0.25:
            c = [b + 1 for b in BLOCK_SIZES if lo <= b + 1 <= hi]
            if c:
                return rng.choice(c)
        while True:
            n = rng.randrange(lo, hi + 1)
            if all(n % b for b in BLOCK_SIZES):
                return n
    sizes = [pick(8193, 10000) if rng.random() < 0.5 else pick(4097, 8191), pick(1500, 4500)]
    if tier != 'quick':
        sizes += [pick(8193, 10000), pick(4097, 8191), pick(2049, 4095), pick(1500, 2047), pick(4097, 10000)]
    return sizes


# large grids: more levels than fit into the round numbers a batch is cut at
LARGE_GRID_COUNTS = [10001, 10050, 12503, 16385, 20001, 32769, 65537]


def gen_large_grid_case(rng, kind=None):
    """Water levels and a grid step for populate_zeta_grid whose grid is far from the usual few hundred levels:
    'fine'   a fine step on an ordinary range (0.02 mm over 250 mm): > 10000 levels;
    'deep'   an ordinary step on a record spanning > 10 m: > 10000 levels;
    'coarse' a step larger than the whole range (the grid has no level, or one)."""
    kind = kind or rng.choice(['fine', 'deep', 'coarse'])
    if kind == 'coarse':
        step = rng.choice([1000.0, 500.0, 250.0, 1e4])
        k = rng.randrange(-2, 2)
        zs = [level_value(rng, k, step, rng.choice(['in', 'on', 'below', 'above'])),
              level_value(rng, k + rng.choice([0, 0, 1]), step, rng.choice(['in', 'on', 'below', 'above']))]
    else:
        count = rng.choice(LARGE_GRID_COUNTS) + rng.choice([0, 0, 1, 7, 250])
        step = rng.choice([0.02, 0.05, 0.01, 1e-3]) if kind == 'fine' else rng.choice([1.0, 0.5, 2.5])
        top = rng.choice([-100.5, 10.0, -0.25, 250.0]) if kind == 'fine' else rng.choice([150.0, -20.0, 0.0])
        khi = math.ceil(top / step)
        klo = khi - count
        zs = [level_value(rng, klo, step, rng.choice(['in', 'on', 'above'])),
              level_value(rng, khi, step, rng.choice(['on', 'below'])),
              level_value(rng, rng.randrange(klo + 1, khi), step, 'in')]
    rng.shuffle(zs)
    return dict(zetas=zs, step=step, kind='large-grid-' + kind)


def gen_long_recession_record(rng, nlong, grid=None):
    """A record for the command line with 10-minute samples: two ordinary storms with short steep recessions, then a
    storm followed by ONE interstorm interval of about nlong samples (> 1024: longer than a week; > 4096: a month): a
    slow decline carrying a saw-tooth of more than one grid step per sample, so that EVERY pair of consecutive samples
    of the interval crosses a level (in particular the pairs straddling sample 1000, 1024, 2048, 4096 of the interval,
    wherever classification puts its first sample) and every level is crossed about 10 times; the saw-tooth's rises
    stay under the jump threshold.  The short recessions fall through the same range of levels as the long one (the
    master curve keeps only levels shared by two intervals), so the long interval has a stored crossing value along
    its whole length.  Same shape of dict as gen_curve_record."""
    step = 600
    thr_s, thr_j = rng.choice([2.0, 4.0]), 5.0
    delta = thr_j * step / 3600.0                       # 0.833 mm per sample
    grid = grid or rng.choice([0.25, 0.5, 0.3])
    up = min(1.3 * grid, 0.9 * delta)
    base = rng.choice([-300.0, -120.5, -40.0, -75.25])
    rain, zeta = [0.0], [base, base - 0.25]
    gain = rng.choice([40.0, 60.0, 85.0])
    floor = base - 22.0
    for storm in range(3):
        ls = rng.randrange(2, 5)
        peak = base + gain + rng.choice([0.0, 1.5, 3.25])
        rise = (peak - zeta[-1]) / ls
        for _ in range(ls):
            rain.append(thr_s + rng.choice([0.5, 1.0, 2.5, 6.0]))
            zeta.append(zeta[-1] + rise)
        rain.append(thr_s / 2)
        zeta.append(zeta[-1] - 0.125)
        if storm < 2:
            top = zeta[-1]
            for k in range(rng.randrange(9, 14)):
                rain.append(0.0)
                zeta.append(floor + (top - floor) * 0.6 ** (k + 1))
        else:
            drift = (zeta[-1] - floor - 2.0) / nlong        # ends about 2 mm above the foot of the short recessions
            for k in range(nlong):
                rain.append(0.0)
                f = rng.choice([0.9, 1.0, 0.95])
                zeta.append(zeta[-1] + (up * f if k % 2 else -up * f - 2 * drift))
    zeta = zeta[:len(rain)]
    t0 = rng.choice([1425170400, 1361318400, 1700000000]) // step * step
    return dict(cls='long-recession:%d' % (1024 if nlong < 4096 else 4096), step=step, thr_s=thr_s, thr_j=thr_j, t0=t0,
                rain=rain, zeta=zeta, missing=[], lead=1, trail=1, grid=grid, oracle_only=True)


def gen_large_grid_record(rng, kind):
    """A record for the command line whose water-level grid needs more than 10000 levels:
    'fine': an ordinary record (gen_curve_record, class decay) with a grid step of two significant digits (0.0023 mm)
            chosen so that range / step is about 10400, 11000 or 12500;
    'deep': a grid step of 1 or 0.5 mm and a record whose level falls by more than 10 m (10500-12000 steps) between two
            samples of a dry spell (the logger was moved / the pond drained): one recession crosses every level, the
            storms before it sit at the top of the grid, those after it at the bottom."""
    rec = gen_curve_record(rng, 'decay')
    for _ in range(6):
        if len(rec['rain']) <= 24:       # two or three storms: every interval crosses most of the > 10000 levels
            break
        rec = gen_curve_record(rng, 'decay')
    z = rec['zeta']
    if kind == 'fine':
        span = max(z) - min(z)
        rec['grid'] = float('%.2g' % (span / rng.choice([10400, 11000, 12500])))
    else:
        rec['grid'] = rng.choice([1.0, 0.5])
        dry = [i for i in range(2, len(rec['rain'])) if rec['rain'][i] == 0.0 and rec['rain'][i - 1] == 0.0
               and any(rec['rain'][:i])]
        i = rng.choice(dry)
        drop = rec['grid'] * rng.choice([10500, 10001.5, 12000.25])
        rec['zeta'] = z[:i] + [v - drop for v in z[i:]]
    rec['missing'] = []
    rec['cls'] = 'large-grid-%s' % kind
    rec['oracle_only'] = True
    return rec
