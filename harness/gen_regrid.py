"""Generators for C12 / C13: sampled series aimed at the branch structure of
regrid (ceilings of the scaled ordinates, direction of each pair, samples on a
grid level and one ulp beside it, flat pairs, large abscissae), and synthetic
datasets whose recessions revisit the same levels after each storm so that the
master curves have several overlapping intervals."""
import math

from harness.dataset import Dataset

STEPS = [1.0, 0.5, 0.1, 0.3, 2.5]
EXTRA_STEPS = [0.7, 10.0, 0.25, 1e-3, 3.0]
SERIES_CLASSES = ['rising', 'falling', 'nonmono', 'flat', 'onlevel', 'ulp', 'tiny', 'zigzag',
                  'twopoint', 'wide']
X_CLASSES = ['index', 'epoch', 'offset', 'irregular']


def nextafter(x, up=True, n=1):
    """n representable numbers above / below x.  Beside 0 the neighbours are the denormals 5e-324 ...: the
    difference quotient of two such ordinates underflows to 0 inside scipy's interpolant (the chord degenerates to a
    step), which is a limit of binary64, not of spowtd; the claimed domain of C12 / C13 is ordinates that are 0 or
    normal numbers, so the neighbours of 0 are taken at the scale 1e-300."""
    if x == 0.0:
        return (1 if up else -1) * n * 1e-300
    for _ in range(n):
        x = math.nextafter(x, math.inf if up else -math.inf)
    return x


def on_level(k, step):
    """A float y whose binary64 quotient y / step is exactly the integer k, if
    one is found next to k * step (there is one for every k tried in practice);
    otherwise k * step."""
    y = k * step
    for cand in (y, nextafter(y), nextafter(y, False), nextafter(y, True, 2), nextafter(y, False, 2)):
        if cand / step == float(k):
            return cand
    return y


def level_value(rng, k, step, mode):
    """Ordinate near level k: exactly on it, one ulp beside, or strictly inside
    the cell [k, k+1)."""
    if mode == 'on':
        return on_level(k, step)
    if mode == 'below':
        return nextafter(on_level(k, step), False, rng.choice([1, 1, 2, 3]))
    if mode == 'above':
        return nextafter(on_level(k, step), True, rng.choice([1, 1, 2, 3]))
    if mode == 'product':          # what a user would type: k * step, wherever it lands
        return k * step
    return (k + rng.choice([0.5, 0.25, 0.75, rng.random(), rng.random()])) * step


def gen_levels(rng, cls, n):
    """Integer cell of each sample (the shape of the series)."""
    k = rng.randrange(-30, 30)
    ks = [k]
    for i in range(n - 1):
        if cls == 'rising':
            d = rng.choice([0, 1, 1, 2, 3, 7])
        elif cls == 'falling':
            d = -rng.choice([0, 1, 1, 2, 3, 7])
        elif cls == 'flat':
            d = rng.choice([0, 0, 0, 1, -1, 2])
        elif cls == 'zigzag':
            d = rng.choice([1, 2, 3]) * (1 if i % 2 == 0 else -1)
        elif cls == 'tiny':
            d = rng.choice([0, 0, 1, -1])
        elif cls == 'wide':
            d = rng.choice([-40, 25, 60, -15, 33])
        else:
            d = rng.choice([-5, -3, -2, -1, 0, 0, 1, 2, 3, 5])
        k += d
        ks.append(k)
    return ks


def gen_abscissae(rng, xcls, n):
    if xcls == 'index':
        return [float(i) for i in range(n)]
    if xcls == 'epoch':
        t0 = rng.choice([1361318400, 1400000000, 1356998400, 946684800])
        dt = rng.choice([600, 900, 1200, 1800, 3600])
        return [float(t0 + i * dt) for i in range(n)]
    if xcls == 'offset':
        dt = rng.choice([600, 1800, 3600])
        return [float(i * dt) for i in range(n)]
    x, out = rng.choice([0.0, -3.25, 1e6 + 0.1, 12.5]), []
    for _ in range(n):
        out.append(x)
        x = x + rng.choice([0.1, 1.0, 2.5, 1e-3, 37.0, rng.random() + 1e-6])
    return out


def gen_series(rng, cls=None, xcls=None, step=None, nmax=12):
    """One series (x, y) and a step."""
    cls = cls or rng.choice(SERIES_CLASSES)
    xcls = xcls or rng.choice(X_CLASSES)
    if step is None:
        step = rng.choice(STEPS) if rng.random() < 0.85 else rng.choice(EXTRA_STEPS)
    n = 2 if cls == 'twopoint' else rng.randrange(2, 5 if cls == 'wide' else nmax)
    ks = gen_levels(rng, 'nonmono' if cls in ('onlevel', 'ulp', 'twopoint') else cls, n)
    ys = []
    for i, k in enumerate(ks):
        if cls == 'onlevel':
            mode = rng.choice(['on', 'on', 'product', 'in'])
        elif cls == 'ulp':
            mode = rng.choice(['below', 'above', 'on', 'product'])
        elif cls == 'flat' and i and ks[i] == ks[i - 1] and rng.random() < 0.7:
            ys.append(ys[-1])            # exactly equal ordinates
            continue
        elif cls == 'tiny':
            mode = rng.choice(['below', 'above', 'on', 'in'])
        else:
            mode = rng.choice(['in', 'in', 'in', 'on', 'below', 'above', 'product'])
        ys.append(level_value(rng, k, step, mode))
    if cls == 'tiny' and rng.random() < 0.3:
        # denormal neighbourhood of level 0
        j = rng.randrange(n)
        ys[j] = rng.choice([5e-324, -5e-324, 0.0, -0.0, 2.2250738585072014e-308])
    xs = gen_abscissae(rng, xcls, n)
    if cls == 'twopoint':
        xs = [0.0, rng.choice([0.5, 3.75, 12.0, 0.1, 47.3, rng.random() * 30 + 0.01])]
    return dict(cls=cls, xcls=xcls, x=xs, y=ys, step=step)


def gen_malformed(rng):
    kind = rng.choice(['len', 'inf', 'nan', 'empty', 'single', 'single_inf'])
    step = rng.choice(STEPS)
    if kind == 'len':
        n = rng.randrange(0, 5)
        return dict(cls='bad-len', xcls='index', x=[float(i) for i in range(n)],
                    y=[1.0] * (n + rng.choice([1, 2])), step=step)
    if kind in ('inf', 'nan'):
        s = gen_series(rng, 'nonmono', 'index', step)
        s['y'][rng.randrange(len(s['y']))] = rng.choice([math.inf, -math.inf]) if kind == 'inf' else math.nan
        s['cls'] = 'bad-' + kind
        return s
    if kind == 'empty':
        return dict(cls='empty', xcls='index', x=[], y=[], step=step)
    if kind == 'single':
        return dict(cls='single', xcls='index', x=[3.0], y=[rng.choice([0.0, 1.5, -2.0])], step=step)
    return dict(cls='bad-single-inf', xcls='index', x=[3.0], y=[math.inf], step=step)


def gen_series_set(rng, nmax=5):
    """Several series sharing one step, overlapping in level (build_head_mapping)."""
    step = rng.choice(STEPS)
    m = rng.randrange(1, nmax + 1)
    shape = rng.choice(['recessions', 'rises', 'mixed'])
    out = []
    for _ in range(m):
        if shape == 'recessions':
            s = gen_series(rng, rng.choice(['falling', 'falling', 'nonmono', 'flat']),
                           rng.choice(['offset', 'offset', 'epoch']), step, nmax=9)
        elif shape == 'rises':
            s = gen_series(rng, 'twopoint', 'index', step)
        else:
            s = gen_series(rng, None, None, step, nmax=8)
        out.append(s)
    return dict(step=step, shape=shape, series=[dict(x=s['x'], y=s['y']) for s in out])


# ----------------------------------------------------------------- call forms and call histories (C12)

# How the caller hands the samples over.  The property quantifies over "any sampled series": the same numbers held
# as a float64 array, as a view into a larger array, as a read-only array, as integers, as float32, with the abscissae
# in a list (the form used by regrid.py's own example).
CALL_FORMS = ['f64', 'f64', 'f64-view', 'f64-rev', 'f64-col', 'f64-readonly', 'x-list', 'int', 'int32', 'f32']
POW2_STEPS = [1.0, 0.5, 0.25, 2.0, 4.0]
INT_STEPS = [1.0, 2.5, 0.5, 0.3, 0.1, 3.0, 2.0, 7.0, 0.7]
STEP_FORMS = ['float', 'float', 'np.float64', 'int']


def gen_exact_series(rng, kind, step, nmax=9):
    """A series whose numbers survive the narrower type exactly.
    'int': integer ordinates and integer abscissae (indices or UNIX epochs);
    'f32': ordinates that are multiples of step / 8 (step a power of two) of small size and small integer abscissae:
    with any step that is a power of two every quotient and every difference is exact in float32 as well, so float32 arithmetic anywhere
    inside the implementation gives the same real numbers as binary64 (with other steps the float32 quotient is a
    different series from the one the caller holds at 1e-7 relative: recorded by c12.call_probes, not judged)."""
    cls = rng.choice(['rising', 'falling', 'nonmono', 'flat', 'zigzag', 'nonmono'])
    n = rng.randrange(2, nmax)
    ks = gen_levels(rng, cls, n)
    if kind == 'int':
        m = rng.choice([1, 1, 2, 3, 10])
        ys = [float(k * m + rng.choice([0, 0, 0, 1])) for k in ks]
        xs = gen_abscissae(rng, rng.choice(['index', 'epoch', 'offset']), n)
    else:
        ys = []
        for i, k in enumerate(ks):
            if i and k == ks[i - 1] and rng.random() < 0.5:
                ys.append(ys[-1])
            else:
                ys.append((k + rng.choice([0.0, 0.0, 0.5, 0.25, 0.125, 0.875])) * step)
        xs = gen_abscissae(rng, rng.choice(['index', 'offset']), n)
    return dict(cls=cls + '-' + kind, x=xs, y=ys)


def gen_call_history(rng, fn=None, form=None):
    """One set of arrays and a sequence of calls made with those same arrays: regrid on one of the series and / or
    build_head_mapping on all of them, one to three calls, with the same and with a different grid step.
    -> dict(form, series=[{x, y}], calls=[{fn, i, step, stepform}])."""
    fn = fn or rng.choice(['regrid', 'regrid', 'mapping', 'mixed'])
    form = form or rng.choice(CALL_FORMS)
    if form == 'f32':
        pool = POW2_STEPS
    elif form in ('int', 'int32'):
        pool = INT_STEPS
    else:
        pool = STEPS + STEPS + EXTRA_STEPS
    s1 = rng.choice(pool)
    # the other step within a factor 5 (a series laid out on a 10 mm grid crosses 600 000 levels of a 0.001 mm grid)
    s2 = rng.choice([s for s in pool if s != s1 and 0.2 <= s / s1 <= 5.0] or [s1 * 2.0, s1 * 0.5])
    nser = 1 if fn == 'regrid' else rng.randrange(1, 5)
    series = []
    for _ in range(nser):
        if form == 'f32':
            s = gen_exact_series(rng, 'f32', min(s1, s2))
        elif form in ('int', 'int32'):
            s = gen_exact_series(rng, 'int', None)
            if form == 'int32':
                s['x'] = [float(i) for i in range(len(s['x']))] if max(s['x']) >= 2 ** 31 else s['x']
        else:
            cls = rng.choice(['rising', 'falling', 'nonmono', 'flat', 'onlevel', 'ulp', 'zigzag', 'twopoint', 'wide'])
            s = gen_series(rng, cls, None, rng.choice([s1, s2]), nmax=9)
        series.append(dict(x=s['x'], y=s['y']))
    pattern = rng.choice([[s1, s1], [s1, s2], [s1, s2, s1], [s1], [s1, s1, s2]])
    calls = []
    for j, st in enumerate(pattern):
        f = fn if fn != 'mixed' else rng.choice(['regrid', 'mapping'])
        stepform = rng.choice(STEP_FORMS)
        if stepform == 'int' and st != math.floor(st):
            stepform = 'float'
        calls.append(dict(fn=f, i=rng.randrange(nser) if f == 'regrid' else None, step=st, stepform=stepform))
    return dict(form=form, series=series, calls=calls)


# ----------------------------------------------------------------- datasets (C13)

DS_CLASSES = ['decay', 'decay', 'split', 'storms', 'sparse', 'bounds']
GRID_STEPS = [1.0, 0.5, 2.5, 0.1, 0.3, 5.0, 2.0]


ODD_TIME_STEPS = [90, 100, 450, 3900, 30, 45, 1000, 7, 5400]


def gen_curve_record(rng, cls=None, odd_steps=False, open_in_storm=False):
    """A record (same shape as harness.gen_classify records) with several storms,
    each followed by a decaying recession that comes back to about the same
    level, so that rises and recessions overlap in level.  Thresholds are chosen
    so that storms are matched to rises.
    odd_steps: the time step is drawn from ODD_TIME_STEPS (or is the given number of seconds; not a whole number of minutes: 90, 100, 450, 30, 45, 7 s;
    not a whole number of hours: 3900, 5400 s; not a divisor of an hour: 1000 s) instead of 1200 / 1800 / 3600 s.
    open_in_storm: no dry stretch at the head of the record: the first rainfall time slice of the database is the
    first slice of a matched storm and the water level rises from its very first sample.
    Both options are off by default and draw nothing from `rng` when off."""
    cls = cls or rng.choice(DS_CLASSES)
    step = rng.choice([1800, 3600, 1200])
    if odd_steps is True:
        step = rng.choice(ODD_TIME_STEPS)
    elif odd_steps:
        step = int(odd_steps)             # the caller names the step
    thr_s = rng.choice([2.0, 4.0, 1.0])
    thr_j = rng.choice([2.0, 4.0, 5.0])
    step_h = step / 3600.0
    delta = thr_j * step_h
    grid = rng.choice(GRID_STEPS)
    nstorm = rng.randrange(1, 3) if cls == 'sparse' else rng.randrange(2, 6)
    base = rng.choice([-300.0, -120.5, -40.0, 10.0, -75.25])
    rain, zeta = [], [base]
    # leading dry stretch (not a recession: no rain seen yet)
    for _ in range(0 if open_in_storm else rng.randrange(1, 3)):
        rain.append(0.0)
        zeta.append(zeta[-1] - rng.choice([0.0, 0.25, 0.5]))
    for _ in range(nstorm):
        if cls == 'split' and rng.random() < 0.5:
            # the record moves to a distant level during a dry spell with a gap-free but
            # unexplained drop: later intervals share no level with the earlier ones
            base = base + rng.choice([-400.0, 350.0, -90.0])
            rain.append(0.0)
            zeta.append(base)
        ls = rng.randrange(1, 4)
        top_gain = rng.choice([8.0, 12.5, 20.0, 6.25, 15.0]) * max(1.0, grid)
        for k in range(ls):
            rain.append(thr_s + rng.choice([0.5, 1.0, 2.5, 6.0]))
            zeta.append(zeta[-1] + max(top_gain / ls, nextafter(delta) + 0.5))
        # a light-rain step closes the storm cleanly (the rise that ends at a rain-free sample
        # would otherwise count as unexplained and suppress the recession that follows)
        if rng.random() < 0.9:
            rain.append(rng.choice([thr_s / 2, 0.1, thr_s]))
            zeta.append(zeta[-1] - rng.choice([0.0, 0.125, 0.5]))
        # recession: exponential-like decay back towards base, slower and slower
        lr = rng.randrange(3, 9) if cls != 'sparse' else rng.randrange(1, 4)
        top = zeta[-1]
        target = base + rng.choice([-2.0, 0.0, 1.5, -0.5]) * max(1.0, grid)
        for k in range(lr):
            rain.append(0.0)
            nxt = target + (top - target) * (0.55 ** (k + 1))
            if cls == 'storms' and rng.random() < 0.15:
                nxt = zeta[-1] + nextafter(delta) + 0.25     # dry unexplained rise
            zeta.append(round(nxt * 8) / 8 if rng.random() < 0.6 else nxt)
    zeta = zeta[:len(rain)]
    if cls == 'bounds':
        # make min / max of the record sit exactly on a grid level or one ulp beside it
        lo, hi = min(zeta), max(zeta)
        klo, khi = math.floor(lo / grid), math.ceil(hi / grid)
        mode_lo, mode_hi = rng.choice(['on', 'below', 'above']), rng.choice(['on', 'below', 'above'])
        ilo, ihi = zeta.index(lo), zeta.index(hi)
        zeta[ilo] = level_value(rng, klo, grid, mode_lo)
        zeta[ihi] = level_value(rng, khi, grid, mode_hi)
    missing = []
    if rng.random() < 0.15 and len(rain) > 8:
        a = rng.randrange(2, len(rain) - 3)
        missing = [a]
    t0 = rng.choice([1361318400, 1356998400, 946684800]) // step * step
    rec = dict(cls=cls, step=step, thr_s=thr_s, thr_j=thr_j, t0=t0, rain=rain, zeta=zeta,
               missing=missing, lead=rng.randrange(0, 2), trail=rng.randrange(1, 3), grid=grid)
    if odd_steps:
        rec['cls'] += ':step-%d' % step
    if open_in_storm:
        rec['cls'] += ':opens-in-storm'
    return rec
