"""Generators of rainfall / water-level records aimed at the branch structure of
classification: threshold-equal values, runs touching the ends of a stretch,
rises spanning several bursts, bursts spanning several rises, chains that force
displacement in the matching, gaps (including one-sample stretches)."""
import math

from harness.dataset import Dataset

STEPS = [600, 900, 1200, 1800, 3600, 90, 3900, 100, 460]   # incl. not whole minutes / hours not exact in binary
THRS = [0.5, 1.0, 2.0, 4.0, 5.0, 8.0, 0.3, 2.5]

CLASSES = ['events', 'random', 'chain', 'edges', 'allrain', 'norain', 'threshold', 'gappy',
           'long_rise', 'long_storm', 'contested']


def nextafter(x, up=True):
    return math.nextafter(x, math.inf if up else -math.inf)


def rain_value(rng, thr_s, kind):
    if kind == 'dry':
        return 0.0
    if kind == 'light':
        return max(0.0, rng.choice([thr_s, thr_s / 2, nextafter(thr_s, False), 0.1, thr_s]))
    if kind == 'heavy':
        # (with a zero threshold the value just above it would be the denormal 5e-324 mm/h, whose depth over a step
        # underflows to 0: not a rainfall record; use a small normal number instead)
        return rng.choice([nextafter(thr_s) if thr_s > 0 else 0.01, thr_s * 2, thr_s + 1.5, 3 * thr_s, thr_s + 0.25])
    raise ValueError(kind)


def incr_value(rng, delta, kind):
    """Water-level increment: `delta` is the float threshold thr_j * step_h."""
    if kind == 'fall':
        return -rng.choice([0.0, 0.125, 0.25, 0.5, delta / 4])
    if kind == 'slow':
        return rng.choice([delta, delta / 2, nextafter(delta, False), 0.0, delta])
    if kind == 'fast':
        return rng.choice([nextafter(delta), 2 * delta, delta + 1.0, 3 * delta + 0.5, delta * 1.5])
    raise ValueError(kind)


def gen_flags(rng, cls, n):
    """Return (heavy, light, fast) boolean plans of length n (fast[i]: increment i -> i+1)."""
    heavy = [False] * n
    light = [False] * n
    fast = [False] * n
    if cls == 'random':
        p, q = rng.choice([(0.3, 0.3), (0.5, 0.5), (0.15, 0.4), (0.6, 0.2)])
        heavy = [rng.random() < p for _ in range(n)]
        light = [(not h) and rng.random() < 0.3 for h in heavy]
        fast = [rng.random() < q for _ in range(n)]
    elif cls == 'allrain':
        heavy = [True] * n
        fast = [rng.random() < 0.5 for _ in range(n)]
    elif cls == 'norain':
        fast = [rng.random() < 0.3 for _ in range(n)]
        if rng.random() < 0.5:
            light = [rng.random() < 0.3 for _ in range(n)]
    elif cls == 'chain':
        # S-R-S-R chains: alternating bursts and rises overlapping by one step
        i = rng.randrange(0, 3)
        while i < n - 1:
            ls = rng.randrange(1, 4)
            lr = rng.randrange(1, 4)
            for k in range(i, min(n, i + ls)):
                heavy[k] = True
            rs = i + ls - 1 + rng.randrange(-1, 1)
            for k in range(max(0, rs), min(n, rs + lr)):
                fast[k] = True
            i = max(rs + lr - 1, i + ls) + rng.randrange(0, 2)
            if rng.random() < 0.25:
                i += rng.randrange(1, 4)
    elif cls == 'contested':
        # two (or three) bursts A, B(, C) of unequal lengths; one rise runs from inside A into B (contested by
        # both), a second rise lies later inside B (B has two candidates), optionally mirrored: the start
        # offsets |rise start - storm start| differ from pair to pair, so a preference computed from the wrong
        # pair changes the winner
        i = rng.randrange(0, 3)
        spans = []
        for _ in range(rng.choice([2, 2, 3])):
            ln = rng.randrange(2, 8)
            spans.append((i, i + ln))
            i += ln + rng.randrange(1, 3)
        if rng.random() < 0.5:
            spans = [(n - 1 - b, n - 1 - a) for a, b in reversed(spans)]   # mirrored in time
        spans = [(max(0, a), min(n, b)) for a, b in spans if b > 0 and a < n]
        for a, b in spans:
            for k in range(a, b):
                heavy[k] = True
        for (a0, a1), (b0, b1) in zip(spans[:-1], spans[1:]):
            r1s = max(a0, a1 - rng.randrange(1, 4))
            r1e = min(b1 - 1, b0 + rng.randrange(1, max(2, b1 - b0 - 1)))
            for k in range(r1s, r1e):
                fast[k] = True
            r2s = r1e + 1 + rng.randrange(0, 2)
            r2e = b1 + rng.randrange(0, 2)
            for k in range(r2s, min(n, r2e)):
                fast[k] = True
            if rng.random() < 0.4:      # and an early rise inside A
                for k in range(a0 + rng.randrange(0, 2), max(a0, r1s - 1)):
                    fast[k] = True
    elif cls == 'long_rise':
        a = rng.randrange(0, max(1, n // 3))
        b = rng.randrange(min(n - 1, a + 3), n)
        for k in range(a, b):
            fast[k] = True
        for k in range(a, b):
            if rng.random() < 0.5:
                heavy[k] = True
        for k in range(n):
            if rng.random() < 0.1:
                heavy[k] = True
    elif cls == 'long_storm':
        a = rng.randrange(0, max(1, n // 3))
        b = rng.randrange(min(n - 1, a + 3), n)
        for k in range(a, b):
            heavy[k] = True
        for k in range(a, b):
            if rng.random() < 0.5:
                fast[k] = True
        for k in range(n):
            if rng.random() < 0.1:
                fast[k] = True
    elif cls == 'edges':
        # runs touching the first / last sample
        la, lb = rng.randrange(1, 4), rng.randrange(1, 4)
        for k in range(min(la, n)):
            heavy[k] = rng.random() < 0.8
            fast[k] = rng.random() < 0.8
        for k in range(max(0, n - lb), n):
            heavy[k] = rng.random() < 0.8
            fast[k] = rng.random() < 0.8
        for k in range(n):
            if rng.random() < 0.15:
                heavy[k] = True
            if rng.random() < 0.15:
                fast[k] = True
    else:  # events / threshold / gappy: storms followed by recessions
        i = rng.randrange(0, 4)
        while i < n:
            ls = rng.randrange(1, 5)
            off = rng.randrange(-1, 2)
            lr = max(1, ls + rng.randrange(-1, 2))
            for k in range(i, min(n, i + ls)):
                heavy[k] = True
            for k in range(max(0, i + off), min(n, i + off + lr)):
                fast[k] = True
            j = min(n, i + ls)
            if j < n and rng.random() < 0.7:
                light[j] = True  # light rain after the storm ends it cleanly
            i = j + rng.randrange(2, 9)
            if rng.random() < 0.2 and i < n:
                fast[min(n - 1, i - 1)] = True  # dry unexplained rise
    return heavy, light, fast


def gen_record(rng, cls=None, nmax=40):
    cls = cls or rng.choice(CLASSES)
    step = rng.choice(STEPS)
    thr_s = rng.choice(THRS)
    thr_j = rng.choice(THRS)
    if rng.random() < 0.04:   # a zero threshold is a threshold ("all threshold pairs", C03): > 0 means any rain / any rise
        if rng.random() < 0.5:
            thr_s = 0.0
        else:
            thr_j = 0.0
    n = rng.randrange(2, nmax)
    if cls == 'contested':
        n = rng.randrange(14, max(15, nmax))
    heavy, light, fast = gen_flags(rng, cls, n)
    delta = thr_j * (step / 3600.0)
    rain, zeta = [], [rng.choice([-300.0, -50.25, 0.0, 12.5, -1000.0])]
    for i in range(n):
        if heavy[i]:
            rain.append(rain_value(rng, thr_s, 'heavy'))
        elif light[i] or (cls == 'threshold' and rng.random() < 0.4):
            rain.append(rain_value(rng, thr_s, 'light'))
        else:
            rain.append(0.0)
    for i in range(n - 1):
        if fast[i]:
            d = incr_value(rng, delta, 'fast')
        elif cls == 'threshold' and rng.random() < 0.5:
            d = incr_value(rng, delta, 'slow')
        else:
            d = incr_value(rng, delta, rng.choice(['fall', 'fall', 'slow']))
        zeta.append(zeta[-1] + d)
    # gaps: remove runs of water-level samples
    missing = set()
    if cls == 'gappy' or rng.random() < 0.25:
        for _ in range(rng.randrange(1, 4)):
            a = rng.randrange(1, max(2, n - 1))
            ln = rng.randrange(1, 4)
            missing |= set(range(a, min(n - 1, a + ln)))
        if rng.random() < 0.3 and n > 4:
            missing |= {n - 2}  # last stretch has a single sample
        if rng.random() < 0.3 and n > 4:
            missing |= {1}      # first stretch has a single sample
    t0 = rng.choice([1361318400, 1356998400, 1361318400 + 86400 * 200, 946684800]) // step * step
    lead = rng.randrange(0, 3)
    trail = rng.randrange(0, 3)
    return dict(cls=cls, step=step, thr_s=thr_s, thr_j=thr_j, t0=t0, rain=rain, zeta=zeta,
                missing=sorted(missing), lead=lead, trail=trail)


# ------------------------------------------------------------------ one ulp between two ways of writing the threshold
#
# "Jump threshold x time step" is a product of three numbers (threshold, step in seconds, 1/3600) that a program can
# round in several orders; the results differ by an ulp for many (step, threshold) pairs, never for steps of 15 / 30 /
# 60 min.  The classification uses the product in two places (interstorm flags, rise detection), which must agree on
# every increment, in particular on increments EQUAL to one of the candidate products.

ULP_STEPS = [360, 600, 1200, 100, 90, 460, 3900, 300, 420, 720, 2400, 60, 540, 900, 1800]
ULP_THRS = [3.0, 0.3, 2.5, 5.0, 0.7, 1.1, 7.0, 0.1, 6.0, 9.0, 10.0, 0.9, 0.5, 4.0]


def delta_candidates(thr, step):
    """Distinct binary64 values of thr [mm/h] x step [s] / 3600 under different orders of evaluation, ascending.
    The first expression is the one written in the harness (and the unchanged classify): thr * (step / 3600.)."""
    return sorted({thr * (step / 3600.0), thr * step / 3600.0, thr / 3600.0 * step, thr / (3600.0 / step),
                   thr * (step / 60.0) / 60.0, thr / 60.0 * (step / 60.0)})


ULP_PAIRS = [(s, t) for s in ULP_STEPS for t in ULP_THRS if len(delta_candidates(t, s)) >= 2]
# ... of which: the two plainest spellings, thr * (step / 3600.) and thr * step / 3600., differ
ULP_PAIRS_PLAIN = [(s, t) for s, t in ULP_PAIRS if t * (s / 3600.0) != t * s / 3600.0]
ULP_PAIRS_SAME = [(s, t) for s in ULP_STEPS for t in ULP_THRS if len(delta_candidates(t, s)) == 1]


def boundary_values(thr, step):
    """Every candidate product, and the floats just below the smallest / just above the largest of them."""
    c = delta_candidates(thr, step)
    return [nextafter(c[0], False)] + c + [nextafter(c[-1])]


def exact_next(z, d):
    """A level z' with z' - z == d in binary64 when there is one next to z + d (there is when |z|, |z'| do not
    exceed the binade of d by much: levels of a few tenths of a millimetre for sub-hourly steps), else z + d."""
    c = z + d
    for k in (c, nextafter(c), nextafter(c, False), nextafter(nextafter(c)), nextafter(nextafter(c, False), False)):
        if k - z == d:
            return k
    return c


def gen_foot_record(rng, nmax=30):
    """Record of class 'foot': events whose rise begins with one or two increments taken from `boundary_values`
    (realised exactly: the level is brought close to zero first), at the foot of clearly fast increments; the
    foot lies on 1..3 dry samples that follow a light shower (which closes the initial / any 'mystery' period, so
    that the dry samples can form an interstorm interval); the heavy rain arrives with or after the first fast
    increment.  Some in-rise increments and some recession increments are boundary values too.  (step, jump
    threshold) mostly from ULP_PAIRS.  rec['edge_exact'] = number of boundary increments realised exactly."""
    lattice = rng.choice([ULP_PAIRS_PLAIN] * 7 + [ULP_PAIRS] * 2 + [ULP_PAIRS_SAME])
    step, thr_j = rng.choice(lattice)
    thr_s = rng.choice(THRS)
    n = rng.randrange(8, max(9, nmax))
    heavy, light, fast, edge, plain = [False] * n, [False] * n, [False] * n, [False] * n, [False] * (n + 2)
    i = rng.randrange(0, 3)
    while i < n - 4:
        if rng.random() < 0.5:
            # shower, two dry samples joined by ONE boundary increment, then the rise: the dry pair is an interstorm
            # interval exactly when that increment is not a jump, and the foot of the rise exactly when it is
            light[i], dry, ne, plain[i + 1] = True, 2, 1, True
        else:
            light[i], dry, ne = rng.random() < 0.6, rng.choice([1, 2, 3]), rng.choice([1, 2])
        q = i + dry                                   # last dry sample of the foot
        for k in range(max(i, q - ne), q):
            edge[k] = True                            # boundary increments k -> k+1, up to sample q
        lr = rng.randrange(2, 5)
        for k in range(q, min(n - 1, q + lr)):
            fast[k] = True
        s0 = q + rng.randrange(0, 3)                  # heavy rain from sample s0 (>= q: at or after the first fast increment)
        if s0 == q and rng.random() < 0.7:
            s0 += 1
        for k in range(min(n, s0), min(n, s0 + rng.randrange(1, 4))):
            heavy[k] = True
        i = max(q + lr, s0 + 1) + rng.randrange(2, 5)
    bvals = boundary_values(thr_j, step)
    foot_vals = bvals + bvals[1:-1]                   # each candidate product twice as likely as the two neighbours
    delta = thr_j * (step / 3600.0)
    rain = [rain_value(rng, thr_s, 'heavy') if heavy[k] else
            (rng.choice([thr_s / 2, 0.1, thr_s, 1.0 if thr_s > 1.0 else thr_s / 4]) if light[k] else 0.0) for k in range(n)]
    zeta, exact = [rng.choice([0.0, 0.1, 0.5, -0.25])], 0
    for k in range(n - 1):
        if edge[k]:
            if not (k > 0 and (edge[k - 1] or fast[k - 1])):
                zeta[-1] = min(zeta[-1], rng.choice([0.0, 0.1, -0.1, 0.05, 0.2]))   # a fall of any size is never a jump
            d = rng.choice(bvals[1:-1] if plain[k] else foot_vals)
            z = exact_next(zeta[-1], d)
            exact += (z - zeta[-1] == d)
        elif fast[k]:
            if rng.random() < 0.2:
                d = rng.choice(bvals[1:])
                z = exact_next(zeta[-1], d)
                exact += (z - zeta[-1] == d)
            else:
                z = zeta[-1] + rng.choice([2 * delta, delta + 1.0, 3 * delta + 0.5, delta + 0.75])
        elif rng.random() < 0.15:
            d = rng.choice(bvals[:-1])
            z = exact_next(zeta[-1], d)
            exact += (z - zeta[-1] == d)
        else:
            z = zeta[-1] + incr_value(rng, delta, 'fall')
        zeta.append(z)
    t0 = rng.choice([1361318400, 1356998400, 1583020800, 946684800]) // step * step
    return dict(cls='foot', step=step, thr_s=thr_s, thr_j=thr_j, t0=t0, rain=rain, zeta=zeta, missing=[],
                lead=rng.randrange(0, 3), trail=rng.randrange(0, 3), edge_exact=int(exact),
                products=len(delta_candidates(thr_j, step)))


def refine(rng, rec, island=True):
    """The same record with the water level logged `fine` (3, or 2 where the step is not a multiple of 3) times
    per rainfall step: fine samples linearly interpolated between the grid-instant values, every outage of the
    record widened by up to fine-1 fine samples on either side, and (island=True) between two outages a short
    island of 1..fine-1 readings strictly between two neighbouring grid instants g, g+1 that are both lost: `load`
    numbers the island as a gap-free record of its own, which contains no grid instant, so that the data-interval
    numbers stored in grid_time have a hole (e.g. 1 and 3).  Records too short for that are returned unchanged."""
    step, n = rec['step'], len(rec['zeta'])
    if n < 6 or 'fine' in rec:
        return rec
    fine = 3 if step % 3 == 0 else 2
    if step % fine:
        return rec
    miss = set(rec['missing'])
    g = None
    if island:
        cands = [a for a in range(2, n - 3) if a in miss and a + 1 in miss]
        if cands and rng.random() < 0.5:
            g = rng.choice(cands)
        else:
            g = rng.randrange(2, n - 3)     # >= 2 samples before the first outage and >= 2 after the second
            miss |= {g, g + 1}
    fmiss = set()
    grid_miss = sorted(miss)
    i = 0
    while i < len(grid_miss):
        j = i
        while j + 1 < len(grid_miss) and grid_miss[j + 1] == grid_miss[j] + 1:
            j += 1
        lo = grid_miss[i] * fine - rng.randrange(0, fine)
        hi = grid_miss[j] * fine + rng.randrange(0, fine)
        fmiss |= set(range(lo, hi + 1))
        i = j + 1
    isl = []
    if g is not None:
        between = list(range(g * fine + 1, (g + 1) * fine))
        isl = between if rng.random() < 0.6 else [rng.choice(between)]
        fmiss -= set(isl)
    out = dict(rec)
    out.update(fine=fine, fine_missing=sorted(fmiss), island=isl, missing=grid_miss)
    return out


def fine_outages(rec):
    """Maximal runs [lo, hi] of lost fine readings of a refined record."""
    runs, fm = [], sorted(rec.get('fine_missing', []))
    for f in fm:
        if runs and f == runs[-1][1] + 1:
            runs[-1][1] = f
        else:
            runs.append([f, f])
    return runs


def run_into_outages(rng, rec, share=0.75):
    """A refined record (see `refine`) in which most outages begin right after a reading that is OFF the rainfall
    grid and end right before a reading that is off the grid (where the outage is long enough to be trimmed by one
    fine reading without freeing a grid instant), with heavy rain and clearly fast increments from two grid samples
    before the outage to two after it: a storm and a rise run into the outage and another pair runs out of it, the
    level after the outage is higher than before.  Whatever labels the grid instants (first / last instant of a
    gap-free stretch) decides where those intervals end.  rec['run_in'] = number of outages treated."""
    fine = rec.get('fine', 1)
    if fine < 2:
        return rec
    n, step = len(rec['zeta']), rec['step']
    delta = rec['thr_j'] * (step / 3600.0)
    rain, zeta = list(rec['rain']), list(rec['zeta'])
    incs = [b - a for a, b in zip(zeta, zeta[1:])]
    fmiss, treated = set(rec['fine_missing']), 0
    for lo, hi in fine_outages(rec):
        if rng.random() >= share:
            continue
        if (lo - 1) % fine == 0 and lo % fine != 0 and lo + 1 <= hi:
            fmiss.discard(lo)                      # reading lo (off the grid) is now the last one before the outage
            lo += 1
        if (hi + 1) % fine == 0 and hi % fine != 0 and hi - 1 >= lo:
            fmiss.discard(hi)                      # reading hi (off the grid) is now the first one after the outage
            hi -= 1
        a, b = -(-lo // fine), hi // fine          # grid samples inside the outage: a..b (none when a > b)
        for k in range(max(0, a - 2), min(n, b + 3)):
            rain[k] = rain_value(rng, rec['thr_s'], 'heavy')
        for k in range(max(0, a - 3), min(n - 1, b + 3)):
            incs[k] = rng.choice([delta + 1.0, 3 * delta + 0.5, 2 * delta + 0.25])
        treated += 1
    if not treated:
        return rec
    z = [zeta[0]]
    for d in incs:
        z.append(z[-1] + d)
    out = dict(rec)
    out.update(rain=rain, zeta=z, fine_missing=sorted(fmiss), run_in=treated)
    return out


def fine_share(recs, rng, every=4, phase=2, run_in_rng=None):
    """Every `every`-th record (from index `phase`) refined, most of them with an island.  With `run_in_rng` (a
    stream of its own) every second refined record is passed through `run_into_outages`."""
    out = [refine(rng, rec, island=(rng.random() < 0.8)) if k % every == phase else rec
           for k, rec in enumerate(recs)]
    if run_in_rng is not None:
        fines = [k for k, rec in enumerate(out) if rec.get('fine', 1) > 1]
        for k in fines[::2]:
            out[k] = run_into_outages(run_in_rng, out[k])
    return out


def to_dataset(rec, shift=0, tz='UTC', fmt_time=None):
    """Rainfall covers `lead` steps before and `trail` after the water-level span.
    With rec['fine'] = f > 1 the water level is written every step/f seconds (see `refine`), without the fine
    samples listed in rec['fine_missing']; rec['missing'] is then only informative."""
    step, t0, n = rec['step'], rec['t0'] + shift, len(rec['rain'])
    lead, trail = rec['lead'], rec['trail']
    rain = [(t0 + (i - lead) * step, 0.0) for i in range(lead)]
    rain += [(t0 + i * step, r) for i, r in enumerate(rec['rain'])]
    rain += [(t0 + (n + i) * step, 0.0) for i in range(trail)]
    et = [(t, 0.125) for t, _ in rain] + [(rain[-1][0] + step, 0.125)]
    fine = rec.get('fine', 1)
    if fine > 1:
        assert step % fine == 0, (step, fine)
        fs, z, fmiss = step // fine, rec['zeta'], set(rec['fine_missing'])
        wl = []
        for f in range((len(z) - 1) * fine + 1):
            if f in fmiss:
                continue
            i, r = divmod(f, fine)
            wl.append((t0 + f * fs, z[i] if r == 0 else z[i] + (z[i + 1] - z[i]) * r / fine))
    else:
        miss = set(rec['missing'])
        wl = [(t0 + i * step, z) for i, z in enumerate(rec['zeta']) if i not in miss]
    kw = {}
    if fmt_time is not None:
        kw['fmt_time'] = fmt_time
    return Dataset(rain, et, wl, tz=tz, **kw)
