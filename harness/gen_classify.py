"""Generators of rainfall / water-level records aimed at the branch structure of
classification: threshold-equal values, runs touching the ends of a stretch,
rises spanning several bursts, bursts spanning several rises, chains that force
displacement in the matching, gaps (including one-sample stretches)."""
import math
import random

from harness.dataset import Dataset

STEPS = [600, 900, 1200, 1800, 3600, 90, 3900, 100, 460]   # incl. not whole minutes / hours not exact in binary
THRS = [0.5, 1.0, 2.0, 4.0, 5.0, 8.0, 0.3, 2.5]

CLASSES = ['events', 'random', 'chain', 'edges', 'allrain', 'norain', 'threshold', 'gappy',
           'long_rise', 'long_storm', 'contested']


def nextafter(x, up=True):
    return math.nextafter(x, math.inf if up else -math.inf)


def rain_value(rng, thr_s, kind):
    if kind == 'dry':
        return 0.0
    if kind == 'light':
        return max(0.0, rng.choice([thr_s, thr_s / 2, nextafter(thr_s, False), 0.1, thr_s]))
    if kind == 'heavy':
        # (with a zero threshold the value just above it would be the denormal 5e-324 mm/h, whose depth over a step
        # underflows to 0: not a rainfall record; use a small normal number instead)
        return rng.choice([nextafter(thr_s) if thr_s > 0 else 0.01, thr_s * 2, thr_s + 1.5, 3 * thr_s, thr_s + 0.25])
    raise ValueError(kind)


def incr_value(rng, delta, kind):
    """Water-level increment: `delta` is the float threshold thr_j * step_h."""
    if kind == 'fall':
        return -rng.choice([0.0, 0.125, 0.25, 0.5, delta / 4])
    if kind == 'slow':
        return rng.choice([delta, delta / 2, nextafter(delta, False), 0.0, delta])
    if kind == 'fast':
        return rng.choice([nextafter(delta), 2 * delta, delta + 1.0, 3 * delta + 0.5, delta * 1.5])
    raise ValueError(kind)


def gen_flags(rng, cls, n):
    """Return (heavy, light, fast) boolean plans of length n (fast[i]: increment i -> i+1)."""
    heavy = [False] * n
    light = [False] * n
    fast = [False] * n
    if cls == 'random':
        p, q = rng.choice([(0.3, 0.3), (0.5, 0.5), (0.15, 0.4), (0.6, 0.2)])
        heavy = [rng.random() < p for _ in range(n)]
        light = [(not h) and rng.random() < 0.3 for h in heavy]
        fast = [rng.random() < q for _ in range(n)]
    elif cls == 'allrain':
        heavy = [True] * n
        fast = [rng.random() < 0.5 for _ in range(n)]
    elif cls == 'norain':
        fast = [rng.random() < 0.3 for _ in range(n)]
        if rng.random() < 0.5:
            light = [rng.random() < 0.3 for _ in range(n)]
    elif cls == 'chain':
        # S-R-S-R chains: alternating bursts and rises overlapping by one step
        i = rng.randrange(0, 3)
        while i < n - 1:
            ls = rng.randrange(1, 4)
            lr = rng.randrange(1, 4)
            for k in range(i, min(n, i + ls)):
                heavy[k] = True
            rs = i + ls - 1 + rng.randrange(-1, 1)
            for k in range(max(0, rs), min(n, rs + lr)):
                fast[k] = True
            i = max(rs + lr - 1, i + ls) + rng.randrange(0, 2)
            if rng.random() < 0.25:
                i += rng.randrange(1, 4)
    elif cls == 'contested':
        # two (or three) bursts A, B(, C) of unequal lengths; one rise runs from inside A into B (contested by
        # both), a second rise lies later inside B (B has two candidates), optionally mirrored: the start
        # offsets |rise start - storm start| differ from pair to pair, so a preference computed from the wrong
        # pair changes the winner
        i = rng.randrange(0, 3)
        spans = []
        for _ in range(rng.choice([2, 2, 3])):
            ln = rng.randrange(2, 8)
            spans.append((i, i + ln))
            i += ln + rng.randrange(1, 3)
        if rng.random() < 0.5:
            spans = [(n - 1 - b, n - 1 - a) for a, b in reversed(spans)]   # mirrored in time
        spans = [(max(0, a), min(n, b)) for a, b in spans if b > 0 and a < n]
        for a, b in spans:
            for k in range(a, b):
                heavy[k] = True
        for (a0, a1), (b0, b1) in zip(spans[:-1], spans[1:]):
            r1s = max(a0, a1 - rng.randrange(1, 4))
            r1e = min(b1 - 1, b0 + rng.randrange(1, max(2, b1 - b0 - 1)))
            for k in range(r1s, r1e):
                fast[k] = True
            r2s = r1e + 1 + rng.randrange(0, 2)
            r2e = b1 + rng.randrange(0, 2)
            for k in range(r2s, min(n, r2e)):
                fast[k] = True
            if rng.random() < 0.4:      # and an early rise inside A
                for k in range(a0 + rng.randrange(0, 2), max(a0, r1s - 1)):
                    fast[k] = True
    elif cls == 'long_rise':
        a = rng.randrange(0, max(1, n // 3))
        b = rng.randrange(min(n - 1, a + 3), n)
        for k in range(a, b):
            fast[k] = True
        for k in range(a, b):
            if rng.random() < 0.5:
                heavy[k] = True
        for k in range(n):
            if rng.random() < 0.1:
                heavy[k] = True
    elif cls == 'long_storm':
        a = rng.randrange(0, max(1, n // 3))
        b = rng.randrange(min(n - 1, a + 3), n)
        for k in range(a, b):
            heavy[k] = True
        for k in range(a, b):
            if rng.random() < 0.5:
                fast[k] = True
        for k in range(n):
            if rng.random() < 0.1:
                fast[k] = True
    elif cls == 'edges':
        # runs touching the first / last sample
        la, lb = rng.randrange(1, 4), rng.randrange(1, 4)
        for k in range(min(la, n)):
            heavy[k] = rng.random() < 0.8
            fast[k] = rng.random() < 0.8
        for k in range(max(0, n - lb), n):
            heavy[k] = rng.random() < 0.8
            fast[k] = rng.random() < 0.8
        for k in range(n):
            if rng.random() < 0.15:
                heavy[k] = True
            if rng.random() < 0.15:
                fast[k] = True
    else:  # events / threshold / gappy: storms followed by recessions
        i = rng.randrange(0, 4)
        while i < n:
            ls = rng.randrange(1, 5)
            off = rng.randrange(-1, 2)
            lr = max(1, ls + rng.randrange(-1, 2))
            for k in range(i, min(n, i + ls)):
                heavy[k] = True
            for k in range(max(0, i + off), min(n, i + off + lr)):
                fast[k] = True
            j = min(n, i + ls)
            if j < n and rng.random() < 0.7:
                light[j] = True  # light rain after the storm ends it cleanly
            i = j + rng.randrange(2, 9)
            if rng.random() < 0.2 and i < n:
                fast[min(n - 1, i - 1)] = True  # dry unexplained rise
    return heavy, light, fast


def gen_record(rng, cls=None, nmax=40):
    cls = cls or rng.choice(CLASSES)
    step = rng.choice(STEPS)
    thr_s = rng.choice(THRS)
    thr_j = rng.choice(THRS)
    if rng.random() < 0.04:   # a zero threshold is a threshold ("all threshold pairs", C03): > 0 means any rain / any rise
        if rng.random() < 0.5:
            thr_s = 0.0
        else:
            thr_j = 0.0
    n = rng.randrange(2, nmax)
    if cls == 'contested':
        n = rng.randrange(14, max(15, nmax))
    heavy, light, fast = gen_flags(rng, cls, n)
    delta = thr_j * (step / 3600.0)
    rain, zeta = [], [rng.choice([-300.0, -50.25, 0.0, 12.5, -1000.0])]
    for i in range(n):
        if heavy[i]:
            rain.append(rain_value(rng, thr_s, 'heavy'))
        elif light[i] or (cls == 'threshold' and rng.random() < 0.4):
            rain.append(rain_value(rng, thr_s, 'light'))
        else:
            rain.append(0.0)
    for i in range(n - 1):
        if fast[i]:
            d = incr_value(rng, delta, 'fast')
        elif cls == 'threshold' and rng.random() < 0.5:
            d = incr_value(rng, delta, 'slow')
        else:
            d = incr_value(rng, delta, rng.choice(['fall', 'fall', 'slow']))
        zeta.append(zeta[-1] + d)
    # gaps: remove runs of water-level samples
    missing = set()
    if cls == 'gappy' or rng.random() < 0.25:
        for _ in range(rng.randrange(1, 4)):
            a = rng.randrange(1, max(2, n - 1))
            ln = rng.randrange(1, 4)
            missing |= set(range(a, min(n - 1, a + ln)))
        if rng.random() < 0.3 and n > 4:
            missing |= {n - 2}  # last stretch has a single sample
        if rng.random() < 0.3 and n > 4:
            missing |= {1}      # first stretch has a single sample
    t0 = rng.choice([1361318400, 1356998400, 1361318400 + 86400 * 200, 946684800]) // step * step
    lead = rng.randrange(0, 3)
    trail = rng.randrange(0, 3)
    return dict(cls=cls, step=step, thr_s=thr_s, thr_j=thr_j, t0=t0, rain=rain, zeta=zeta,
                missing=sorted(missing), lead=lead, trail=trail)


# ------------------------------------------------------------------ one ulp between two ways of writing the threshold
#
# "Jump threshold x time step" is a product of three numbers (threshold, step in seconds, 1/3600) that a program can
# round in several orders; the results differ by an ulp for many (step, threshold) pairs, never for steps of 15 / 30 /
# 60 min.  The classification uses the product in two places (interstorm flags, rise detection), which must agree on
# every increment, in particular on increments EQUAL to one of the candidate products.

ULP_STEPS = [360, 600, 1200, 100, 90, 460, 3900, 300, 420, 720, 2400, 60, 540, 900, 1800]
ULP_THRS = [3.0, 0.3, 2.5, 5.0, 0.7, 1.1, 7.0, 0.1, 6.0, 9.0, 10.0, 0.9, 0.5, 4.0]


def delta_candidates(thr, step):
    """Distinct binary64 values of thr [mm/h] x step [s] / 3600 under different orders of evaluation, ascending.
    The first expression is the one written in the harness (and the unchanged classify): thr * (step / 3600.)."""
    return sorted({thr * (step / 3600.0), thr * step / 3600.0, thr / 3600.0 * step, thr / (3600.0 / step),
                   thr * (step / 60.0) / 60.0, thr / 60.0 * (step / 60.0)})


ULP_PAIRS = [(s, t) for s in ULP_STEPS for t in ULP_THRS if len(delta_candidates(t, s)) >= 2]
# ... of which: the two plainest spellings, thr * (step / 3600.) and thr * step / 3600., differ
ULP_PAIRS_PLAIN = [(s, t) for s, t in ULP_PAIRS if t * (s / 3600.0) != t * s / 3600.0]
ULP_PAIRS_SAME = [(s, t) for s in ULP_STEPS for t in ULP_THRS if len(delta_candidates(t, s)) == 1]


def boundary_values(thr, step):
    """Every candidate product, and the floats just below the smallest / just above the largest of them."""
    c = delta_candidates(thr, step)
    return [nextafter(c[0], False)] + c + [nextafter(c[-1])]


def exact_next(z, d):
    """A level z' with z' - z == d in binary64 when there is one next to z + d (there is when |z|, |z'| do not
    exceed the binade of d by much: levels of a few tenths of a millimetre for sub-hourly steps), else z + d."""
    c = z + d
    for k in (c, nextafter(c), nextafter(c, False), nextafter(nextafter(c)), nextafter(nextafter(c, False), False)):
        if k - z == d:
            return k
    return c


def gen_foot_record(rng, nmax=30):
    """Record of class 'foot': events whose rise begins with one or two increments taken from `boundary_values`
    (realised exactly: the level is brought close to zero first), at the foot of clearly fast increments; the
    foot lies on 1..3 dry samples that follow a light shower (which closes the initial / any 'mystery' period, so
    that the dry samples can form an interstorm interval); the heavy rain arrives with or after the first fast
    increment.  Some in-rise increments and some recession increments are boundary values too.  (step, jump
    threshold) mostly from ULP_PAIRS.  rec['edge_exact'] = number of boundary increments realised exactly."""
    lattice = rng.choice([ULP_PAIRS_PLAIN] * 7 + [ULP_PAIRS] * 2 + [ULP_PAIRS_SAME])
    step, thr_j = rng.choice(lattice)
    thr_s = rng.choice(THRS)
    n = rng.randrange(8, max(9, nmax))
    heavy, light, fast, edge, plain = [False] * n, [False] * n, [False] * n, [False] * n, [False] * (n + 2)
    i = rng.randrange(0, 3)
    while i < n - 4:
        if rng.random() < 0.5:
            # shower, two dry samples joined by ONE boundary increment, then the rise: the dry pair is an interstorm
            # interval exactly when that increment is not a jump, and the foot of the rise exactly when it is
            light[i], dry, ne, plain[i + 1] = True, 2, 1, True
        else:
            light[i], dry, ne = rng.random() < 0.6, rng.choice([1, 2, 3]), rng.choice([1, 2])
        q = i + dry                                   # last dry sample of the foot
        for k in range(max(i, q - ne), q):
            edge[k] = True                            # boundary increments k -> k+1, up to sample q
        lr = rng.randrange(2, 5)
        for k in range(q, min(n - 1, q + lr)):
            fast[k] = True
        s0 = q + rng.randrange(0, 3)                  # heavy rain from sample s0 (>= q: at or after the first fast increment)
        if s0 == q and rng.random() < 0.7:
            s0 += 1
        for k in range(min(n, s0), min(n, s0 + rng.randrange(1, 4))):
            heavy[k] = True
        i = max(q + lr, s0 + 1) + rng.randrange(2, 5)
    bvals = boundary_values(thr_j, step)
    foot_vals = bvals + bvals[1:-1]                   # each candidate product twice as likely as the two neighbours
    delta = thr_j * (step / 3600.0)
    rain = [rain_value(rng, thr_s, 'heavy') if heavy[k] else
            (rng.choice([thr_s / 2, 0.1, thr_s, 1.0 if thr_s > 1.0 else thr_s / 4]) if light[k] else 0.0) for k in range(n)]
    zeta, exact = [rng.choice([0.0, 0.1, 0.5, -0.25])], 0
    for k in range(n - 1):
        if edge[k]:
            if not (k > 0 and (edge[k - 1] or fast[k - 1])):
                zeta[-1] = min(zeta[-1], rng.choice([0.0, 0.1, -0.1, 0.05, 0.2]))   # a fall of any size is never a jump
            d = rng.choice(bvals[1:-1] if plain[k] else foot_vals)
            z = exact_next(zeta[-1], d)
            exact += (z - zeta[-1] == d)
        elif fast[k]:
            if rng.random() < 0.2:
                d = rng.choice(bvals[1:])
                z = exact_next(zeta[-1], d)
                exact += (z - zeta[-1] == d)
            else:
                z = zeta[-1] + rng.choice([2 * delta, delta + 1.0, 3 * delta + 0.5, delta + 0.75])
        elif rng.random() < 0.15:
            d = rng.choice(bvals[:-1])
            z = exact_next(zeta[-1], d)
            exact += (z - zeta[-1] == d)
        else:
            z = zeta[-1] + incr_value(rng, delta, 'fall')
        zeta.append(z)
    t0 = rng.choice([1361318400, 1356998400, 1583020800, 946684800]) // step * step
    return dict(cls='foot', step=step, thr_s=thr_s, thr_j=thr_j, t0=t0, rain=rain, zeta=zeta, missing=[],
                lead=rng.randrange(0, 3), trail=rng.randrange(0, 3), edge_exact=int(exact),
                products=len(delta_candidates(thr_j, step)))


def refine(rng, rec, island=True):
    """The same record with the water level logged `fine` (3, or 2 where the step is not a multiple of 3) times
    per rainfall step: fine samples linearly interpolated between the grid-instant values, every outage of the
    record widened by up to fine-1 fine samples on either side, and (island=True) between two outages a short
    island of 1..fine-1 readings strictly between two neighbouring grid instants g, g+1 that are both lost: `load`
    numbers the island as a gap-free record of its own, which contains no grid instant, so that the data-interval
    numbers stored in grid_time have a hole (e.g. 1 and 3).  Records too short for that are returned unchanged."""
    step, n = rec['step'], len(rec['zeta'])
    if n < 6 or 'fine' in rec:
        return rec
    fine = 3 if step % 3 == 0 else 2
    if step % fine:
        return rec
    miss = set(rec['missing'])
    g = None
    if island:
        cands = [a for a in range(2, n - 3) if a in miss and a + 1 in miss]
        if cands and rng.random() < 0.5:
            g = rng.choice(cands)
        else:
            g = rng.randrange(2, n - 3)     # >= 2 samples before the first outage and >= 2 after the second
            miss |= {g, g + 1}
    fmiss = set()
    grid_miss = sorted(miss)
    i = 0
    while i < len(grid_miss):
        j = i
        while j + 1 < len(grid_miss) and grid_miss[j + 1] == grid_miss[j] + 1:
            j += 1
        lo = grid_miss[i] * fine - rng.randrange(0, fine)
        hi = grid_miss[j] * fine + rng.randrange(0, fine)
        fmiss |= set(range(lo, hi + 1))
        i = j + 1
    isl = []
    if g is not None:
        between = list(range(g * fine + 1, (g + 1) * fine))
        isl = between if rng.random() < 0.6 else [rng.choice(between)]
        fmiss -= set(isl)
    out = dict(rec)
    out.update(fine=fine, fine_missing=sorted(fmiss), island=isl, missing=grid_miss)
    return out


def fine_outages(rec):
    """Maximal runs [lo, hi] of lost fine readings of a refined record."""
    runs, fm = [], sorted(rec.get('fine_missing', []))
    for f in fm:
        if runs and f == runs[-1][1] + 1:
            runs[-1][1] = f
        else:
            runs.append([f, f])
    return runs


def run_into_outages(rng, rec, share=0.75):
    """A refined record (see `refine`) in which most outages begin right after a reading that is OFF the rainfall
    grid and end right before a reading that is off the grid (where the outage is long enough to be trimmed by one
    fine reading without freeing a grid instant), with heavy rain and clearly fast increments from two grid samples
    before the outage to two after it: a storm and a rise run into the outage and another pair runs out of it, the
    level after the outage is higher than before.  Whatever labels the grid instants (first / last instant of a
    gap-free stretch) decides where those intervals end.  rec['run_in'] = number of outages treated."""
    fine = rec.get('fine', 1)
    if fine < 2:
        return rec
    n, step = len(rec['zeta']), rec['step']
    delta = rec['thr_j'] * (step / 3600.0)
    rain, zeta = list(rec['rain']), list(rec['zeta'])
    incs = [b - a for a, b in zip(zeta, zeta[1:])]
    fmiss, treated = set(rec['fine_missing']), 0
    for lo, hi in fine_outages(rec):
        if rng.random() >= share:
            continue
        if (lo - 1) % fine == 0 and lo % fine != 0 and lo + 1 <= hi:
            fmiss.discard(lo)                      # reading lo (off the grid) is now the last one before the outage
            lo += 1
        if (hi + 1) % fine == 0 and hi % fine != 0 and hi - 1 >= lo:
            fmiss.discard(hi)                      # reading hi (off the grid) is now the first one after the outage
            hi -= 1
        a, b = -(-lo // fine), hi // fine          # grid samples inside the outage: a..b (none when a > b)
        for k in range(max(0, a - 2), min(n, b + 3)):
            rain[k] = rain_value(rng, rec['thr_s'], 'heavy')
        for k in range(max(0, a - 3), min(n - 1, b + 3)):
            incs[k] = rng.choice([delta + 1.0, 3 * delta + 0.5, 2 * delta + 0.25])
        treated += 1
    if not treated:
        return rec
    z = [zeta[0]]
    for d in incs:
        z.append(z[-1] + d)
    out = dict(rec)
    out.update(rain=rain, zeta=z, fine_missing=sorted(fmiss), run_in=treated)
    return out


def fine_share(recs, rng, every=4, phase=2, run_in_rng=None):
    """Every `every`-th record (from index `phase`) refined, most of them with an island.  With `run_in_rng` (a
    stream of its own) every second refined record is passed through `run_into_outages`."""
    out = [refine(rng, rec, island=(rng.random() < 0.8)) if k % every == phase else rec
           for k, rec in enumerate(recs)]
    if run_in_rng is not None:
        fines = [k for k, rec in enumerate(out) if rec.get('fine', 1) > 1]
        for k in fines[::2]:
            out[k] = run_into_outages(run_in_rng, out[k])
    return out


def to_dataset(rec, shift=0, tz='UTC', fmt_time=None):
    """Rainfall covers `lead` steps before and `trail` after the water-level span.
    With rec['fine'] = f > 1 the water level is written every step/f seconds (see `refine`), without the fine
    samples listed in rec['fine_missing']; rec['missing'] is then only informative.
    A compact large record (rec['big'], see `expand`) is materialised first."""
    rec = expand(rec)
    step, t0, n = rec['step'], rec['t0'] + shift, len(rec['rain'])
    lead, trail = rec['lead'], rec['trail']
    rain = [(t0 + (i - lead) * step, 0.0) for i in range(lead)]
    rain += [(t0 + i * step, r) for i, r in enumerate(rec['rain'])]
    rain += [(t0 + (n + i) * step, 0.0) for i in range(trail)]
    et = [(t, 0.125) for t, _ in rain] + [(rain[-1][0] + step, 0.125)]
    fine = rec.get('fine', 1)
    if fine > 1:
        assert step % fine == 0, (step, fine)
        fs, z, fmiss = step // fine, rec['zeta'], set(rec['fine_missing'])
        wl = []
        for f in range((len(z) - 1) * fine + 1):
            if f in fmiss:
                continue
            i, r = divmod(f, fine)
            wl.append((t0 + f * fs, z[i] if r == 0 else z[i] + (z[i + 1] - z[i]) * r / fine))
    else:
        miss = set(rec['missing'])
        wl = [(t0 + i * step, z) for i, z in enumerate(rec['zeta']) if i not in miss]
    kw = {}
    if fmt_time is not None:
        kw['fmt_time'] = fmt_time
    return Dataset(rain, et, wl, tz=tz, **kw)


# ------------------------------------------------------------------ far time origins (epochs beyond 32 bits)
#
# Epochs are whole seconds since 1970 held in 64-bit integers all the way (SQLite integers, Python ints, numpy int64):
# a record dated after 2038-01-19 03:14:08 UTC (2**31 s) or before 1901-12-13 20:45:52 (-2**31 s), or after 2106
# (2**32 s), must classify like the same record dated 2013.  Origins of the lattice below put the record a few steps
# before 2**31 (the record straddles it), exactly on it, days / decades after it, around 2**32, a few steps before
# -2**31, and centuries away on either side (within the years 1..9999 that a time stamp can spell).

FAR_ANCHORS = [2**31, 2**31, 2**31, 2**32, -2**31, -2**31]


def far_t0(rng, step, n):
    """An origin (a multiple of the step) from the far lattice for a record of n samples."""
    kind = rng.randrange(8)
    if kind < 4:
        a = rng.choice(FAR_ANCHORS)
        k = rng.choice([0, 1, 2, 3, max(1, n // 2), n, n + 2, -1, -5])       # steps of the record before the anchor
        t0 = a - k * step
    elif kind == 4:
        t0 = 2**31 + 86400 * rng.choice([1, 30, 365, 3650])
    elif kind == 5:
        t0 = rng.choice([4000000000, 2**32 + 86400, 10**10, 32503680000, 10**11])    # 2096, 2106, 2286, 3000, 5138
    elif kind == 6:
        t0 = rng.choice([-2**31 - 86400 * 400, -3000000000, -2**32 - 3600, -10**10, -30610224000])   # 1900 .. 1000
    else:
        t0 = rng.choice([2**31 - 86400, 2**31 + 3600, -2**31 + 7200])
    return t0 // step * step


def far_origin(rec, rng):
    """The same record dated at a far origin (rec['far'] = True); nothing else changes."""
    n = len(rec['zeta']) if 'zeta' in rec else rec.get('n', 100)
    return dict(rec, t0=far_t0(rng, rec['step'], n), far=True)


def far_share(recs, rng, every=5, phase=3):
    """Every `every`-th record (from index `phase`) moved to an origin of the far lattice; `rng` is a stream of its
    own, the records are otherwise unchanged."""
    return [far_origin(rec, rng) if k % every == phase else rec for k, rec in enumerate(recs)]


def far_kind(rec):
    """Which side of which 32-bit bound the record's epochs lie on (for the input histogram)."""
    n = len(rec['zeta']) if 'zeta' in rec else rec.get('n', 0)
    lo, hi = rec['t0'] - rec.get('lead', 0) * rec['step'], rec['t0'] + (n + rec.get('trail', 0)) * rec['step']
    for name, b in (('2^31', 2**31), ('2^32', 2**32), ('-2^31', -2**31), ('-2^32', -2**32)):
        if lo < b <= hi:
            return 'straddles ' + name
    if lo >= 2**32:
        return 'after 2^32 (2106)'
    if lo >= 2**31:
        return 'after 2^31 (2038)'
    if hi < -2**32:
        return 'before -2^32 (1833)'
    if hi < -2**31:
        return 'before -2^31 (1901)'
    return 'inside 32 bits'


# ------------------------------------------------------------------ large records (compact: materialised on use)
#
# Records sized past the round numbers software chunks at.  A large record is carried as a SPEC: the usual keys
# (cls, step, thr_s, thr_j, t0, lead, trail, missing) plus rec['big'] = parameters and the seed of a private
# random stream; `expand` materialises rain and zeta deterministically from it, so that a replay file stays small.

BLOCKS = [1000, 1024, 4096, 8192, 10000, 16384, 32768, 65536]


def block_edges(n, margin=8):
    """Sample indices inside (margin, n - margin) at which a program working in blocks of a round size would cut:
    multiples of each block size B, and of B - 1 (blocks that share one sample)."""
    out = set()
    for b in BLOCKS:
        for size in (b, b - 1):
            k = size
            while k < n - margin:
                if k > margin:
                    out.add(k)
                k += size
    return sorted(out)


def odd_size(rng, lo, hi):
    """A size in [lo, hi) that is not a multiple of, nor one beside a multiple of, any block size."""
    while True:
        n = rng.randrange(lo, hi)
        if all(n % b > 1 and n % b < b - 1 for b in BLOCKS):
            return n


def expand(rec):
    """A record with rain / zeta lists: `rec` itself unless it is a compact spec (rec['big'] without 'rain')."""
    if 'rain' in rec or 'big' not in rec:
        return rec
    big = rec['big']
    rng = random.Random(big['rseed'])
    delta = rec['thr_j'] * (rec['step'] / 3600.0)
    if big['kind'] == 'chain':
        heavy, light, fast = chain_flags(rng, big['links'], big['cut'], big['lead_dry'])
    elif big['kind'] == 'edges':
        heavy, light, fast = edge_flags(rng, big['n'], big['density'])
    elif big['kind'] == 'span':
        heavy, light, fast = span_flags(rng, big['n'], big['which'], big['width'])
    elif big['kind'] == 'spells':
        heavy, light, fast = spell_flags(rng, big['n'], big['period'], big['jumps'])
    else:
        raise ValueError(big['kind'])
    rain, zeta = flag_values(rng, heavy, light, fast, rec['thr_s'], delta, big.get('boundary', 0.0))
    return dict(rec, rain=rain, zeta=zeta, n=len(rain))


def flag_values(rng, heavy, light, fast, thr_s, delta, boundary=0.0):
    """Values realising the plans: intensities above the storm threshold where heavy, positive but not above it where
    light, zero elsewhere; increments above threshold x step where fast, falls / slow rises elsewhere (a share
    `boundary` of the values sits exactly on the threshold or one ulp beside it).  The level stays within a few
    metres of zero: long records must not drift to levels where an increment of a few millimetres is lost."""
    n = len(heavy)
    rain = []
    for i in range(n):
        if heavy[i]:
            rain.append(nextafter(thr_s) if (thr_s > 0 and rng.random() < boundary) else rng.choice([thr_s * 2, thr_s + 1.5, 3 * thr_s + 0.25]))
        elif light[i]:
            rain.append(thr_s if (thr_s > 0 and rng.random() < boundary) else rng.choice([thr_s / 2, 0.1, 0.25]) if thr_s > 0.1 else 0.0)
        else:
            rain.append(0.0)
        if light[i] and not rain[-1] > 0:
            rain[-1] = thr_s if thr_s > 0 else 0.0
    z = rng.choice([-300.0, -50.25, 0.0, 12.5])
    zeta = [z]
    for i in range(n - 1):
        if fast[i]:
            d = nextafter(delta) if rng.random() < boundary else rng.choice([2 * delta, delta + 1.0, 3 * delta + 0.5, delta * 1.5]) \
                if delta > 0 else 0.5
        else:
            if rng.random() < boundary:
                d = rng.choice([delta, nextafter(delta, False)])
            else:
                d = -rng.choice([0.0, 0.125, 0.25, 0.5, delta / 4])
            if z > 500.0:
                d = -min(z + 500.0, rng.choice([2.0, 4.0, 6.0, 2.0 + 4 * delta]))      # a recession brings the level back
            elif z < -800.0 and d < 0:
                d = rng.choice([0.0, delta / 2, delta / 4])                            # ... and a slow rise, from below
        z = z + d
        zeta.append(z)
    return rain, zeta


def chain_flags(rng, links, cut, lead_dry):
    """links+1 storms and `links` rises in one gap-free stretch: rise i begins in the last step of storm i, runs through
    the dry spell after it and ends in the first step of storm i+1; storm i lasts exactly as long as rise i (so it
    prefers rise i to rise i-1, whose length differs), and is long enough for rise i to begin nearer to the start of
    storm i+1 than to that of storm i (so rise i prefers storm i+1); the last storm overlaps only the last rise.
    Deferred acceptance then displaces the storms one after another along the chain.  With probability `cut` per link
    the rise stops short of the next storm (the chain is cut there into independent chains of random lengths)."""
    heavy, fast = [False] * lead_dry, [False] * lead_dry
    prev_gap = 0
    for i in range(links + 1):
        gap = rng.choice([g for g in (1, 2, 3) if g != prev_gap])
        prev_gap = gap
        length = gap + 3
        a = len(heavy)
        heavy += [True] * length + [False] * gap
        fast += [False] * (length + gap)
        if i < links:
            last = a + length + gap                      # first step of storm i+1
            if rng.random() < cut:
                last = a + length + gap - 2
                prev_gap = 0                             # the next storm has one candidate only
            for k in range(a + length - 1, last + 1):
                while len(fast) <= k:
                    fast.append(False)
                fast[k] = True
    n = len(heavy) + rng.randrange(2, 7)
    heavy += [False] * (n - len(heavy))
    fast += [False] * (n - len(fast))
    return heavy, [False] * n, fast[:n]


def plant_event(heavy, light, fast, p, ls, lr, off):
    """A burst of `ls` steps whose middle straddles sample p, a rise of `lr` increments offset by `off`, clean margins."""
    n = len(heavy)
    a = max(1, p - ls // 2)
    for k in range(max(0, a - 3), min(n, a + ls + 4)):
        heavy[k] = light[k] = fast[k] = False
    for k in range(a, min(n - 2, a + ls)):
        heavy[k] = True
    ra = max(1, p - lr // 2 + off)
    for k in range(ra, min(n - 2, ra + lr)):
        fast[k] = True
    if a + ls < n:
        light[a + ls] = not heavy[a + ls]


def edge_flags(rng, n, density):
    """Storms followed by recessions over n samples (about one event per 1/density samples), and on top a storm and
    a rise laid ACROSS every block edge (`block_edges`): the burst / the run of increments has samples on both sides
    of the cut, of lengths 2..9 so that cuts at B-1, B and B+1 all fall inside."""
    heavy, light, fast = [False] * n, [False] * n, [False] * n
    i = rng.randrange(2, 6)
    while i < n - 12:
        ls = rng.randrange(1, 5)
        off = rng.randrange(-1, 2)
        lr = max(1, ls + rng.randrange(-1, 2))
        for k in range(i, i + ls):
            heavy[k] = True
        for k in range(max(0, i + off), i + off + lr):
            fast[k] = True
        light[i + ls] = rng.random() < 0.7
        i += ls + 2 + int(rng.expovariate(density))
        if rng.random() < 0.15 and i < n:
            fast[i - 1] = True                            # a dry unexplained rise
    for p in block_edges(n):
        if any(heavy[max(0, p - 12):p + 12]) and rng.random() < 0.25:
            continue                                      # now and then keep what the base plan has there
        plant_event(heavy, light, fast, p, rng.randrange(4, 10), rng.randrange(3, 10), rng.randrange(-1, 2))
    return heavy, light, fast


def spell_flags(rng, n, period, jumps):
    """Rain-free spells separated by single steps of light rain every 2..period steps (one separate dry spell per
    shower: tens of thousands of them in a long record), a share `jumps` of the spells holding an unexplained rise,
    now and then a burst of heavy rain with a rise; spells of 2+ samples are laid across every block edge."""
    heavy, light, fast = [False] * n, [False] * n, [False] * n
    i = 0
    while i < n:
        light[i] = True
        ln = rng.randrange(2, period + 1)
        if rng.random() < jumps and ln >= 3 and i + 2 < n:
            fast[i + rng.randrange(1, ln - 1)] = True
        if rng.random() < 0.01 and i + 3 < n:
            heavy[i], light[i], fast[i] = True, False, True
        i += ln
    for p in block_edges(n):
        for k in range(p - 3, min(n, p + 3)):
            light[k] = heavy[k] = False
            fast[k] = False
        light[p - 4] = True
        if p + 3 < n:
            light[p + 3] = True
    return heavy, light, fast


def span_flags(rng, n, which, width):
    """ONE burst of heavy rain (which='storm') / one rise (which='rise') lasting more than 1000 steps - longer than any
    weight a program may give a secondary criterion - with many short rises / bursts of nearly equal lengths
    (base .. base+width steps, plus one step per `period` steps of offset) scattered inside it and around it: the long
    interval has dozens of candidates whose durations differ by one step while their start offsets differ by hundreds
    to thousands of steps."""
    long_, short, light = [False] * n, [False] * n, [False] * n
    a = rng.randrange(3, max(4, n // 10))
    b = rng.randrange(min(n - 10, a + 1100), n - 5)
    for k in range(a, b):
        long_[k] = True
    base = rng.randrange(2, 30)
    # the longest length on offer grows by one step every `period` steps along the long interval: the candidate with
    # the closest duration lies hundreds to thousands of steps beyond the runner-up
    period = rng.choice([150, 400, 700, 1100, 1600, 2500, (b - a) // 2 + 1, (b - a) // 2 + 1, (b - a) // 3 + 1])
    if rng.random() < 0.3:
        period = -period                                  # ... or before it (lengths shrink along the interval)
    i = rng.randrange(0, 20)
    while i < n - base - width - n // abs(period) - 3:
        cap = base + width + (max(0, i - a) // period if period > 0 else max(0, b - i) // -period)
        ln = max(1, cap - rng.choice([0, 0, 1, 1, 2, width]))
        for k in range(i, i + ln):
            short[k] = True
        i += ln + 1 + rng.randrange(1, 120)
    if which == 'storm':
        return long_, light, short
    return short, light, long_


def gen_span_spec(rng, n, which, width=4):
    """Class 'long-storm' / 'long-rise' (see `span_flags`)."""
    return big_spec(rng, 'long-' + which, dict(kind='span', n=n, which=which, width=width))


def big_spec(rng, cls, big, step=None, thr_s=None, thr_j=None):
    step = step or rng.choice([600, 900, 1800, 3600, 1200])
    thr_s = thr_s if thr_s is not None else rng.choice([1.0, 2.0, 4.0, 5.0, 8.0, 2.5])
    thr_j = thr_j if thr_j is not None else rng.choice([1.0, 2.0, 4.0, 5.0, 8.0, 0.5])
    t0 = rng.choice([1361318400, 1356998400, 946684800]) // step * step
    return dict(cls=cls, step=step, thr_s=thr_s, thr_j=thr_j, t0=t0, missing=[], lead=rng.randrange(0, 3),
                trail=rng.randrange(0, 3), big=dict(big, rseed=rng.getrandbits(48)))


def gen_chain_spec(rng, links, cut=0.0):
    """Class 'long-chain' (see `chain_flags`): about 7 samples per link."""
    return big_spec(rng, 'long-chain', dict(kind='chain', links=links, cut=cut, lead_dry=rng.randrange(2, 8)))


def gen_edges_spec(rng, n, density=0.04, boundary=0.02):
    """Class 'long-edges' (see `edge_flags`)."""
    return big_spec(rng, 'long-edges', dict(kind='edges', n=n, density=density, boundary=boundary))


def gen_spells_spec(rng, n, period=4, jumps=0.05):
    """Class 'long-spells' (see `spell_flags`): about n / (1 + period / 2) separate dry spells."""
    return big_spec(rng, 'long-spells', dict(kind='spells', n=n, period=period, jumps=jumps))
