"""Synthetic datasets: writing the three text files, driving the real CLI
in-process, dumping the SQLite file logically."""
import datetime as dt
import io
import os
import shutil
import sqlite3
import contextlib

from harness import common as C

FMT = '%Y-%m-%d %H:%M:%S'


def fmt_utc(epoch):
    return (dt.datetime(1970, 1, 1) + dt.timedelta(seconds=int(epoch))).strftime(FMT)


def fmt_val(x):
    return repr(float(x))


class Dataset:
    """rain / et: list of (epoch, value); wl: list of (epoch, value).
    Timestamps are written in `tz` via `fmt_time` (default UTC)."""

    def __init__(self, rain, et, wl, tz='UTC', fmt_time=fmt_utc):
        self.rain, self.et, self.wl, self.tz, self.fmt_time = rain, et, wl, tz, fmt_time

    def write(self, d):
        os.makedirs(d, exist_ok=True)
        paths = {}
        for name, header, rows in (('precipitation', 'datetime,precipitation rate (mm/h)', self.rain),
                                   ('evapotranspiration', 'datetime,evapotranspiration (mm/h)', self.et),
                                   ('water_level', 'datetime,wtd (mm)', self.wl)):
            p = os.path.join(d, name + '.txt')
            with open(p, 'w') as f:
                f.write(header + '\n')
                for t, v in rows:
                    f.write('%s,%s\n' % (self.fmt_time(t), v if isinstance(v, str) else fmt_val(v)))
            paths[name] = p
        return paths

    def to_json(self):
        return dict(rain=[[int(t), v] for t, v in self.rain], et=[[int(t), v] for t, v in self.et],
                    wl=[[int(t), v] for t, v in self.wl], tz=self.tz)

    @staticmethod
    def from_json(j):
        return Dataset([tuple(r) for r in j['rain']], [tuple(r) for r in j['et']],
                       [tuple(r) for r in j['wl']], j.get('tz', 'UTC'))


def cli(argv):
    """Run the real command line in-process. Returns (status, exception)."""
    import spowtd.user_interface as ui
    buf_out, buf_err = io.StringIO(), io.StringIO()
    try:
        with contextlib.redirect_stdout(buf_out), contextlib.redirect_stderr(buf_err):
            rc = ui.main([str(a) for a in argv])
        return rc, None, buf_out.getvalue()
    except SystemExit as e:
        return (e.code if isinstance(e.code, int) else 1), e, buf_out.getvalue() + buf_err.getvalue()
    except Exception as e:  # pylint: disable=broad-except
        return 1, e, buf_out.getvalue()


def scratch(prop, name):
    d = os.path.join(C.WORK, prop, name)
    shutil.rmtree(d, ignore_errors=True)
    os.makedirs(d)
    return d


def load(ds, d):
    paths = ds.write(d)
    db = os.path.join(d, 'data.sqlite3')
    if os.path.exists(db):
        os.remove(db)
    rc, exc, _ = cli(['load', db, '-p', paths['precipitation'], '-e', paths['evapotranspiration'],
                      '-z', paths['water_level'], '--timezone', ds.tz])
    return db, rc, exc


TABLES = ['time_grid', 'grid_time', 'thresholds', 'grid_time_flags', 'rainfall_intensity',
          'evapotranspiration', 'water_level', 'storm', 'zeta_interval', 'zeta_interval_storm',
          'zeta_grid', 'discrete_zeta', 'rising_interval', 'recession_interval',
          'rising_interval_zeta', 'recession_interval_zeta', 'curvature',
          'rainfall_intensity_staging', 'water_level_staging', 'evapotranspiration_staging']
VIEWS = ['storm_total_rain_depth', 'average_recession_time', 'average_rising_depth',
         'storm_total_rise', 'rising_curve_line_segment']


def dump(db, tables=None, views=False):
    """Logical dump: table -> sorted list of rows."""
    out = {}
    con = sqlite3.connect(db)
    try:
        names = [r[0] for r in con.execute(
            "SELECT name FROM sqlite_master WHERE type IN ('table'%s) ORDER BY name"
            % (",'view'" if views else ''))]
        for n in names:
            if tables is not None and n not in tables:
                continue
            rows = con.execute('SELECT * FROM "%s"' % n).fetchall()
            out[n] = sorted(rows, key=lambda r: tuple((x is None, x) for x in r))
    finally:
        con.close()
    return out


def stretches(db):
    """Model of the classify join: per data interval the grid instants that have
    both a rainfall step starting there and a water level, in time order."""
    con = sqlite3.connect(db)
    try:
        gt = con.execute('SELECT epoch, data_interval FROM grid_time').fetchall()
        rain = dict(con.execute('SELECT from_epoch, rainfall_intensity_mm_h FROM rainfall_intensity'))
        wl = dict(con.execute('SELECT epoch, zeta_mm FROM water_level'))
        (step,) = con.execute('SELECT time_step_s FROM time_grid').fetchone()
    finally:
        con.close()
    labels = sorted({l for _, l in gt if l is not None})
    out = []
    for lab in labels:
        ep = sorted(e for e, l in gt if l == lab and e in rain and e in wl)
        out.append(dict(label=lab, epoch=ep, rain=[rain[e] for e in ep], zeta=[wl[e] for e in ep]))
    return out, step
