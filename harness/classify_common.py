"""Shared checks for C01 / C02 / C03 (matching pass of classification).

Every problem found is tagged with the property it belongs to; cXX.py keeps the
ones of its own property.  Three levels:
  GS  classify.find_stable_matching on arbitrary bipartite graphs,
  MS  classify.match_storms on float arrays,
  CL  `spowtd load` + `spowtd classify` through the CLI, tables vs model:
      per stretch (match_storms_data on the data of one gap-free stretch) and, since the command-level
      theorems (Proofs/ClassifyCommandSpec.v), the WHOLE command: `classify_command` (Model/ClassifyCommand.v)
      evaluated inside Coq on the stretches read from the database against the full contents of thresholds,
      grid_time_flags, storm, zeta_interval and zeta_interval_storm as sets of rows, or against the kind of
      exception when classify fails; `loaded_ok` (the structure of a loaded dataset that the theorems assume)
      is evaluated on the same stretches.
"""
import bisect
import builtins
import contextlib
import copy
import hashlib
import logging
import os
import sqlite3
from fractions import Fraction

import numpy as np

from harness import common as C
from harness import dataset as D
from harness import envcheck as E
from harness import gen_classify as G

PRE = 'From Spowtd Require Import Model.ClassifyData Model.DepthView.\nFrom Coq Require Import Qabs.\nClose Scope Q_scope.\n'
PRE_CMD = 'From Spowtd Require Import Model.ClassifyCommand.\n'
KNOWN_DUR = 'C02/duration-off-by-one'
CMD_CAP = 400          # samples of a dataset sent to Coq as one whole-command case (field records are too slow)


# ------------------------------------------------------------------ the classify command, at every verbosity

VERBOSITY = [[], ['-v'], ['-vv'], ['-vvv']]     # ERROR / WARNING / INFO / DEBUG (user_interface.LEVELS)


def with_verbosity(rec, k):
    """The record with the verbosity of its classify run fixed: the results must not depend on how chatty the
    program is asked to be.  Rotates none / -v / -vv / -vvv by case index; kept in the record so that a
    replayed case runs at the same verbosity."""
    return rec if 'verb' in rec else dict(rec, verb=k % len(VERBOSITY))


@contextlib.contextmanager
def logging_restored():
    """`spowtd.user_interface.main` reconfigures the root logger (level, one stream handler) on every call:
    put level and handlers back afterwards, so that a -vvv run does not leave DEBUG switched on (nor a handler
    on a captured stream) for whatever runs next in this process."""
    root = logging.getLogger()
    level, handlers, disabled = root.level, root.handlers[:], logging.root.manager.disable
    try:
        yield
    finally:
        for h in root.handlers[:]:
            if h not in handlers:
                root.removeHandler(h)
                h.close()
        for h in handlers:
            if h not in root.handlers:
                root.addHandler(h)
        root.setLevel(level)
        logging.disable(disabled)


def classify_cli(db, rec, out):
    """`spowtd classify DB -s .. -j .. [-v|-vv|-vvv]` in-process; the log messages go to the captured stderr of
    D.cli (--logfile defaults to the sys.stderr current when the parser is built), nothing reaches the terminal."""
    flags = VERBOSITY[rec.get('verb', 0) % len(VERBOSITY)]
    out.count('classify-verbosity:' + (flags[0] if flags else 'none'))
    with logging_restored():
        return D.cli(['classify', db, '-s', rec['thr_s'], '-j', rec['thr_j']] + flags)


def exc_from_child(res):
    """An exception object for a command that failed in a child process: the class named on the last line of the
    child's traceback (builtins / sqlite3), RuntimeError otherwise."""
    line = E.last_error_line(res)
    name, _, msg = line.partition(':')
    cls = getattr(builtins, name.strip().split('.')[-1], None) or getattr(sqlite3, name.strip().split('.')[-1], None)
    if not (isinstance(cls, type) and issubclass(cls, Exception)):
        return RuntimeError(line)
    try:
        return cls(msg.strip())
    except Exception:  # pylint: disable=broad-except
        return RuntimeError(line)


def run_commands(rec, ds, d, out):
    """`spowtd load` + `spowtd classify` on the dataset of a record.  In-process by default; a record carrying
    rec['env'] = name of a variant of harness.envcheck (python -O, TZ=..., -vvv, other directory, random hash seed)
    is processed by ONE child process under that variant instead.  Returns (db, stage, exc): stage 'load' /
    'classify' = the command that failed with exc, 'done' = both finished."""
    name = rec.get('env')
    if not name:
        db, rc, exc = D.load(ds, d)
        if exc is not None:
            return db, 'load', exc
        rc, exc, _ = classify_cli(db, rec, out)
        return db, ('classify' if exc is not None else 'done'), exc
    variant = E.variant_by_name(name)
    paths = ds.write(d)
    db = os.path.join(d, 'data.sqlite3')
    if os.path.exists(db):
        os.remove(db)
    flags = [] if variant.get('verbose') else VERBOSITY[rec.get('verb', 0) % len(VERBOSITY)]
    res, failed = E.run_cli_sequence_variant(
        [['load', db, '-p', paths['precipitation'], '-e', paths['evapotranspiration'], '-z', paths['water_level'],
          '--timezone', ds.tz],
         ['classify', db, '-s', repr(float(rec['thr_s'])), '-j', repr(float(rec['thr_j']))] + flags], variant)
    out.count('env:' + name)
    if failed is None:
        return db, 'done', None
    return db, ('load' if failed == 0 else 'classify'), exc_from_child(res)


ENV_TABLES = {'C01': ('thresholds', 'storm', 'zeta_interval', 'zeta_interval_storm'), 'C02': ('zeta_interval_storm',),
              'C03': ('storm', 'zeta_interval', 'zeta_interval_storm', 'storm_total_rain_depth'),
              'C04': ('grid_time_flags', 'zeta_interval')}


def env_records(recs, rng, seed, n_opt=2, n_other=2, fits=None):
    """Copies of a few records tagged with an environment variant: n_opt under `python -O`, n_other under variants
    drawn (by `rng`, a stream of its own) from the rest of harness.envcheck.workflow_env_variants()."""
    pool = [r for r in recs if (fits is None or fits(r))] or list(recs)
    others = [v['name'] for v in E.workflow_env_variants() if v['name'] != 'opt']
    names = ['opt'] * n_opt + [others[(seed + k * 3 + rng.randrange(2)) % len(others)] for k in range(n_other)]
    return [dict(rng.choice(pool), env=name) for name in names]


def env_compare(rec, ds, db, stage, exc, out, prop, case):
    """Environment stage: the same files through the same two commands in-process under the default settings; the
    outcome (which command failed, with which kind of exception) and the rows of the property's tables must be
    those of the child process run under rec['env']."""
    d0 = D.scratch(prop, 'cl_db_ref')
    db0, stage0, exc0 = run_commands({k: v for k, v in rec.items() if k != 'env'}, ds, d0, out)
    what = 'environment %s vs default in-process run' % rec['env']
    if stage0 != stage or type(exc0).__name__ != type(exc).__name__:
        out.violation('oracle', '%s: outcome differs: %s / %s under the variant, %s / %s by default'
                      % (what, stage, None if exc is None else '%s: %s' % (type(exc).__name__, exc), stage0,
                         None if exc0 is None else '%s: %s' % (type(exc0).__name__, exc0)), case=case)
        return
    if stage == 'load':
        return
    a, b = D.dump(db0, views=True), D.dump(db, views=True)
    diffs = E.diff_dumps({t: a.get(t, []) for t in ENV_TABLES[prop]}, {t: b.get(t, []) for t in ENV_TABLES[prop]})
    if diffs:
        out.violation('oracle', '%s: tables differ (default vs variant): %s' % (what, '; '.join(diffs)[:600]), case=case)
    other = E.diff_dumps({t: r for t, r in a.items() if t not in ENV_TABLES[prop]},
                         {t: r for t, r in b.items() if t not in ENV_TABLES[prop]})
    if other:
        out.count('env:%s:tables-of-other-properties-differ(%s)' % (rec['env'], ','.join(x.split(':')[0].split()[0] for x in other)[:80]))
    out.count('env:%s:compared-with-default' % rec['env'])


def label_hole(st, out):
    """Count datasets whose data-interval numbers (as stored by load) are not 1..n without a hole."""
    labels = [s['label'] for s in st]
    if len(labels) >= 2:
        out.count('labels>=2')
    if labels != list(range(1, len(labels) + 1)):
        out.count('labels-with-hole')
        return True
    return False


# ------------------------------------------------------------------ oracles

def runs_of(flags):
    out, n, i = [], len(flags), 0
    while i < n:
        if flags[i]:
            j = i
            while j < n and flags[j]:
                j += 1
            out.append((i, j))
            i = j
        else:
            i += 1
    return out


def is_maximal_run(flags, s, e):
    n = len(flags)
    return (0 <= s < e <= n and all(flags[s:e]) and (s == 0 or not flags[s - 1])
            and (e == n or not flags[e]))


def share_step(sp, rp):
    """a time step i inside the storm [s,e) and inside the rise (increments a..b-2)"""
    return max(sp[0], rp[0]) < min(sp[1], rp[1] - 1)


def window(flags, s, e, w=10):
    """The flags as 0/1, whole when short, else the samples around [s, e)."""
    if len(flags) <= 150:
        return [int(b) for b in flags]
    lo, hi = max(0, s - w), min(len(flags), e + w)
    return 'samples %d..%d of %d: %s' % (lo, hi - 1, len(flags), [int(b) for b in flags[lo:hi]])


def oracle_pairs(heavy, jumpf, pairs, tag):
    """Direct evaluation of C01/C02/C03 on recorded pairs [(storm, rise)] of one stretch.
    Returns list of (property, message, signature)."""
    probs = []
    storms = [p[0] for p in pairs]
    rises = [p[1] for p in pairs]
    if len(set(storms)) != len(storms):
        probs.append(('C01', '%s: a storm appears in two pairs: %s' % (tag, str(pairs)[:1500]), None))
    if len(set(rises)) != len(rises):
        probs.append(('C01', '%s: a rise appears in two pairs: %s' % (tag, str(pairs)[:1500]), None))
    for sp, rp in pairs:
        if not share_step(sp, rp):
            probs.append(('C01', '%s: pair storm %s / rise %s shares no time step' % (tag, sp, rp), None))
        if not is_maximal_run(heavy, sp[0], sp[1]):
            probs.append(('C03', '%s: recorded storm %s is not a maximal run of intensity > threshold '
                          '(flags %s)' % (tag, sp, window(heavy, sp[0], sp[1])), None))
        if not is_maximal_run(jumpf, rp[0], rp[1] - 1):
            probs.append(('C03', '%s: recorded rise %s is not a maximal run of increments > threshold '
                          'x step (flags %s)' % (tag, rp, window(jumpf, rp[0], rp[1] - 1)), None))
    # stability
    all_storms, all_rises = runs_of(heavy), [(a, b + 1) for a, b in runs_of(jumpf)]
    m_storm = {sp: rp for sp, rp in pairs}
    m_rise = {rp: sp for sp, rp in pairs}

    # (rises are disjoint and ascending: those sharing a step with a storm [s, e) are the ones with last increment
    # index > s and first increment index < e; found by bisection so that records of 10^4 samples stay cheap)
    r_first, r_last = [rp[0] for rp in all_rises], [rp[1] - 1 for rp in all_rises]

    def blocking(durkey):
        out = []
        for sp in all_storms:
            for rp in all_rises[bisect.bisect_right(r_last, sp[0]):bisect.bisect_left(r_first, sp[1])]:
                if not share_step(sp, rp) or m_storm.get(sp) == rp:
                    continue
                storm_gain = sp not in m_storm or durkey(sp, rp) < durkey(sp, m_storm[sp])
                rise_gain = rp not in m_rise or abs(rp[0] - sp[0]) < abs(rp[0] - m_rise[rp][0])
                if storm_gain and rise_gain:
                    out.append((sp, rp))
        return out
    code_key = lambda sp, rp: abs((sp[1] - sp[0]) - (rp[1] - rp[0]))          # noqa: E731
    step_key = lambda sp, rp: abs((sp[1] - sp[0]) - (rp[1] - rp[0] - 1))      # noqa: E731
    b_code = blocking(code_key)
    b_step = blocking(step_key)
    if b_code:
        probs.append(('C02', '%s: blocking pair %s (storm, rise) under the code\'s own keys; matching %s'
                      % (tag, b_code[0], str(pairs)[:1500]), None))
    elif b_step:
        probs.append(('C02', '%s: blocking pair %s under recorded durations (steps): the storm would get a '
                      'strictly closer duration and the rise a strictly closer start; matching %s'
                      % (tag, b_step[0], str(pairs)[:1500]), KNOWN_DUR))
    return probs


# ------------------------------------------------------------------ GS level

def gen_graph(rng, ties, small):
    ns = rng.randrange(1, 4 if small else 7)
    nj = rng.randrange(1, 4 if small else 7)
    storms = rng.sample(range(0, 40), ns)
    jumps = rng.sample(range(0, 40), nj)
    cands = {}
    for s in storms:
        k = rng.randrange(0, min(nj, 3 if small else nj) + 1)
        cands[s] = rng.sample(jumps, k)
    prefs = {}
    for j in jumps:
        adj = [s for s in storms if j in cands[s]]
        if ties:
            prefs[j] = {s: -rng.randrange(0, 3) for s in adj}
        else:
            qs = rng.sample(range(0, 50), len(adj))
            prefs[j] = {s: -q for s, q in zip(adj, qs)}
    return cands, prefs


def has_rise_ties(prefs):
    return any(len(set(p.values())) != len(p) for p in prefs.values())


def check_gs(cases, out, keep, prop, label):
    import spowtd.classify as cl
    strs_exact, meta_exact, strs_poss, meta_poss = [], [], [], []
    for cands, prefs in cases:
        out.evaluations += 1
        tie = has_rise_ties(prefs)
        out.count('GS-tie' if tie else 'GS-strict')
        case = dict(level='GS', cands={str(k): v for k, v in cands.items()},
                    prefs={str(k): {str(a): b for a, b in v.items()} for k, v in prefs.items()})
        try:
            m = cl.find_stable_matching(copy.deepcopy(cands), copy.deepcopy(prefs))
            res = ('ok', {int(k): int(v) for k, v in m.items()})
        except Exception as e:  # pylint: disable=broad-except
            res = ('err', C.err_of(e))
        if res[0] == 'err':
            if 'C01' in keep:
                out.violation('oracle', 'find_stable_matching raised %s on candidates %s preferences %s'
                              % (res[1], cands, prefs), case=case)
            impl = '(Err %s)' % res[1]
        else:
            m = res[1]
            # oracle: edges, one-to-one, no blocking pair (position form)
            inv = {}
            ok = True
            for j, s in m.items():
                if j not in cands.get(s, []):
                    ok = False
                    if 'C02' in keep:
                        out.violation('oracle', 'matched pair (rise %s, storm %s) is not a candidate edge' % (j, s), case=case)
                if s in inv and 'C01' in keep:
                    out.violation('oracle', 'storm %s matched to two rises: %s' % (s, m), case=case)
                inv[s] = j
            if ok and 'C02' in keep:
                for s, lst in cands.items():
                    for j in lst:
                        if m.get(j) == s:
                            continue
                        s_gain = s not in inv or lst.index(j) > lst.index(inv[s])
                        j_gain = j not in m or prefs[j][s] > prefs[j][m[j]]
                        if s_gain and j_gain:
                            out.violation('oracle', 'blocking pair (storm %s, rise %s) in matching %s for '
                                          'candidates %s preferences %s' % (s, j, m, cands, prefs), case=case)
            if len(m) >= 2 and any(len(v) >= 2 for v in cands.values()):
                out.nontriv(('gs', str(sorted(cands.items())), str(sorted((k, sorted(v.items())) for k, v in prefs.items()))))
            impl = '(Ok %s)' % C.clist([C.cpair(C.cnat(j), C.cnat(s)) for j, s in sorted(m.items())])
        cstr = C.clist(['(%s, %s)' % (C.cnat(s), C.cnats(list(reversed(l)))) for s, l in cands.items()])
        pstr = C.clist(['(%s, %s)' % (C.cnat(j), C.clist(['(%s, %s)' % (C.cnat(s), C.cZ(q)) for s, q in p.items()]))
                        for j, p in prefs.items()])
        line = '(%s, %s, %s)' % (cstr, pstr, impl)
        if tie:
            strs_poss.append(line)
            meta_poss.append(case)
        else:
            strs_exact.append(line)
            meta_exact.append(case)
    ty = 'list (nat * list nat) * list (nat * list (nat * Z)) * res (list (nat * nat))'
    bad, errs, _ = C.run_case_shards(
        prop, label + '_strict', PRE, ty,
        'fun c => match c with (cands, pt, impl) => agrees_on_fixed_schedules (pref_of_table pt) cands impl end',
        strs_exact)
    out.corr_errors += errs
    for i in bad:
        out.violation('corr', 'model stable_matching (3 schedules) <> find_stable_matching on %s'
                      % meta_exact[i], case=meta_exact[i])
    bad, errs, _ = C.run_case_shards(
        prop, label + '_ties', PRE, ty,
        'fun c => match c with (cands, pt, impl) => is_possible_outcome (pref_of_table pt) cands impl end',
        strs_poss, shard=100)
    out.corr_errors += errs
    for i in bad:
        out.violation('corr', 'find_stable_matching result is not among the model\'s outcomes over all '
                      'schedules on %s' % meta_poss[i], case=meta_poss[i])


# ------------------------------------------------------------------ GS level, large (oracle only)

def gen_chain_graph(rng, n, order='asc', flip=0.0):
    """Chain graph of n+1 storms (0..n) and n rises (0..n-1, numbered from 100000): storm i is a candidate of rises
    i-1 and i and prefers rise i; rise i prefers storm i+1; the last storm has rise n-1 only.  Whatever order the
    storms propose in, the stable matching is (storm i+1, rise i), reached by displacing storms down the chain (n
    links when the storms come in ascending order).  `flip`: share of links whose rise prefers its own storm (the
    chain falls into independent chains).  `order`: insertion order of the storms in the candidates dict."""
    J = 100000
    cands, prefs = {}, {}
    for i in range(n + 1):
        lst = ([J + i - 1] if i >= 1 else []) + ([J + i] if i < n else [])         # worst first, best last
        cands[i] = lst
    for i in range(n):
        a, b = rng.sample(range(1, 60), 2)
        lo, hi = -max(a, b), -min(a, b)
        prefs[J + i] = {i: hi, i + 1: lo} if rng.random() < flip else {i: lo, i + 1: hi}
    keys = list(cands)
    if order == 'desc':
        keys.reverse()
    elif order == 'shuffled':
        rng.shuffle(keys)
    return {k: cands[k] for k in keys}, prefs


def check_gs_large(cases, out, keep, prop):
    """find_stable_matching on large graphs, judged by the oracle alone (candidate edges, one-to-one, no blocking
    pair; linear in the number of edges).  Not sent to Coq: reading thousands of literals would dominate."""
    import spowtd.classify as cl
    for spec in cases:
        out.evaluations += 1
        out.count('GS-large:%s(n=%d..)' % (spec['order'], spec['n'] // 1000 * 1000))
        case = dict(level='GS-large', spec=spec)
        cands, prefs = gen_chain_graph(C.rng_for(0, 'chain-graph', spec['rseed']), spec['n'], spec['order'], spec['flip'])
        try:
            m = cl.find_stable_matching(copy.deepcopy(cands), copy.deepcopy(prefs))
            m = {int(k): int(v) for k, v in m.items()}
        except Exception as e:  # pylint: disable=broad-except
            if 'C01' in keep:
                out.violation('oracle', 'find_stable_matching raised %s: %s on a chain of %d storms and %d rises (storm i '
                              'candidate of rises i-1, i; insertion order %s)'
                              % (type(e).__name__, str(e)[:200], spec['n'] + 1, spec['n'], spec['order']), case=case)
            continue
        inv, ok = {}, True
        for j, st in m.items():
            if j not in cands.get(st, []):
                ok = False
                if 'C02' in keep:
                    out.violation('oracle', 'large chain graph: matched pair (rise %s, storm %s) is not a candidate edge' % (j, st), case=case)
            if st in inv and 'C01' in keep:
                out.violation('oracle', 'large chain graph: storm %s matched to two rises (%s, %s)' % (st, inv[st], j), case=case)
            inv[st] = j
        if ok and 'C02' in keep:
            for st, lst in cands.items():
                for j in lst:
                    if m.get(j) == st:
                        continue
                    s_gain = st not in inv or lst.index(j) > lst.index(inv[st])
                    j_gain = j not in m or prefs[j][st] > prefs[j][m[j]]
                    if s_gain and j_gain:
                        out.violation('oracle', 'large chain graph (%d links, order %s): blocking pair (storm %s, rise %s)'
                                      % (spec['n'], spec['order'], st, j), case=case)
                        break
        if len(m) >= 2:
            out.nontriv(('gs-large', spec['n'], spec['order'], spec['rseed']))


def chain_graph_specs(rng, sizes):
    return [dict(n=n, order=order, flip=flip, rseed=rng.getrandbits(40))
            for n, order, flip in zip(sizes, ['asc', 'shuffled', 'desc', 'asc', 'shuffled'] * 4, [0.0, 0.0, 0.0, 0.002, 0.01] * 4)]


# ------------------------------------------------------------------ MS level

def flags_of(rain, head, thr_s, delta):
    heavy = [r > thr_s for r in rain]
    jumpf = [(head[i + 1] - head[i]) > delta for i in range(len(head) - 1)]
    return heavy, jumpf


def rise_ties(heavy, jumpf):
    storms, rises = runs_of(heavy), [(a, b + 1) for a, b in runs_of(jumpf)]
    for rp in rises:
        ds = [abs(rp[0] - sp[0]) for sp in storms if share_step(sp, rp)]
        if len(set(ds)) != len(ds):
            return True
    return False


def graph_size(heavy, jumpf):
    storms, rises = runs_of(heavy), [(a, b + 1) for a, b in runs_of(jumpf)]
    edges = sum(1 for sp in storms for rp in rises if share_step(sp, rp))
    ns = sum(1 for sp in storms if any(share_step(sp, rp) for rp in rises))
    return ns, edges


def impl_match_storms(rain, head, thr_s, delta):
    import spowtd.classify as cl
    try:
        ri, hi = cl.match_storms(np.array(rain, dtype=float), np.array(head, dtype=float), thr_s, delta)
        return ('ok', [((int(a), int(b)), (int(c), int(d))) for (a, b), (c, d) in zip(ri, hi)])
    except Exception as e:  # pylint: disable=broad-except
        return ('err', C.err_of(e), repr(e))


def pairs_lit(pairs):
    return C.clist(['((%s, %s), (%s, %s))' % (C.cnat(a), C.cnat(b), C.cnat(c), C.cnat(d))
                    for (a, b), (c, d) in pairs])


class MSBatch:
    """Collects data-level cases (from MS or CL) for one Coq evaluation."""

    def __init__(self):
        self.exact, self.exact_meta, self.poss, self.poss_meta, self.skipped = [], [], [], [], 0

    def add(self, rain, head, thr_s, delta, res, case, out):
        heavy, jumpf = flags_of(rain, head, thr_s, delta)
        impl = '(Ok %s)' % pairs_lit(res[1]) if res[0] == 'ok' else '(Err %s)' % res[1]
        line = '(%s, %s, %s, %s, %s)' % (C.cfloat(thr_s), C.cfloat(delta), C.cfloats(rain), C.cfloats(head), impl)
        if rise_ties(heavy, jumpf):
            ns, edges = graph_size(heavy, jumpf)
            if ns <= 3 and edges <= 8:
                self.poss.append(line)
                self.poss_meta.append(case)
                out.count('data-tie-enumerated')
            else:
                self.skipped += 1
                out.count('data-tie-too-big-for-enumeration(oracle only)')
        else:
            self.exact.append(line)
            self.exact_meta.append(case)
            out.count('data-strict')

    def run(self, prop, label, out):
        ty = 'float * float * list float * list float * res (list ((nat * nat) * (nat * nat)))'
        bad, errs, _ = C.run_case_shards(
            prop, label + '_strict', PRE, ty,
            'fun c => match c with (ts, d, rain, head, impl) => data_agrees_on_fixed_schedules ts d rain head impl end',
            self.exact)
        out.corr_errors += errs
        for i in bad:
            out.violation('corr', 'model match_storms_data (3 schedules) <> implementation on %s'
                          % str(self.exact_meta[i])[:600], case=self.exact_meta[i])
        bad, errs, _ = C.run_case_shards(
            prop, label + '_ties', PRE, ty,
            'fun c => match c with (ts, d, rain, head, impl) => data_possible_outcome ts d rain head impl end',
            self.poss, shard=100)
        out.corr_errors += errs
        for i in bad:
            out.violation('corr', 'implementation result is not among the model\'s outcomes over all schedules '
                          'on %s' % str(self.poss_meta[i])[:600], case=self.poss_meta[i])


def nontrivial_matching(heavy, jumpf, pairs):
    """contention: some storm or rise has >= 2 candidates, and >= 1 pair recorded"""
    storms, rises = runs_of(heavy), [(a, b + 1) for a, b in runs_of(jumpf)]
    deg_s = [sum(1 for rp in rises if share_step(sp, rp)) for sp in storms]
    deg_r = [sum(1 for sp in storms if share_step(sp, rp)) for rp in rises]
    return bool(pairs) and (max(deg_s + [0]) >= 2 or max(deg_r + [0]) >= 2)


def flags_key(tag, heavy, jumpf):
    """Key of a case for the count of distinct non-trivial cases: the flag vectors, hashed when long."""
    if len(heavy) <= 200:
        return (tag, tuple(heavy), tuple(jumpf))
    return (tag + '-large', len(heavy), hashlib.sha256(bytes(heavy) + b'/' + bytes(jumpf)).hexdigest()[:16])


def check_ms(recs, out, keep, prop, label, coq=True):
    """coq=False: large records (compact specs, G.expand), judged by the oracle alone."""
    batch = MSBatch()
    for rec in recs:
        out.evaluations += 1
        out.count('MS:' + rec['cls'])
        full = G.expand(rec)
        rain, head = full['rain'], full['zeta']
        thr_s = rec['thr_s']
        delta = rec['thr_j'] * (rec['step'] / 3600.0)
        big = 'big' in rec
        case = dict(level='MS', rec=rec) if big else dict(level='MS', rain=rain, head=head, thr_s=thr_s, delta=delta)
        show = ('%d samples of class %s' % (len(rain), rec['cls'])) if big else 'rain=%s head=%s' % (rain, head)
        res = impl_match_storms(rain, head, thr_s, delta)
        heavy, jumpf = flags_of(rain, head, thr_s, delta)
        if big:
            out.count('MS-large:%s:storms' % rec['cls'], len(runs_of(heavy)))
            out.count('MS-large:%s:samples' % rec['cls'], len(rain))
        if res[0] == 'err':
            if 'C01' in keep:
                out.violation('oracle', 'match_storms raised %s on %s thresholds (%s, %s)'
                              % (res[2][:300], show, thr_s, delta), case=case)
        else:
            for p, msg, sig in oracle_pairs(heavy, jumpf, res[1], 'match_storms'):
                if p in keep:
                    out.violation('oracle', msg[:2500] + ' | %s thr=(%s,%s)' % (show, thr_s, delta),
                                  case=case, signature=sig)
            if nontrivial_matching(heavy, jumpf, res[1]):
                out.nontriv(flags_key('ms', heavy, jumpf))
            if heavy and heavy[0]:
                out.count('starts-in-heavy-rain')
            if heavy and heavy[-1]:
                out.count('ends-in-heavy-rain')
            if jumpf and jumpf[0]:
                out.count('starts-in-rise')
            if jumpf and jumpf[-1]:
                out.count('ends-in-rise')
            if len(res[1]) < len([s for s in runs_of(heavy)
                                  if any(share_step(s, (a, b + 1)) for a, b in runs_of(jumpf))]):
                out.count('a-storm-with-candidates-left-unmatched')
        if coq and not big:
            batch.add(rain, head, thr_s, delta, res, case, out)
    batch.run(prop, label, out)


# ------------------------------------------------------------------ CL level

def read_matching(db):
    con = sqlite3.connect(db)
    try:
        storms = dict(con.execute('SELECT start_epoch, thru_epoch FROM storm'))
        zi = {r[0]: (r[1], r[2]) for r in con.execute('SELECT start_epoch, interval_type, thru_epoch FROM zeta_interval')}
        zis = con.execute('SELECT interval_start_epoch, interval_type, storm_start_epoch FROM zeta_interval_storm').fetchall()
        depth = dict(con.execute('SELECT storm_start_epoch, total_depth_mm FROM storm_total_rain_depth'))
        rainrows = con.execute('SELECT from_epoch, thru_epoch, rainfall_intensity_mm_h FROM rainfall_intensity ORDER BY from_epoch').fetchall()
        thr = con.execute('SELECT storm_rain_threshold_mm_h, rising_jump_threshold_mm_h FROM thresholds').fetchall()
    finally:
        con.close()
    return storms, zi, zis, depth, rainrows, thr



# ------------------------------------------------------------------ CL level: the whole command

ITYPE = {'storm': 'TStorm', 'interstorm': 'TInterstorm'}


def read_command_tables(db):
    """Full contents of the five tables the command writes."""
    con = sqlite3.connect(db)
    try:
        return dict(
            thresholds=con.execute('SELECT storm_rain_threshold_mm_h, rising_jump_threshold_mm_h FROM thresholds').fetchall(),
            flags=con.execute('SELECT start_epoch, is_jump, is_mystery_jump, is_interstorm FROM grid_time_flags').fetchall(),
            storm=con.execute('SELECT start_epoch, thru_epoch FROM storm').fetchall(),
            zi=con.execute('SELECT start_epoch, interval_type, thru_epoch FROM zeta_interval').fetchall(),
            link=con.execute('SELECT interval_start_epoch, interval_type, storm_start_epoch FROM zeta_interval_storm').fetchall())
    finally:
        con.close()


def command_rows_lit(t):
    """The tables as a Coq `command_rows`; None when a row cannot be written in the model's types."""
    if any(r[1] not in ITYPE for r in t['zi'] + t['link']) or any(v is None for r in t['thresholds'] for v in r) \
            or any(x not in (0, 1) for r in t['flags'] for x in r[1:]):
        return None
    trip = lambda rows: C.clist(['(%s, %s, %s)' % (C.cZ(a), ITYPE[ty], C.cZ(b)) for a, ty, b in rows])   # noqa: E731
    return ('{| c_thresholds := %s; c_flags := %s; c_storm := %s; c_zeta_interval := %s; c_link := %s |}' % (
        C.clist(['(%s, %s)' % (C.cfloat(a), C.cfloat(b)) for a, b in t['thresholds']]),
        C.clist(['(%s, (%s, %s, %s))' % (C.cZ(e), C.cbool(bool(a)), C.cbool(bool(b)), C.cbool(bool(c)))
                 for e, a, b, c in t['flags']]),
        C.clist(['(%s, %s)' % (C.cZ(a), C.cZ(b)) for a, b in t['storm']]), trip(t['zi']), trip(t['link'])))


def stretch_lit(s):
    return 'mkStretch %s %s %s %s' % (C.cZ(s['label']), C.cZs(s['epoch']), C.cfloats(s['rain']), C.cfloats(s['zeta']))


def py_loaded_ok(step, st):
    """`loaded_ok` of Model/ClassifyCommand.v, re-evaluated here only to word the message."""
    if step <= 0:
        return 'time step %s is not positive' % step
    for s in st:
        ep = s['epoch']
        if any(b != a + step for a, b in zip(ep, ep[1:])):
            return 'epochs of stretch %s are not one step apart: %s' % (s['label'], ep)
        if len(s['rain']) != len(ep) or len(s['zeta']) != len(ep):
            return 'stretch %s: %d epochs, %d rain values, %d levels' % (s['label'], len(ep), len(s['rain']), len(s['zeta']))
    allep = [e for s in st for e in s['epoch']]
    if any(b <= a for a, b in zip(allep, allep[1:])):
        return 'epochs of the stretches taken in label order are not increasing'
    labels = [s['label'] for s in st]
    if any(b <= a for a, b in zip(labels, labels[1:])):
        return 'labels not increasing: %s' % labels
    return None


class CommandBatch:
    """Whole-command cases: one per dataset, (step, thresholds, stretches, tables | error kind)."""

    TY = 'Z * float * float * list stretch * res command_rows'

    def __init__(self):
        self.exact, self.exact_meta, self.ties, self.ties_meta = [], [], [], []

    def add(self, db, thr_s, thr_j, exc, case, out, note=''):
        st, step = D.stretches(db)
        nsamp = sum(len(s['epoch']) for s in st)
        if nsamp > CMD_CAP:
            out.count('command:too-big-for-coq(skipped)')
            return
        why = py_loaded_ok(step, st)
        if why:
            out.violation('corr', 'whole command: a dataset that loads lacks the structure the command-level theorems '
                          'assume (loaded_ok): %s' % why, case=case)
        if exc is None:
            tabs = read_command_tables(db)
            lit = command_rows_lit(tabs)
            if lit is None:
                out.violation('corr', 'whole command: tables hold a row outside the model\'s types (interval type / NULL '
                              'threshold / non-boolean flag): %s' % str(tabs)[:400], case=case)
                return
            impl = '(Ok %s)' % lit
        else:
            impl = '(Err %s)' % C.err_of(exc)
            out.count('command:classify-raised-' + type(exc).__name__)
        delta = thr_j * (step / 3600.0)
        tie = any(rise_ties(*flags_of(s['rain'], s['zeta'], thr_s, delta)) for s in st if s['epoch'])
        line = '(%s, %s, %s, %s, %s)' % (C.cZ(step), C.cfloat(thr_s), C.cfloat(thr_j),
                                         C.clist([stretch_lit(s) for s in st]), impl)
        meta = dict(case=case, note=note, step=step, impl=impl[:60])
        if tie:
            self.ties.append(line)
            self.ties_meta.append(meta)
            out.count('command:ties(flags and interstorm rows compared)')
        else:
            self.exact.append(line)
            self.exact_meta.append(meta)
            out.count('command:all-tables-compared')
        # what the theorems are about: several stretches, stretches one step apart, a storm to the end of a stretch
        live = [s for s in st if s['epoch']]
        out.count('command:stretches=%s' % (len(live) if len(live) < 4 else '4+'))
        if any(not s['epoch'] for s in st):
            out.count('command:empty-stretch(closing instant only)')
        if any(len(s['epoch']) == 1 for s in st):
            out.count('command:single-sample-stretch')
        if any(b['epoch'][0] - a['epoch'][-1] == step for a, b in zip(live, live[1:])):
            out.count('command:stretches-exactly-one-step-apart')
        if exc is None:
            ends = {s['epoch'][-1] + step for s in live}
            if any(b in ends for _, b in tabs['storm']):
                out.count('command:storm-closing-at-end-of-stretch')
            if len(live) >= 2 and tabs['link']:
                out.nontriv(('command', str(sorted(tabs['link']))[:200], len(live)))

    def run(self, prop, label, out):
        for lines, metas, fn, what in (
                (self.exact, self.exact_meta, 'command_case',
                 'thresholds, grid_time_flags, storm, zeta_interval, zeta_interval_storm as sets of rows, 3 schedules'),
                (self.ties, self.ties_meta, 'command_case_ties',
                 'thresholds, grid_time_flags and interstorm rows; ties make the pairs depend on the pop order')):
            bad, errs, _ = C.run_case_shards(prop, label + '_' + fn, PRE_CMD, self.TY, fn, lines, shard=60)
            out.corr_errors += errs
            for i in bad:
                m = metas[i]
                out.violation('corr', 'whole command: model classify_command <> what `spowtd classify` left in the '
                              'database (%s; implementation: %s%s)' % (what, m['impl'], m['note']), case=m['case'])


# ------------------------------------------------------------------ boundary probes of the command (C01)

PROBE_T0 = 1361318400
_GRID_LEVELS = [0.0, 0.0, 10.0, 20.0, 30.0, 29.0, 28.0, 27.0, 26.0]
PROBES = {
    # water level every 20 min on an hourly grid, one reading missing (T0+8400): stretch 1 = grid instants 0..2,
    # stretch 2 = grid instants 3.. , exactly ONE step apart; the storm of stretch 1 runs to its last sample and
    # closes at T0+10800, the instant at which stretch 2 begins in a storm (two storm rows contiguous in time)
    'stretches-one-step-apart': dict(
        rain=[(PROBE_T0 + 3600 * k, v) for k, v in enumerate([0.0, 9.0, 9.0, 9.0, 0.5, 0.0, 0.0, 0.0])],
        wl=[(PROBE_T0 + 1200 * j, _GRID_LEVELS[j // 3] + (j % 3) / 3.0 * (_GRID_LEVELS[min(8, j // 3 + 1)] - _GRID_LEVELS[j // 3]))
            for j in range(25) if j != 7], thr=(4.0, 1.0), sig=None),
    # the water level resumes exactly at the closing instant of the grid: the only data interval with a grid
    # instant holds that instant alone (no rainfall step, no level): classify commits the thresholds row only
    'closing-instant-only': dict(
        rain=[(PROBE_T0 + 1000 * k, 0.0) for k in range(1, 5)],
        wl=[(PROBE_T0 + t, 1.0) for t in (0, 100, 200, 5000, 5100, 5200)], thr=(4.0, 8.0), sig=None),
    # rainfall hourly-ish inside an outage of the water level: every data interval is empty, no grid instant is
    # labelled; `load` accepts, `classify` raises ValueError('No valid data intervals found')
    'no-data-interval': dict(
        rain=[(PROBE_T0 + 1000 * k, 0.0) for k in range(1, 5)],
        wl=[(PROBE_T0 + t, 1.0) for t in (0, 100, 200, 5001, 5101, 5201)], thr=(4.0, 8.0), sig='C01/no-data-interval'),
    # a water level that SQLite reads as +Inf: `load` accepts, `classify` fails `assert np.isfinite(zeta_mm).all()`
    'infinite-level': dict(
        rain=[(PROBE_T0 + 3600 * k, 0.0) for k in range(6)],
        wl=[(PROBE_T0 + 3600 * k, '1e999' if k == 2 else 1.0) for k in range(7)], thr=(4.0, 8.0), sig='C01/infinite-level'),
    # a NaN threshold (outside the property: "positive finite thresholds"): sqlite3 binds NaN as NULL, NOT NULL fails
    'nan-threshold': dict(
        rain=[(PROBE_T0 + 3600 * k, 0.0) for k in range(6)],
        wl=[(PROBE_T0 + 3600 * k, 1.0) for k in range(7)], thr=(float('nan'), 8.0), sig=None),
}


def _listed(signature):
    import json
    import os
    try:
        return any(k.get('signature') == signature
                   for k in json.load(open(os.path.join(C.VERIF, 'known_findings.json'))).get('findings', []))
    except (OSError, ValueError):
        return False


def command_probes(out, prop, label='probe', names=None):
    """Datasets at the edge of C01's quantifier ("every dataset that loads"): the model's refusals
    (Err EValue / EAssert / EIntegrity, theorems C01_command_no_interval, Example C01_command_refusals) against the
    exception the real command raises.  The two datasets that load and on which classify then fails are reported
    as oracle violations only once the lead lists their signature in known_findings.json (notes/C01.md)."""
    cmd = CommandBatch()
    for name in (names or sorted(PROBES)):
        pr = PROBES[name]
        step = pr['rain'][1][0] - pr['rain'][0][0]
        et = [(t, 0.1) for t, _ in pr['rain']] + [(pr['rain'][-1][0] + step, 0.1)]
        d = D.scratch(prop, 'probe_db')
        db, rc, exc = D.load(D.Dataset(pr['rain'], et, pr['wl']), d)
        out.evaluations += 1
        case = dict(level='probe', name=name)
        if exc is not None:
            out.count('boundary:%s:load-refused' % name)
            continue
        with logging_restored():
            rc, exc, _ = D.cli(['classify', db, '-s', repr(pr['thr'][0]), '-j', repr(pr['thr'][1])])
        out.count('boundary:%s:%s' % (name, type(exc).__name__ if exc is not None else 'classified'))
        cmd.add(db, pr['thr'][0], pr['thr'][1], exc, case, out, note='; boundary probe ' + name)
        if exc is not None and pr['sig'] and _listed(pr['sig']):
            out.violation('oracle', 'the dataset of boundary probe %s loads, and classify fails with %s: %s'
                          % (name, type(exc).__name__, exc), case=case, signature=pr['sig'])
    cmd.run(prop, label, out)


def source_gaps(wl):
    """Gaps of the water-level record AS WRITTEN to the input file: pairs (last reading before, first reading after)
    of consecutive readings further apart than the record's own sampling interval (its smallest spacing)."""
    ts = sorted({int(t) for t, _ in wl})
    if len(ts) < 2:
        return []
    m = min(b - a for a, b in zip(ts, ts[1:]))
    return [(a, b) for a, b in zip(ts, ts[1:]) if b - a > m]


def oracle_source_gaps(ds, step, storms, zi, out):
    """C03, last clause of the first sentence, evaluated against the input file rather than against the labels `load`
    stored: no recorded storm has a time step starting strictly inside a gap of the water-level record or steps on
    both sides of one; no recorded rise has a sample strictly inside a gap or samples on both sides of one."""
    gaps, probs = source_gaps(ds.wl), []
    if not gaps:
        return probs
    out.count('source-gaps-checked', len(gaps))
    g0 = ds.rain[0][0]
    if any((lo - g0) % step for lo, _ in gaps):
        out.count('source-gap-opens-at-a-reading-off-the-rainfall-grid')
    if any((hi - g0) % step for _, hi in gaps):
        out.count('source-gap-closes-at-a-reading-off-the-rainfall-grid')
    for lo, hi in gaps:
        for a, b in sorted(storms.items()):
            if a < hi and b - step > lo:
                probs.append('storm [%s, %s) has steps starting at %s..%s, inside or across the gap (%s, %s) between two '
                             'consecutive water-level readings of the input file' % (a, b, a, b - step, lo, hi))
            elif b - step <= lo < b:
                out.count('storm-closing-at-the-last-grid-instant-before-a-source-gap')
        for a, (ty, b) in sorted(zi.items()):
            if ty == 'storm' and a < hi and b > lo:
                probs.append('rise [%s, %s] has samples inside or across the gap (%s, %s) between two consecutive '
                             'water-level readings of the input file' % (a, b, lo, hi))
            elif ty == 'storm' and lo - step < b <= lo:
                out.count('rise-ending-at-the-last-grid-instant-before-a-source-gap')
            elif ty == 'storm' and hi <= a < hi + step:
                out.count('rise-starting-at-the-first-grid-instant-after-a-source-gap')
    return probs


def count_foot(recs, out):
    """What the 'foot' records (G.gen_foot_record) exercise."""
    for rec in recs:
        out.count('foot:threshold-x-step-has-%d-roundings' % rec.get('products', 0))
        out.count('foot:boundary-increments-realised-exactly', rec.get('edge_exact', 0))


def check_cl(recs, out, keep, prop, label, coq=True):
    """coq=False: large records (compact specs), judged by the oracle alone - nothing is sent to Coq.
    Records carrying rec['env'] are processed in a child process under that environment variant (run_commands),
    judged like every other record, and compared table by table with the default in-process run (env_compare)."""
    batch = MSBatch()
    cmd = CommandBatch()
    depth_cases, depth_meta = [], []
    for k, rec in enumerate(recs):
        rec = with_verbosity(rec, k)
        out.evaluations += 1
        out.count('CL:' + rec['cls'])
        if rec.get('far'):
            out.count('CL-far-origin:' + G.far_kind(rec))
        if rec.get('fine', 1) > 1:
            out.count('CL-fine-water-level(x%d)%s' % (rec['fine'], '+island' if rec.get('island') else ''))
            if rec.get('run_in'):
                out.count('CL-fine:heavy-rain-and-rise-run-into-and-out-of-an-outage', rec['run_in'])
        d = D.scratch(prop, 'cl_db')
        ds = G.to_dataset(rec)
        case = dict(level='CL', rec=rec, coq=coq)
        db, stage, exc = run_commands(rec, ds, d, out)
        if rec.get('env'):
            env_compare(rec, ds, db, stage, exc, out, prop, case)
        if stage == 'load':
            out.count('CL-load-refused')
            continue
        if coq:
            cmd.add(db, rec['thr_s'], rec['thr_j'], exc, case, out)
        if exc is not None:
            if 'C01' in keep:
                out.violation('oracle', 'classify failed with %s: %s on a dataset that loads (class %s, %s'
                              'thresholds %s / %s%s)' % (type(exc).__name__, str(exc)[:300], rec['cls'],
                                                         ('%d samples, ' % len(ds.wl)) if 'big' in rec else '',
                                                         rec['thr_s'], rec['thr_j'],
                                                         (', origin %s' % D.fmt_utc(rec['t0'])) if rec.get('far') else '')
                              + ('; environment %s' % rec['env'] if rec.get('env') else ''),
                              case=case)
            continue
        st, step = D.stretches(db)
        if 'big' in rec:
            out.count('CL-large:%s:samples' % rec['cls'], sum(len(x['epoch']) for x in st))
        label_hole(st, out)
        storms, zi, zis, depth, rainrows, thr = read_matching(db)
        delta = rec['thr_j'] * (step / 3600.0)
        if thr != [(rec['thr_s'], rec['thr_j'])] and 'C01' in keep:
            out.violation('oracle', 'thresholds table %s does not hold the thresholds given' % thr, case=case)
        used_storms, used_links = set(), set()
        for s in st:
            ep, rain, zeta = s['epoch'], s['rain'], s['zeta']
            if not ep:
                continue
            idx = {e: i for i, e in enumerate(ep)}
            pairs = []
            for istart, itype, sstart in zis:
                if sstart in idx:
                    used_links.add(istart)
                    used_storms.add(sstart)
                    if istart not in idx or istart not in zi or zi[istart][0] != 'storm' or zi[istart][1] not in idx \
                            or sstart not in storms:
                        if 'C03' in keep:
                            out.violation('oracle', 'pairing row (%s, %s) does not reference a rise / storm '
                                          'of the same gap-free stretch' % (istart, sstart), case=case)
                        continue
                    e_idx = (storms[sstart] - ep[0]) // step
                    if (storms[sstart] - ep[0]) % step or e_idx > len(ep):
                        if 'C03' in keep:
                            out.violation('oracle', 'storm %s closes at %s: off the grid or beyond its '
                                          'stretch' % (sstart, storms[sstart]), case=case)
                        continue
                    pairs.append(((idx[sstart], e_idx), (idx[istart], idx[zi[istart][1]] + 1)))
            heavy, jumpf = flags_of(rain, zeta, rec['thr_s'], delta)
            for p, msg, sig in oracle_pairs(heavy, jumpf, pairs, 'classify tables, stretch %s' % s['label']):
                if p in keep:
                    out.violation('oracle', msg, case=case, signature=sig)
            if nontrivial_matching(heavy, jumpf, pairs):
                out.nontriv(flags_key('cl', heavy, jumpf))
            if 'big' in rec:
                out.count('CL-large:%s:storms' % rec['cls'], len(runs_of(heavy)))
                out.count('CL-large:%s:pairs' % rec['cls'], len(pairs))
                cuts = G.block_edges(len(ep), margin=1)
                out.count('CL-large:storm-or-rise-across-a-block-edge',
                          sum(1 for p in cuts if (heavy[p - 1] and heavy[p]) or (p < len(jumpf) and jumpf[p - 1] and jumpf[p])))
            if coq:
                batch.add(rain, zeta, rec['thr_s'], delta, ('ok', pairs), case, out)
            # depth view (C03)
            if 'C03' in keep:
                for (sp, _) in pairs:
                    sstart = ep[sp[0]]
                    want = sum(Fraction(rain[i]) * step / 3600 for i in range(sp[0], sp[1]))
                    got = depth.get(sstart)
                    if got is None or abs(Fraction(got) - want) > Fraction(1, 10**9) * (1 + abs(want)):
                        out.violation('oracle', 'rain depth of storm at %s is %s, but intensity x step summed over '
                                      'its steps %s..%s is %s' % (sstart, got, sp[0], sp[1] - 1, float(want)), case=case)
                    elif coq:
                        rows = C.clist(['{| r_from := %s; r_thru := %s; r_mm_h := %s |}' % (C.cZ(a), C.cZ(b), C.cQ(v))
                                        for a, b, v in rainrows])
                        depth_cases.append('(%s, %s, %s, %s)' % (C.cZ(sstart), C.cZ(storms[sstart]), rows, C.cQ(got)))
                        depth_meta.append(case)
        if 'C03' in keep:
            for msg in oracle_source_gaps(ds, step, storms, zi, out):
                out.violation('oracle', msg, case=case)
        stray = [s for s in storms if s not in used_storms]
        if stray and 'C03' in keep:
            out.violation('oracle', 'storm rows %s start outside every gap-free stretch or are not paired' % stray, case=case)
        stray = [s for s, (t, _) in zi.items() if t == 'storm' and s not in used_links]
        if stray and 'C03' in keep:
            out.violation('oracle', 'rise rows %s are not paired with a storm' % stray, case=case)
    batch.run(prop, label, out)
    cmd.run(prop, label, out)
    if depth_cases:
        bad, errs, _ = C.run_case_shards(
            prop, label + '_depth', PRE, 'Z * Z * list rain_row * Q',
            'fun c => match c with (a, b, rows, impl) => '
            'Qle_bool (Qabs (view_depth a b rows - impl)%Q) ((1 # 1000000000) * (1 + Qabs impl))%Q end',
            depth_cases, shard=150)
        out.corr_errors += errs
        for i in bad:
            out.violation('corr', 'model view_depth <> storm_total_rain_depth', case=depth_meta[i])
        out.count('depth-view-cases', len(depth_cases))


def replay_case(case, out, keep, prop):
    if case['level'] == 'GS':
        cands = {int(k): v for k, v in case['cands'].items()}
        prefs = {int(k): {int(a): b for a, b in v.items()} for k, v in case['prefs'].items()}
        check_gs([(cands, prefs)], out, keep, prop, 'replay')
    elif case['level'] == 'MS' and 'rec' in case:
        check_ms([case['rec']], out, keep, prop, 'replay', coq=False)
    elif case['level'] == 'MS':
        rec = dict(cls='replay', rain=case['rain'], zeta=case['head'], thr_s=case['thr_s'], thr_j=case['delta'], step=3600)
        check_ms([rec], out, keep, prop, 'replay')
    elif case['level'] == 'probe':
        command_probes(out, prop, 'replay', [case['name']])
    elif case['level'] == 'GS-large':
        check_gs_large([case['spec']], out, keep, prop)
    else:
        check_cl([case['rec']], out, keep, prop, 'replay', coq=case.get('coq', True))
