"""Fail-closed translator: Python source of the tree under test -> Gallina text.

Second tie between model and code (the first is the correspondence check): for
the plain-Python state-machine loop `classify.get_mystery_jump_mask` the Gallina
definition is REGENERATED from the current source on every run
(coq/Generated/MysteryGen.v, never committed), and the fixed proof file
coq/Proofs/MysteryGenSpec.v proves that the generated function equals the
hand-written model `Mystery.mystery_from true` for all inputs and that the
function's own closing assertions can never fail.  A change of the loop that
alters its meaning breaks that proof (or the translation itself: anything outside
the accepted shape is refused, never guessed); the C04 theorems are then no
longer about the code.

Accepted shape of the function (checked on the `ast`, everything else refused):

    assert_equal(len(A), len(B))                  # optional guards (asserts on lengths)
    M = np.zeros(len(A), bool)
    S = <True|False>                              # the state
    for i in range(len(M)):                       # (a pylint comment may precede)
        <body: if / else over A[i], B[i], S; assignments S = True | False | S | A[i] ...>
        M[i] = S
    assert ... ; assert ...                       # closing assertions: recorded, proved separately
    return M

The body is executed symbolically: the value of S after the body is a Gallina
boolean expression in (S, A_i, B_i).
"""
import ast
import os

from harness import common as C

GEN_DIR = os.path.join(C.COQ, 'Generated')


class Refused(Exception):
    pass


def _name(node):
    return node.id if isinstance(node, ast.Name) else None


class _Sym:
    """Symbolic execution of the loop body over booleans."""

    def __init__(self, state, arrays, index):
        self.state, self.arrays, self.index = state, arrays, index

    def expr(self, node, env):
        if isinstance(node, ast.Constant) and isinstance(node.value, bool):
            return 'true' if node.value else 'false'
        if isinstance(node, ast.Name):
            if node.id == self.state:
                return env
            raise Refused('name %r in an expression' % node.id)
        if isinstance(node, ast.Subscript) and _name(node.value) in self.arrays and _name(node.slice) == self.index:
            return self.arrays[_name(node.value)]
        if isinstance(node, ast.UnaryOp) and isinstance(node.op, ast.Not):
            return '(negb %s)' % self.expr(node.operand, env)
        if isinstance(node, ast.BoolOp):
            op = 'andb' if isinstance(node.op, ast.And) else 'orb'
            vals = [self.expr(v, env) for v in node.values]
            out = vals[0]
            for v in vals[1:]:
                out = '(%s %s %s)' % (op, out, v)
            return out
        raise Refused('expression %s' % ast.dump(node)[:80])

    def block(self, stmts, env):
        for st in stmts:
            env = self.stmt(st, env)
        return env

    def stmt(self, st, env):
        if isinstance(st, ast.Assign) and len(st.targets) == 1 and _name(st.targets[0]) == self.state:
            return self.expr(st.value, env)
        if isinstance(st, ast.If):
            c = self.expr(st.test, env)
            a = self.block(st.body, env)
            b = self.block(st.orelse, env)
            return '(if %s then %s else %s)' % (c, a, b)
        if isinstance(st, ast.Pass):
            return env
        raise Refused('statement %s' % ast.dump(st)[:80])


def translate_mystery(source):
    """Return the text of Generated/MysteryGen.v for the given classify.py source."""
    tree = ast.parse(source)
    fn = next((n for n in tree.body if isinstance(n, ast.FunctionDef) and n.name == 'get_mystery_jump_mask'), None)
    if fn is None:
        raise Refused('function get_mystery_jump_mask not found')
    args = [a.arg for a in fn.args.args]
    if len(args) != 2 or fn.args.vararg or fn.args.kwarg or fn.args.kwonlyargs or fn.args.defaults:
        raise Refused('signature %r' % args)
    a_jump, a_rain = args
    body = list(fn.body)
    if body and isinstance(body[0], ast.Expr) and isinstance(body[0].value, ast.Constant):
        body = body[1:]   # docstring
    guards = []
    while body and (isinstance(body[0], ast.Assert) or
                    (isinstance(body[0], ast.Expr) and isinstance(body[0].value, ast.Call)
                     and _name(body[0].value.func) == 'assert_equal')):
        guards.append(ast.unparse(body[0]))
        body = body[1:]
    want = 'assert_equal(len(%s), len(%s))' % (a_jump, a_rain)
    if guards != [want]:
        raise Refused('guards %r (expected exactly %r)' % (guards, want))
    # M = np.zeros(len(A), bool)
    st = body[0]
    def is_bool_zeros(v):
        # np.zeros(len(A) | (len(A),) | A.shape, bool | dtype=bool | 'bool' | np.bool_)
        if not (isinstance(v, ast.Call) and ast.unparse(v.func) in ('np.zeros', 'numpy.zeros')):
            return False
        pos, kw = list(v.args), {k.arg: k.value for k in v.keywords}
        if not pos or set(kw) - {'dtype'} or len(pos) > 2 or (len(pos) == 2 and 'dtype' in kw):
            return False
        shape = ast.unparse(pos[0]).replace(' ', '')
        ok_shape = any(shape in ('len(%s)' % a, '(len(%s),)' % a, '%s.shape' % a, 'len(%s),' % a) for a in (a_jump, a_rain))
        dt = pos[1] if len(pos) == 2 else kw.get('dtype')
        ok_dt = dt is not None and ast.unparse(dt) in ('bool', "'bool'", 'np.bool_', 'numpy.bool_')
        return ok_shape and ok_dt
    if not (isinstance(st, ast.Assign) and len(st.targets) == 1 and _name(st.targets[0]) and is_bool_zeros(st.value)):
        raise Refused('mask initialisation %s' % ast.unparse(st))
    mask = _name(st.targets[0])
    st = body[1]
    if not (isinstance(st, ast.Assign) and len(st.targets) == 1 and _name(st.targets[0])
            and isinstance(st.value, ast.Constant) and isinstance(st.value.value, bool)):
        raise Refused('state initialisation %s' % ast.unparse(st))
    state, init = _name(st.targets[0]), st.value.value
    loop = body[2]
    if not (isinstance(loop, ast.For) and _name(loop.target) and not loop.orelse
            and ast.unparse(loop.iter) in ('range(len(%s))' % mask, 'range(len(%s))' % a_jump,
                                           'range(len(%s))' % a_rain)):
        raise Refused('loop header %s' % ast.unparse(loop)[:80])
    idx = _name(loop.target)
    lb = list(loop.body)
    last = lb[-1]
    if not (isinstance(last, ast.Assign) and len(last.targets) == 1 and isinstance(last.targets[0], ast.Subscript)
            and _name(last.targets[0].value) == mask and _name(last.targets[0].slice) == idx
            and _name(last.value) == state):
        raise Refused('loop must end with %s[%s] = %s; got %s' % (mask, idx, state, ast.unparse(last)))
    sym = _Sym(state, {a_jump: 'j', a_rain: 'r'}, idx)
    step = sym.block(lb[:-1], 'st')
    rest = body[3:]
    closing = []
    while rest and isinstance(rest[0], ast.Assert):
        closing.append(ast.unparse(rest[0].test))
        rest = rest[1:]
    if not (len(rest) == 1 and isinstance(rest[0], ast.Return) and _name(rest[0].value) == mask):
        raise Refused('function must end with the closing assertions and `return %s`' % mask)
    known = {
        'all(~%s[np.nonzero(%s)[0]])' % (mask, a_rain): 'closing_no_flag_in_rain',
        'all(%s[np.nonzero(~%s & %s)[0]])' % (mask, a_rain, a_jump): 'closing_flag_at_dry_jump',
    }
    names = []
    for c in closing:
        if c not in known:
            raise Refused('closing assertion %r is not one the proof file knows' % c)
        names.append(known[c])
    text = (
        '(** GENERATED by harness/translate.py from %s - do not edit, never committed. *)\n'
        'From Coq Require Import List Bool.\nImport ListNotations.\n\n'
        '(** state after one iteration, from the state before and the two flags of sample i *)\n'
        'Definition gen_step (st j r : bool) : bool :=\n  %s.\n\n'
        'Definition gen_init : bool := %s.\n\n'
        'Fixpoint gen_from (st : bool) (jump rain : list bool) : list bool :=\n'
        '  match jump, rain with\n'
        '  | j :: jt, r :: rt => let st\' := gen_step st j r in st\' :: gen_from st\' jt rt\n'
        '  | _, _ => []\n  end.\n\n'
        'Definition gen_mask (jump rain : list bool) : list bool := gen_from gen_init jump rain.\n\n'
        '(** the closing assertions of the source, in order: %s *)\n'
        'Definition gen_closing_assertions : list nat := [%s].\n'
        % ('spowtd/classify.py:get_mystery_jump_mask', step, 'true' if init else 'false',
           ', '.join(names) or '(none)',
           '; '.join({'closing_no_flag_in_rain': '1', 'closing_flag_at_dry_jump': '2'}[n] for n in names)))
    return text


# ------------------------------------------------------------------ zeta_grid.populate_zeta_grid: the two bounds

def _bound(node, qname, lo_sub, hi_sub, step):
    """Gallina Z-expression of one bound of range(...).  Grammar accepted:
         int(math.floor(B / S)) | int(math.ceil(B / S)) | int(B / S) | math.floor(B / S) | math.ceil(B / S)
         | E + n | E - n        (n an integer literal)
       with B one of the two bounds read from the SELECT and S the step argument."""
    def quotient(q):
        if (isinstance(q, ast.BinOp) and isinstance(q.op, ast.Div) and _name(q.right) == step
                and ast.unparse(q.left) in (lo_sub, hi_sub)):
            return 'qlo' if ast.unparse(q.left) == lo_sub else 'qhi'
        raise Refused('quotient %s' % ast.unparse(q))

    def rounded(e):
        if isinstance(e, ast.Call) and ast.unparse(e.func) in ('math.floor', 'math.ceil') and len(e.args) == 1:
            return '(%s %s)' % ('Qfloor' if ast.unparse(e.func) == 'math.floor' else 'Qceiling', quotient(e.args[0]))
        raise Refused('rounding %s' % ast.unparse(e))

    if isinstance(node, ast.BinOp) and isinstance(node.op, (ast.Add, ast.Sub)) and isinstance(node.right, ast.Constant) \
            and isinstance(node.right.value, int):
        return '(%s %s %d)%%Z' % (_bound(node.left, qname, lo_sub, hi_sub, step),
                                 '+' if isinstance(node.op, ast.Add) else '-', node.right.value)
    if isinstance(node, ast.Call) and _name(node.func) == 'int' and len(node.args) == 1:
        inner = node.args[0]
        if isinstance(inner, ast.Call):
            return rounded(inner)            # int() of an integral float is exact
        return '(Qtrunc0 %s)' % quotient(inner)   # int() truncates toward zero
    return rounded(node)


def translate_zeta_grid(source):
    tree = ast.parse(source)
    fn = next((n for n in tree.body if isinstance(n, ast.FunctionDef) and n.name == 'populate_zeta_grid'), None)
    if fn is None:
        raise Refused('function populate_zeta_grid not found')
    args = [a.arg for a in fn.args.args]
    if len(args) != 2:
        raise Refused('signature %r' % args)
    step = args[1]
    selects = [n for n in ast.walk(fn) if isinstance(n, ast.Constant) and isinstance(n.value, str)
               and 'SELECT' in n.value.upper()]
    flat = [' '.join(n.value.split()).lower() for n in selects]
    if flat != ['select min(zeta_mm), max(zeta_mm) from water_level']:
        raise Refused('bounds query %r' % flat)
    fetch = [n for n in ast.walk(fn) if isinstance(n, ast.Assign) and len(n.targets) == 1 and _name(n.targets[0])
             and ast.unparse(n.value).endswith('.fetchone()')]
    if len(fetch) != 1:
        raise Refused('expected one `X = cursor.fetchone()`')
    b = _name(fetch[0].targets[0])
    ranges = [n for n in ast.walk(fn) if isinstance(n, ast.Call) and _name(n.func) == 'range']
    if len(ranges) != 1 or len(ranges[0].args) != 2 or ranges[0].keywords:
        raise Refused('expected exactly one range(lo, hi)')
    comps = [n for n in ast.walk(fn) if isinstance(n, ast.ListComp)]
    if len(comps) != 1 or len(comps[0].generators) != 1 or comps[0].generators[0].iter is not ranges[0] \
            or comps[0].generators[0].ifs or ast.unparse(comps[0].elt) != '(%s,)' % _name(comps[0].generators[0].target):
        raise Refused('the INSERT must take [(zn,) for zn in range(lo, hi)]')
    lo = _bound(ranges[0].args[0], 'q', '%s[0]' % b, '%s[1]' % b, step)
    hi = _bound(ranges[0].args[1], 'q', '%s[0]' % b, '%s[1]' % b, step)
    return (
        '(** GENERATED by harness/translate.py from spowtd/zeta_grid.py:populate_zeta_grid - do not edit, never committed. *)\n'
        'From Coq Require Import ZArith QArith Qround.\n\n'
        '(** int(x) of Python: truncation toward zero *)\n'
        'Definition Qtrunc0 (q : Q) : Z := if Qle_bool 0 q then Qfloor q else Qceiling q.\n\n'
        '(** the two bounds of range(...), from qlo = min(zeta_mm) / step and qhi = max(zeta_mm) / step\n'
        '    (exact values of the binary64 quotients) *)\n'
        'Definition gen_grid_lo (qlo qhi : Q) : Z := %s.\n'
        'Definition gen_grid_hi (qlo qhi : Q) : Z := %s.\n' % (lo, hi))


def regenerate():
    """Write coq/Generated/*.v from the tree under test (only when the text changes, so that make
    rebuilds exactly when the source's meaning for the translator changed).  Returns a list of
    problems (empty = translated)."""
    os.makedirs(GEN_DIR, exist_ok=True)
    problems = []
    for fname, pyfile, what, fn in (('MysteryGen.v', 'classify.py', 'get_mystery_jump_mask', translate_mystery),
                                    ('ZetaGridGen.v', 'zeta_grid.py', 'populate_zeta_grid', translate_zeta_grid)):
        path = os.path.join(GEN_DIR, fname)
        try:
            text = fn(open(os.path.join(C.REPO, 'spowtd', pyfile)).read())
        except (Refused, SyntaxError, OSError, IndexError) as e:
            problems.append('translator refuses spowtd/%s:%s: %s' % (pyfile, what, e))
            text = ('(** GENERATED: the translator REFUSED the current source (%s). *)\n'
                    'From Coq Require Import List Bool.\n'
                    'Definition translation_refused : bool := true.\n' % str(e).replace('*)', '* )'))
        old = open(path).read() if os.path.exists(path) else None
        if old != text:
            with open(path, 'w') as f:
                f.write(text)
    return problems


if __name__ == '__main__':
    print(regenerate() or (open(os.path.join(GEN_DIR, 'MysteryGen.v')).read() +
                           open(os.path.join(GEN_DIR, 'ZetaGridGen.v')).read()))
