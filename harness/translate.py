"""Fail-closed translator: Python source of the tree under test -> Gallina text.

Second tie between model and code (the first is the correspondence check): for
the plain-Python state-machine loop `classify.get_mystery_jump_mask` the Gallina
definition is REGENERATED from the current source on every run
(coq/Generated/MysteryGen.v, never committed), and the fixed proof file
coq/Proofs/MysteryGenSpec.v proves that the generated function equals the
hand-written model `Mystery.mystery_from true` for all inputs and that the
function's own closing assertions can never fail.  A change of the loop that
alters its meaning breaks that proof (or the translation itself: anything outside
the accepted shape is refused, never guessed); the C04 theorems are then no
longer about the code.

Accepted shape of the function (checked on the `ast`, everything else refused):

    assert_equal(len(A), len(B))                  # optional guards (asserts on lengths)
    M = np.zeros(len(A), bool)
    S = <True|False>                              # the state
    for i in range(len(M)):                       # (a pylint comment may precede)
        <body: if / else over A[i], B[i], S; assignments S = True | False | S | A[i] ...>
        M[i] = S
    assert ... ; assert ...                       # closing assertions: recorded, proved separately
    return M

The body is executed symbolically: the value of S after the body is a Gallina
boolean expression in (S, A_i, B_i).
"""
import ast
import os

from harness import common as C

GEN_DIR = os.path.join(C.COQ, 'Generated')


class Refused(Exception):
    pass


def _name(node):
    return node.id if isinstance(node, ast.Name) else None


class _Sym:
    """Symbolic execution of the loop body over booleans."""

    def __init__(self, state, arrays, index):
        self.state, self.arrays, self.index = state, arrays, index

    def expr(self, node, env):
        if isinstance(node, ast.Constant) and isinstance(node.value, bool):
            return 'true' if node.value else 'false'
        if isinstance(node, ast.Name):
            if node.id == self.state:
                return env
            raise Refused('name %r in an expression' % node.id)
        if isinstance(node, ast.Subscript) and _name(node.value) in self.arrays and _name(node.slice) == self.index:
            return self.arrays[_name(node.value)]
        if isinstance(node, ast.UnaryOp) and isinstance(node.op, ast.Not):
            return '(negb %s)' % self.expr(node.operand, env)
        if isinstance(node, ast.BoolOp):
            op = 'andb' if isinstance(node.op, ast.And) else 'orb'
            vals = [self.expr(v, env) for v in node.values]
            out = vals[0]
            for v in vals[1:]:
                out = '(%s %s %s)' % (op, out, v)
            return out
        raise Refused('expression %s' % ast.dump(node)[:80])

    def block(self, stmts, env):
        for st in stmts:
            env = self.stmt(st, env)
        return env

    def stmt(self, st, env):
        if isinstance(st, ast.Assign) and len(st.targets) == 1 and _name(st.targets[0]) == self.state:
            return self.expr(st.value, env)
        if isinstance(st, ast.If):
            c = self.expr(st.test, env)
            a = self.block(st.body, env)
            b = self.block(st.orelse, env)
            return '(if %s then %s else %s)' % (c, a, b)
        if isinstance(st, ast.Pass):
            return env
        raise Refused('statement %s' % ast.dump(st)[:80])


def translate_mystery(source):
    """Return the text of Generated/MysteryGen.v for the given classify.py source."""
    tree = ast.parse(source)
    fn = next((n for n in tree.body if isinstance(n, ast.FunctionDef) and n.name == 'get_mystery_jump_mask'), None)
    if fn is None:
        raise Refused('function get_mystery_jump_mask not found')
    args = [a.arg for a in fn.args.args]
    if len(args) != 2 or fn.args.vararg or fn.args.kwarg or fn.args.kwonlyargs or fn.args.defaults:
        raise Refused('signature %r' % args)
    a_jump, a_rain = args
    body = list(fn.body)
    if body and isinstance(body[0], ast.Expr) and isinstance(body[0].value, ast.Constant):
        body = body[1:]   # docstring
    guards = []
    while body and (isinstance(body[0], ast.Assert) or
                    (isinstance(body[0], ast.Expr) and isinstance(body[0].value, ast.Call)
                     and _name(body[0].value.func) == 'assert_equal')):
        guards.append(ast.unparse(body[0]))
        body = body[1:]
    want = 'assert_equal(len(%s), len(%s))' % (a_jump, a_rain)
    if guards != [want]:
        raise Refused('guards %r (expected exactly %r)' % (guards, want))
    # M = np.zeros(len(A), bool)
    st = body[0]
    if not (isinstance(st, ast.Assign) and len(st.targets) == 1 and _name(st.targets[0])
            and ast.unparse(st.value) in ('np.zeros(len(%s), bool)' % a_jump, 'np.zeros(len(%s), bool)' % a_rain)):
        raise Refused('mask initialisation %s' % ast.unparse(st))
    mask = _name(st.targets[0])
    st = body[1]
    if not (isinstance(st, ast.Assign) and len(st.targets) == 1 and _name(st.targets[0])
            and isinstance(st.value, ast.Constant) and isinstance(st.value.value, bool)):
        raise Refused('state initialisation %s' % ast.unparse(st))
    state, init = _name(st.targets[0]), st.value.value
    loop = body[2]
    if not (isinstance(loop, ast.For) and _name(loop.target) and not loop.orelse
            and ast.unparse(loop.iter) in ('range(len(%s))' % mask, 'range(len(%s))' % a_jump,
                                           'range(len(%s))' % a_rain)):
        raise Refused('loop header %s' % ast.unparse(loop)[:80])
    idx = _name(loop.target)
    lb = list(loop.body)
    last = lb[-1]
    if not (isinstance(last, ast.Assign) and len(last.targets) == 1 and isinstance(last.targets[0], ast.Subscript)
            and _name(last.targets[0].value) == mask and _name(last.targets[0].slice) == idx
            and _name(last.value) == state):
        raise Refused('loop must end with %s[%s] = %s; got %s' % (mask, idx, state, ast.unparse(last)))
    sym = _Sym(state, {a_jump: 'j', a_rain: 'r'}, idx)
    step = sym.block(lb[:-1], 'st')
    rest = body[3:]
    closing = []
    while rest and isinstance(rest[0], ast.Assert):
        closing.append(ast.unparse(rest[0].test))
        rest = rest[1:]
    if not (len(rest) == 1 and isinstance(rest[0], ast.Return) and _name(rest[0].value) == mask):
        raise Refused('function must end with the closing assertions and `return %s`' % mask)
    known = {
        'all(~%s[np.nonzero(%s)[0]])' % (mask, a_rain): 'closing_no_flag_in_rain',
        'all(%s[np.nonzero(~%s & %s)[0]])' % (mask, a_rain, a_jump): 'closing_flag_at_dry_jump',
    }
    names = []
    for c in closing:
        if c not in known:
            raise Refused('closing assertion %r is not one the proof file knows' % c)
        names.append(known[c])
    text = (
        '(** GENERATED by harness/translate.py from %s - do not edit, never committed. *)\n'
        'From Coq Require Import List Bool.\nImport ListNotations.\n\n'
        '(** state after one iteration, from the state before and the two flags of sample i *)\n'
        'Definition gen_step (st j r : bool) : bool :=\n  %s.\n\n'
        'Definition gen_init : bool := %s.\n\n'
        'Fixpoint gen_from (st : bool) (jump rain : list bool) : list bool :=\n'
        '  match jump, rain with\n'
        '  | j :: jt, r :: rt => let st\' := gen_step st j r in st\' :: gen_from st\' jt rt\n'
        '  | _, _ => []\n  end.\n\n'
        'Definition gen_mask (jump rain : list bool) : list bool := gen_from gen_init jump rain.\n\n'
        '(** the closing assertions of the source, in order: %s *)\n'
        'Definition gen_closing_assertions : list nat := [%s].\n'
        % ('spowtd/classify.py:get_mystery_jump_mask', step, 'true' if init else 'false',
           ', '.join(names) or '(none)',
           '; '.join({'closing_no_flag_in_rain': '1', 'closing_flag_at_dry_jump': '2'}[n] for n in names)))
    return text


def regenerate():
    """Write coq/Generated/*.v from the tree under test (only when the text changes, so that make
    rebuilds exactly when the source's meaning for the translator changed).  Returns a list of
    problems (empty = translated)."""
    os.makedirs(GEN_DIR, exist_ok=True)
    path = os.path.join(GEN_DIR, 'MysteryGen.v')
    problems = []
    try:
        src = open(os.path.join(C.REPO, 'spowtd', 'classify.py')).read()
        text = translate_mystery(src)
    except (Refused, SyntaxError, OSError, IndexError) as e:
        problems.append('translator refuses spowtd/classify.py:get_mystery_jump_mask: %s' % e)
        text = ('(** GENERATED: the translator REFUSED the current source (%s). *)\n'
                'From Coq Require Import List Bool.\n'
                'Definition translation_refused : bool := true.\n' % str(e).replace('*)', '* )'))
    old = open(path).read() if os.path.exists(path) else None
    if old != text:
        with open(path, 'w') as f:
            f.write(text)
    return problems


if __name__ == '__main__':
    print(regenerate() or open(os.path.join(GEN_DIR, 'MysteryGen.v')).read())
