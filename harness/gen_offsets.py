"""Generators of head mappings (level id -> [(interval id, crossing value)]) with a
connected or deliberately disconnected overlap graph, and of (t, H) series lists
for get_series_time_offsets."""
from fractions import Fraction


def dyadic(rng, lo, hi, den=64):
    return rng.randrange(int(lo * den), int(hi * den) + 1) / den


def gen_ranges(rng, n, shape):
    """Level ranges [lo, hi] per interval such that the overlap graph is connected."""
    ranges = []
    if shape == 'star':
        ranges.append((-15, 15))
        for _ in range(n - 1):
            lo = rng.randrange(-15, 12)
            ranges.append((lo, lo + rng.randrange(0, 4)))
    elif shape == 'chain':
        lo = rng.randrange(-20, -10)
        for _ in range(n):
            ln = rng.randrange(1, 6)
            ranges.append((lo, lo + ln))
            lo = lo + rng.randrange(1, ln + 1)      # next starts inside the previous
    else:  # random but connected: each new range meets the union so far
        lo = rng.randrange(-10, 0)
        ranges.append((lo, lo + rng.randrange(1, 8)))
        for _ in range(n - 1):
            ulo = min(r[0] for r in ranges)
            uhi = max(r[1] for r in ranges)
            a = rng.randrange(ulo - 3, uhi + 1)
            b = max(a, ulo) + rng.randrange(0, 6)
            ranges.append((a, b))
    rng.shuffle(ranges)
    return ranges


def gen_head_mapping(rng, shape=None, n=None, noise=True, groups=1):
    """Returns (head_mapping dict in build_head_mapping's insertion order, truth)."""
    shape = shape or rng.choice(['chain', 'star', 'random'])
    n = n or rng.randrange(2, 9)
    ranges = gen_ranges(rng, n, shape)
    if groups > 1:
        # planted disconnected group(s): shifted far away in level
        extra = gen_ranges(rng, rng.randrange(2, 4), 'chain')
        ranges += [(a + 100, b + 100) for a, b in extra]
    slope = dyadic(rng, 0.25, 8)
    T = lambda h: -slope * h + (h * h) / 16.0      # noqa: E731  (dyadic)
    cs = [dyadic(rng, -500, 500) for _ in ranges]
    hm = {}
    for sid, (lo, hi) in enumerate(ranges):
        for h in range(lo, hi + 1):
            t = T(h) - cs[sid] + (dyadic(rng, -2, 2) if noise else 0.0)
            hm.setdefault(h, []).append((sid, t))
    flat = []
    if rng.random() < 0.35:
        # levels at which every crossing value is the same number (e.g. rises starting on one grid level all have
        # depth 0 there): zero spread AT the level, but the level still couples the offsets of its intervals
        shared = [h for h, seq in hm.items() if len(seq) >= 2]
        for h in rng.sample(shared, min(len(shared), rng.randrange(1, 3))):
            v = rng.choice([0.0, dyadic(rng, -50, 50)])
            hm[h] = [(sid, v) for sid, _ in hm[h]]
            flat.append(h)
    return hm, dict(ranges=ranges, cs=cs, slope=slope, shape=shape, flat=flat)


def components(hm):
    """Connected components of intervals under 'share a level' (reference implementation)."""
    parent = {}

    def find(a):
        while parent.setdefault(a, a) != a:
            parent[a] = parent[parent[a]]
            a = parent[a]
        return a
    for h, seq in hm.items():
        ids = [s for s, _ in seq]
        for s in ids:
            find(s)
        for s in ids[1:]:
            parent[find(s)] = find(ids[0])
    groups = {}
    for s in parent:
        groups.setdefault(find(s), set()).add(s)
    return list(groups.values())


def spread(hm, x):
    """Objective with exact fractions: x maps interval id -> Fraction."""
    total = Fraction(0)
    resid = {}
    for h, seq in hm.items():
        if len(seq) < 2:
            continue
        vals = [x[s] + Fraction(t) for s, t in seq]
        m = sum(vals) / len(vals)
        for (s, _), v in zip(seq, vals):
            total += (v - m) ** 2
            resid[s] = resid.get(s, Fraction(0)) + (v - m)
    return total, resid
