"""Generators of head mappings (level id -> [(interval id, crossing value)]) with a
connected or deliberately disconnected overlap graph, and of (t, H) series lists
for get_series_time_offsets."""
from fractions import Fraction


def dyadic(rng, lo, hi, den=64):
    return rng.randrange(int(lo * den), int(hi * den) + 1) / den


def gen_ranges(rng, n, shape):
    """Level ranges [lo, hi] per interval such that the overlap graph is connected."""
    ranges = []
    if shape == 'star':
        ranges.append((-15, 15))
        for _ in range(n - 1):
            lo = rng.randrange(-15, 12)
            ranges.append((lo, lo + rng.randrange(0, 4)))
    elif shape == 'chain':
        lo = rng.randrange(-20, -10)
        for _ in range(n):
            ln = rng.randrange(1, 6)
            ranges.append((lo, lo + ln))
            lo = lo + rng.randrange(1, ln + 1)      # next starts inside the previous
    else:  # random but connected: each new range meets the union so far
        lo = rng.randrange(-10, 0)
        ranges.append((lo, lo + rng.randrange(1, 8)))
        for _ in range(n - 1):
            ulo = min(r[0] for r in ranges)
            uhi = max(r[1] for r in ranges)
            a = rng.randrange(ulo - 3, uhi + 1)
            b = max(a, ulo) + rng.randrange(0, 6)
            ranges.append((a, b))
    rng.shuffle(ranges)
    return ranges


def gen_head_mapping(rng, shape=None, n=None, noise=True, groups=1):
    """Returns (head_mapping dict in build_head_mapping's insertion order, truth)."""
    shape = shape or rng.choice(['chain', 'star', 'random'])
    n = n or rng.randrange(2, 9)
    ranges = gen_ranges(rng, n, shape)
    if groups > 1:
        # planted disconnected group(s): shifted far away in level
        extra = gen_ranges(rng, rng.randrange(2, 4), 'chain')
        ranges += [(a + 100, b + 100) for a, b in extra]
    slope = dyadic(rng, 0.25, 8)
    T = lambda h: -slope * h + (h * h) / 16.0      # noqa: E731  (dyadic)
    cs = [dyadic(rng, -500, 500) for _ in ranges]
    hm = {}
    for sid, (lo, hi) in enumerate(ranges):
        for h in range(lo, hi + 1):
            t = T(h) - cs[sid] + (dyadic(rng, -2, 2) if noise else 0.0)
            hm.setdefault(h, []).append((sid, t))
    flat = []
    if rng.random() < 0.35:
        # levels at which every crossing value is the same number (e.g. rises starting on one grid level all have
        # depth 0 there): zero spread AT the level, but the level still couples the offsets of its intervals
        shared = [h for h, seq in hm.items() if len(seq) >= 2]
        for h in rng.sample(shared, min(len(shared), rng.randrange(1, 3))):
            v = rng.choice([0.0, dyadic(rng, -50, 50)])
            hm[h] = [(sid, v) for sid, _ in hm[h]]
            flat.append(h)
    return hm, dict(ranges=ranges, cs=cs, slope=slope, shape=shape, flat=flat)


def components(hm):
    """Connected components of intervals under 'share a level' (reference implementation)."""
    parent = {}

    def find(a):
        while parent.setdefault(a, a) != a:
            parent[a] = parent[parent[a]]
            a = parent[a]
        return a
    for h, seq in hm.items():
        ids = [s for s, _ in seq]
        for s in ids:
            find(s)
        for s in ids[1:]:
            parent[find(s)] = find(ids[0])
    groups = {}
    for s in parent:
        groups.setdefault(find(s), set()).add(s)
    return list(groups.values())


def spread(hm, x):
    """Objective with exact fractions: x maps interval id -> Fraction."""
    total = Fraction(0)
    resid = {}
    for h, seq in hm.items():
        if len(seq) < 2:
            continue
        vals = [x[s] + Fraction(t) for s, t in seq]
        m = sum(vals) / len(vals)
        for (s, _), v in zip(seq, vals):
            total += (v - m) ** 2
            resid[s] = resid.get(s, Fraction(0)) + (v - m)
    return total, resid


# ------------------------------------------------------------------ large / ill-conditioned mappings (oracle only)

BLOCKS = (1000, 1024, 4096, 8192, 10000)


def n_equations(hm):
    """Rows of the least-squares problem: crossings at levels crossed by >= 2 intervals."""
    return sum(len(seq) for seq in hm.values() if len(seq) >= 2)


def gen_large_mapping(rng, min_eq=5000, max_eq=9000, n_levels=None, noise=True):
    """A large NOISY head mapping: 60-160 intervals, each crossing a contiguous run of 30-90 of 100-170 levels, the
    overlap graph connected, more than `min_eq` equations (level, interval) and the count NOT a multiple of any of
    BLOCKS (software that accumulates the normal equations in chunks must get the ragged last chunk right).
    Insertion order as build_head_mapping produces it: interval by interval, each one's levels downwards."""
    n_levels = n_levels or rng.randrange(100, 171)
    target = rng.randrange(min_eq, max_eq)
    ranges = []
    total = 0
    hi_prev = None
    while total < target:
        ln = rng.randrange(30, 91)
        lo = rng.randrange(0, n_levels - ln + 1)
        if hi_prev is not None and not any(a <= lo + ln - 1 and lo <= b for a, b in ranges):
            continue                                   # (must meet some earlier range: connected)
        ranges.append((lo, lo + ln - 1))
        hi_prev = lo + ln - 1
        total += ln
    slope = dyadic(rng, 0.25, 8)
    T = lambda h: -slope * h + (h * h) / 64.0      # noqa: E731
    cs = [dyadic(rng, -5000, 5000) for _ in ranges]
    ids = list(range(len(ranges)))
    rng.shuffle(ids)                                   # which interval is the reference (largest id) is arbitrary
    hm = {}
    for k in sorted(range(len(ranges)), key=lambda k: ids[k]):
        lo, hi = ranges[k]
        for h in range(hi, lo - 1, -1):
            t = T(h) - cs[k] + (dyadic(rng, -2, 2) if noise else 0.0)
            hm.setdefault(h, []).append((ids[k], t))
    # ragged count: drop the lowest level of one interval until no block size divides the number of equations
    guard = 0
    while any(n_equations(hm) % b == 0 for b in BLOCKS) and guard < 20:
        guard += 1
        h = min(h for h, seq in hm.items() if len(seq) >= 3)
        hm[h] = hm[h][:-1]
    truth = dict(shape='large(%d+ equations, noisy)' % (n_equations(hm) // 1000 * 1000), n_intervals=len(ranges),
                 equations=n_equations(hm), planted=None if noise else {ids[k]: cs[k] for k in range(len(ranges))})
    return hm, truth


def gen_chain_long(rng, n_chain=None, n_long=None, long_levels=None, noise=False):
    """An ILL-CONDITIONED but connected overlap graph: a staircase of `n_chain` short intervals, each crossing two
    levels and sharing exactly ONE of them with the next, hanging from `n_long` long intervals that share
    `long_levels` levels with one another (and one level with the first step of the staircase).  The smooth modes of
    the staircase have singular values ~ (pi/2n)/sqrt(2) against sqrt(long_levels) for the long intervals.
    Without noise the planted constants are the exact answer (truth['planted']: id -> constant; offsets = constant
    + common shift).  Ids are assigned at random (the reference = largest id may sit anywhere)."""
    n_chain = n_chain or rng.randrange(600, 901)
    n_long = n_long or rng.randrange(2, 5)
    long_levels = long_levels or rng.randrange(1200, 2001)
    ranges = [(-(long_levels - 1), 0)] * n_long + [(i, i + 1) for i in range(n_chain)]
    slope = dyadic(rng, 0.25, 8)
    T = lambda h: -slope * h      # noqa: E731
    cs = [dyadic(rng, -5000, 5000) for _ in ranges]
    ids = list(range(len(ranges)))
    rng.shuffle(ids)
    hm = {}
    for k in sorted(range(len(ranges)), key=lambda k: ids[k]):
        lo, hi = ranges[k]
        for h in range(hi, lo - 1, -1):
            t = T(h) - cs[k] + (dyadic(rng, -2, 2) if noise else 0.0)
            hm.setdefault(h, []).append((ids[k], t))
    truth = dict(shape='staircase of single-level links + long intervals%s' % (', noisy' if noise else ''),
                 n_chain=n_chain, n_long=n_long, long_levels=long_levels, equations=n_equations(hm),
                 planted=None if noise else {ids[k]: cs[k] for k in range(len(ranges))})
    return hm, truth


def normal_system(hm, ground=None):
    """The stationarity conditions of the spread, assembled level by level (nothing shared with spowtd): for every
    level crossed by n >= 2 intervals the projector I - J/n on those intervals; (sum of projectors) x = - sum of
    projectors applied to the crossing values.  The interval `ground` (default: the SMALLEST id - spowtd fixes the
    largest) is removed.  Returns (ids without the ground, matrix, right-hand side, ground)."""
    import numpy as np
    ids = sorted({s for seq in hm.values() if len(seq) >= 2 for s, _ in seq})
    ground = ids[0] if ground is None else ground
    pos = {s: i for i, s in enumerate(ids)}
    n = len(ids)
    M = np.zeros((n, n))
    r = np.zeros(n)
    for seq in hm.values():
        if len(seq) < 2:
            continue
        ix = np.array([pos[s] for s, _ in seq])
        t = np.array([v for _, v in seq])
        M[np.ix_(ix, ix)] -= 1.0 / len(seq)
        M[ix, ix] += 1.0
        r[ix] -= t - t.mean()
    keep = [i for i in range(n) if ids[i] != ground]
    return [ids[i] for i in keep], M[np.ix_(keep, keep)], r[keep], ground


def independent_offsets(hm):
    """Minimiser of the spread from normal_system (numpy solve on the small square system), as {id: offset}."""
    import numpy as np
    ids, M, r, ground = normal_system(hm)
    x = np.linalg.solve(M, r) if ids else []
    out = {s: float(v) for s, v in zip(ids, x)}
    out[ground] = 0.0
    return out


def singular_ratio(hm):
    """sigma_min / sigma_max of the least-squares design matrix of the mapping (square roots of the extreme
    eigenvalues of normal_system's matrix with the largest id removed, which is spowtd's A^T A)."""
    import numpy as np
    ids = sorted({s for seq in hm.values() if len(seq) >= 2 for s, _ in seq})
    _, M, _, _ = normal_system(hm, ground=ids[-1])
    w = np.linalg.eigvalsh(M)
    return float(np.sqrt(max(w[0], 0.0) / w[-1]))
