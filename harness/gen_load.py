"""Generators of input triples (rainfall, evapotranspiration, water level) for
`spowtd load` (properties C10 / C11).

A case is a JSON-able dict
    dict(cls=..., tz='UTC', rain=[[epoch, text], ...], et=[...], wl=[...], pre=None|'ok'|'failed')
with values as decimal *text* of at most 15 significant digits (so that the
text -> double reading is the same in Python and SQLite, DESIGN C10) and rows
in the order in which they are written to the file.  `pre` asks for a load
into a database that already holds tables ('ok': a complete earlier load,
'failed': the empty schema a refused load leaves behind).

Valid classes vary: the offsets between the three records at both ends, the
water-level step (same / coarser / finer / non-aligned / irregular), 0-4 gaps
(after the first sample, before the last, in the middle, between two grid
instants), the row order.  Malformed classes: non-uniform rainfall step inside
the span, ET missing at one grid instant, duplicate timestamp, populated
database, too little overlap, empty files.

Further malformed streams (drawn only when asked for by class name, so the
streams of the classes above are unchanged): ET_MALFORMED_CLASSES -- an
evapotranspiration record that starts late, ends early, has several holes, is
sampled on a coarser step or on another phase than the grid (any number of
grid steps without ET, anywhere); NONUNIFORM_EDGE_CLASSES -- the only odd
rainfall step lies at an end of the span of the water-level record and is closed
exactly by the rainfall record that coincides with the last (first)
water-level timestamp, with near misses one second to either side (one second
short: the odd record is outside the span and the input is well-formed).

gen_valid takes optional step / base / n_rain (used by C11 to lay a record over
chosen daylight-saving transitions); when left None they are drawn as before.
"""

BASES = [946684800, 1583020800, 0, -31536000 - 7200, 1711846800, 86400 * 365 * 60, -86400 * 20000]
STEPS = [60, 300, 600, 900, 1800, 3600, 7, 1, 86400, 1200]

VALID_CLASSES = ['same', 'coarser', 'finer', 'nonaligned', 'irregular', 'same_gappy', 'finer_gappy',
                 'coarser_gappy', 'nonaligned_gappy', 'wl_outlasts', 'rain_outlasts', 'tight', 'rain_ragged_outside']
MALFORMED_CLASSES = ['nonuniform_inside', 'et_missing', 'duplicate', 'populated', 'little_overlap', 'empty']
ET_MALFORMED_CLASSES = ['et_starts_late', 'et_ends_early', 'et_holes', 'et_coarser', 'et_off_phase']
NONUNIFORM_EDGE_CLASSES = ['nonuniform_at_end', 'nonuniform_at_start']


def dec_text(rng, lo, hi):
    """Decimal text with <= 15 significant digits."""
    x = lo + (hi - lo) * rng.random()
    k = rng.randrange(10)
    if k == 0:
        return '%d' % round(x)
    if k == 1:
        return '%.*e' % (rng.choice([0, 2, 5, 9]), x)
    if k == 2:
        return rng.choice(['0', '0.0', '0.5', '1', '2.25', '10', '0.1', '0.3'])
    d = rng.choice([1, 1, 2, 2, 3, 4, 6, 9, 11])
    return '%.*f' % (d, x)


def wl_series(rng, times):
    """A wandering water table (mm), mostly negative, sometimes crossing 0."""
    z = rng.choice([-400.0, -50.0, -3.0, 20.0, -1234.5])
    out = []
    scale = rng.choice([0.5, 5.0, 40.0])
    for t in times:
        z += (rng.random() - 0.55) * scale
        if rng.random() < 0.08:
            z += scale * 4 * rng.random()
        d = rng.choice([0, 1, 2, 3, 5, 8])
        out.append([t, '%.*f' % (d, z)])
    return out


def span_grid(rain_epochs, wl_epochs):
    """Rainfall epochs within the span of the water-level record (sorted)."""
    if not wl_epochs:
        return []
    lo, hi = min(wl_epochs), max(wl_epochs)
    return sorted(e for e in set(rain_epochs) if lo <= e <= hi)


def order_rows(rng, rows):
    k = rng.randrange(4)
    rows = list(rows)
    if k == 0:
        rng.shuffle(rows)
    elif k == 1:
        rows.reverse()
    elif k == 2 and len(rows) > 3:   # two sorted blocks swapped
        c = rng.randrange(1, len(rows))
        rows = rows[c:] + rows[:c]
    return rows


def wl_times_for(rng, mode, step, start, end):
    """Water-level sample instants covering about [start, end] (before gaps)."""
    if mode == 'same':
        delta, phase = step, 0
    elif mode == 'coarser':
        delta = step * rng.choice([2, 3, 4])
        phase = rng.choice([0, 0, step, rng.randrange(0, step)])
    elif mode == 'finer':
        divs = [k for k in (2, 3, 4, 5, 6, 10) if step % k == 0] or [1]
        delta = step // rng.choice(divs)
        phase = rng.choice([0, 0, 0, rng.randrange(0, max(1, delta))])
    elif mode == 'nonaligned':
        delta = rng.choice([step * 2 // 3 + 1, step + 1, max(1, step - 1), 7, 11, 97, step * 3 // 2 + 1,
                            max(1, step // 2 + 1)])
        phase = rng.randrange(0, max(1, delta))
    else:
        delta, phase = None, 0
    times = []
    if delta is None:   # irregular: every step different from the smallest is a "gap"
        t = start - rng.randrange(0, step + 1)
        while t <= end or len(times) < 2:
            times.append(t)
            t += rng.choice([1, 2, 3]) * max(1, step // rng.choice([1, 2, 3])) + rng.randrange(0, 2)
            if len(times) > 400:
                break
        return times, None
    # first sample at or just before `start`, congruent to phase
    t = start - ((start - phase) % delta)
    while t <= end or len(times) < 2:
        times.append(t)
        t += delta
        if len(times) > 600:
            break
    return times, delta


def cut_gaps(rng, times, ngaps, grid_like_step, anchor):
    """Remove `ngaps` runs of interior samples. Returns the remaining instants."""
    m = len(times)
    if m < 4 or ngaps == 0:
        return times
    keep = [True] * m
    for _ in range(ngaps):
        where = rng.randrange(5)
        ln = rng.choice([1, 1, 2, 3, rng.randrange(1, max(2, m // 4))])
        if where == 0:      # right after the first sample
            i = 1
        elif where == 1:    # right before the last sample
            i = m - 1 - ln
        elif where == 2:    # a single sample that is not a grid instant, if there is one
            cand = [j for j in range(1, m - 1) if (times[j] - anchor) % grid_like_step != 0]
            i, ln = (rng.choice(cand), 1) if cand else (rng.randrange(1, m - 1), 1)
        else:
            i = rng.randrange(1, m - 1)
        for j in range(max(1, i), min(m - 1, i + ln)):
            keep[j] = False
    return [t for t, k in zip(times, keep) if k]


def gen_valid(rng, cls, step=None, base=None, n_rain=None):
    if step is None:
        step = rng.choice(STEPS)
    if base is None:
        base = rng.choice(BASES) + rng.randrange(0, 86400)
    if n_rain is None:
        n_rain = rng.choice([2, 3, 4, 6, 9, 14, 20, 28])
    rain_t = [base + k * step for k in range(n_rain)]
    mode = cls.split('_')[0] if cls.split('_')[0] in ('same', 'coarser', 'finer', 'nonaligned', 'irregular') \
        else rng.choice(['same', 'same', 'coarser', 'finer', 'nonaligned'])
    # offsets of the water-level record relative to the rainfall record
    if cls == 'tight':
        a, b = 0, 0
    elif cls == 'wl_outlasts':
        a = -rng.choice([0, 1, step // 2, step, 3 * step + 1])
        b = rng.choice([1, step - 1, step, step + 1, 2 * step, 5 * step + 3])
    elif cls == 'rain_outlasts':
        a = rng.choice([0, 1, step - 1, step, 2 * step + 1]) if n_rain > 6 else rng.choice([0, 1])
        b = -rng.choice([0, 1, step - 1, step, 2 * step + 1]) if n_rain > 6 else 0
    else:
        a = rng.choice([0, 0, -step, -1, 1, -(step // 2), step + 1, -3 * step]) if n_rain > 4 else rng.choice([0, -1, -step])
        b = rng.choice([0, 0, step, 1, -1, step - 1, step // 2, 3 * step, -step]) if n_rain > 4 else rng.choice([0, 1, step])
    start, end = rain_t[0] + a, rain_t[-1] + b
    if mode == 'same' and rng.random() < 0.7:
        start = rain_t[0] + (a // step) * step      # aligned with the rainfall instants
    times, delta = wl_times_for(rng, mode, step, start, end)
    ngaps = 0
    if cls.endswith('_gappy'):
        ngaps = rng.choice([1, 1, 2, 3, 4])
    elif cls not in ('tight',) and rng.random() < 0.25:
        ngaps = rng.choice([1, 2])
    times = cut_gaps(rng, times, ngaps, step, rain_t[0])
    wl = wl_series(rng, times)
    grid = span_grid(rain_t, times)
    if cls == 'rain_ragged_outside':
        # irregular rainfall rows outside the span of the water level (ignored by load)
        lo, hi = min(times), max(times)
        extra = [lo - rng.randrange(1, 5 * step) for _ in range(rng.randrange(1, 4))]
        extra += [hi + rng.randrange(1, 5 * step) for _ in range(rng.randrange(1, 4))]
        rain_t = sorted(set(rain_t) | set(extra))
    rain_lo, rain_hi = rng.choice([(0, 0), (0, 12), (0, 60), (0, 3)])
    rain = [[t, '0' if rng.random() < 0.5 else dec_text(rng, rain_lo, rain_hi)] for t in rain_t]
    # ET: every grid instant and the closing one; possibly the whole rainfall record and more
    closing = (grid[-1] + step) if grid else rain_t[-1] + step
    et_t = set(grid) | {closing}
    k = rng.randrange(4)
    if k == 0:
        et_t |= set(rain_t) | {rain_t[-1] + step}
    elif k == 1:
        et_t |= {closing + j * step for j in range(1, 4)} | {(grid[0] if grid else base) - j * step for j in range(1, 3)}
    elif k == 2:
        et_t |= {t + rng.randrange(1, step) for t in list(et_t)[:3]} if step > 1 else set()
    et = [[t, dec_text(rng, 0, 0.4)] for t in sorted(et_t)]
    return dict(cls=cls, tz='UTC', pre=None, step=step, mode=mode,
                rain=order_rows(rng, rain), et=order_rows(rng, et), wl=order_rows(rng, wl))


def gen_malformed(rng, cls):
    for _ in range(50):
        c = gen_valid(rng, rng.choice(['same', 'coarser', 'finer', 'nonaligned', 'same_gappy', 'wl_outlasts',
                                       'rain_outlasts', 'finer_gappy']))
        grid = span_grid([t for t, _ in c['rain']], [t for t, _ in c['wl']])
        if len(grid) >= 4:
            break
    step = c['step']
    c['cls'] = cls
    if cls == 'nonuniform_inside':
        how = rng.randrange(4)
        g = rng.choice(grid[1:-1])
        if how == 0:      # one record missing inside the span
            c['rain'] = [r for r in c['rain'] if r[0] != g]
        elif how == 1 and step > 1:    # one record displaced by a second
            c['rain'] = [[r[0] + rng.choice([-1, 1]), r[1]] if r[0] == g else r for r in c['rain']]
        elif how == 2 and step > 1:    # one extra record inside a step
            c['rain'].insert(rng.randrange(len(c['rain']) + 1), [g + rng.randrange(1, step), '0.7'])
        else:             # the step changes half way
            c['rain'] = [r for r in c['rain'] if r[0] <= g or ((r[0] - g) // step) % 2 == 0]
    elif cls == 'et_missing':
        closing = grid[-1] + step
        g = rng.choice([grid[0], grid[-1], closing, rng.choice(grid), rng.choice(grid)])
        c['et'] = [r for r in c['et'] if r[0] != g]
        c['et_dropped'] = g
    elif cls == 'duplicate':
        which = rng.choice(['rain', 'et', 'wl'])
        r = list(rng.choice(c[which]))
        if rng.random() < 0.5:
            r[1] = '7.5'
        c[which].insert(rng.randrange(len(c[which]) + 1), r)
    elif cls == 'populated':
        c['pre'] = rng.choice(['ok', 'ok', 'failed'])
    elif cls == 'little_overlap':
        how = rng.randrange(3)
        rain_t = sorted(t for t, _ in c['rain'])
        if how == 0:      # water level entirely before the rainfall record
            shift = (max(t for t, _ in c['wl']) - rain_t[0]) + rng.randrange(1, 3 * step)
            c['wl'] = [[t - shift, v] for t, v in c['wl']]
        elif how == 1:    # exactly one rainfall instant within the span
            c['wl'] = [[rain_t[1] - rng.randrange(0, step), '-1.5'], [rain_t[1] + rng.randrange(0, step), '-2.5']]
            if c['wl'][0][0] == c['wl'][1][0]:
                c['wl'][1][0] += 1 if step > 1 else 0
            if c['wl'][0][0] == c['wl'][1][0]:
                c['wl'] = c['wl'][:1]
        else:             # a single water-level sample
            c['wl'] = [[rain_t[1], '-3.25']]
    elif cls == 'empty':
        which = rng.choice(['rain', 'et', 'wl'])
        c[which] = []
    return c


def _valid_with_grid(rng, at_least, classes):
    for _ in range(200):
        c = gen_valid(rng, rng.choice(classes))
        grid = span_grid([t for t, _ in c['rain']], [t for t, _ in c['wl']])
        if len(grid) >= at_least:
            return c, grid
    raise RuntimeError('no valid case with %d grid instants found' % at_least)


def gen_et_malformed(rng, cls):
    """A well-formed triple whose evapotranspiration record is then damaged so
    that one or more grid steps have no ET: at the leading steps, at the
    trailing ones, at several places, at all but every m-th, or everywhere."""
    c, grid = _valid_with_grid(rng, 5, ['same', 'coarser', 'finer', 'nonaligned', 'same_gappy', 'wl_outlasts',
                                        'rain_outlasts', 'finer_gappy', 'irregular', 'rain_ragged_outside'])
    step = c['step']
    closing = grid[-1] + step
    et = list(c['et'])
    m = len(grid)
    if cls == 'et_off_phase' and step == 1:
        cls = 'et_holes'
    c['cls'] = cls
    if cls == 'et_starts_late':
        k = rng.choice([1, 1, 2, m // 2, m - 1, m])         # ET begins at grid[k] (m: at the closing instant)
        first = (grid + [closing])[k]
        lo = grid[0] if rng.random() < 0.4 else None         # 0.4: a hole at the leading steps, ET exists before it
        et = [r for r in et if r[0] >= first or (lo is not None and r[0] < lo)]
    elif cls == 'et_ends_early':
        k = rng.choice([1, 1, 2, m // 2, m - 1])             # ET stops before grid[-k]
        last = grid[-k]
        hi = closing if rng.random() < 0.4 else None         # 0.4: ET resumes after the closing instant
        keep_closing = rng.random() < 0.3
        et = [r for r in et if r[0] < last or (hi is not None and r[0] > hi) or (keep_closing and r[0] == closing)]
    elif cls == 'et_holes':
        nh = rng.choice([2, 2, 3, m // 2])
        if rng.random() < 0.5:                               # one run of nh instants
            i = rng.randrange(0, m - nh + 1)
            holes = set(grid[i:i + nh])
        else:                                                # scattered
            holes = set(rng.sample(grid, min(nh, m)))
        if rng.random() < 0.25:
            holes.add(closing)
        et = [r for r in et if r[0] not in holes]
    elif cls == 'et_coarser':
        k = rng.choice([2, 2, 3])
        ph = rng.randrange(k)
        keep = {g for j, g in enumerate(grid + [closing]) if j % k == ph}
        et = [r for r in et if r[0] in keep or not grid[0] <= r[0] <= closing]
    elif cls == 'et_off_phase':
        d = rng.choice([1, step - 1, step // 2 or 1, rng.randrange(1, step)])
        et = [[r[0] + d, r[1]] for r in et]
    c['et'] = order_rows(rng, sorted(et))
    return c


def gen_nonuniform_edge(rng, cls):
    """The only odd rainfall step is the last (first) one within the span of the
    water-level record, and the rainfall record that closes it lies `off`
    seconds inside the span, counted from its last (first) water-level
    timestamp: off = 0 exactly on it, 1 just inside, -1 just outside (then the
    input is well-formed)."""
    at_end = cls == 'nonuniform_at_end'
    s = 1 if at_end else -1
    for _ in range(200):
        c, grid = _valid_with_grid(rng, 5, ['same', 'coarser', 'finer', 'nonaligned', 'same_gappy', 'wl_outlasts',
                                            'rain_outlasts', 'finer_gappy', 'irregular'])
        step = c['step']
        inner, edge = (grid[-2], grid[-1]) if at_end else (grid[1], grid[0])
        rain = {t: v for t, v in c['rain']}
        how = rng.randrange(3)
        if how == 0:          # the record before the edge one is missing
            del rain[inner]
            T = edge
        else:                 # the edge record is displaced; the record goes on from it, or stops
            d = rng.choice([d for d in (1, step - 1, step + 1, 2 * step, 2 * step - 1, 3 * step, step // 2)
                            if d >= 1 and d != step])
            T = inner + s * d
            rain = {t: v for t, v in rain.items() if s * (t - inner) <= 0}
            cont = rng.choice([0, 0, 1, 3])
            sp = step if how == 1 else d
            for j in range(cont + 1):
                rain[T + s * j * sp] = '0' if rng.random() < 0.5 else dec_text(rng, 0, 12)
        off = rng.choice([0, 0, 0, 0, 1, -1])
        W = T + s * off       # the last (first) water-level timestamp
        wl = {t: v for t, v in c['wl'] if s * (t - W) <= 0}
        wl.setdefault(W, '%.2f' % (-20 * rng.random()))
        ingrid = span_grid(list(rain), list(wl))
        if len(wl) < 2 or len(ingrid) < 3:
            continue
        # ET wherever any reading of the input could want it
        et = {t: v for t, v in c['et']}
        for t in list(rain):
            for u in (t, t + step):
                et.setdefault(u, dec_text(rng, 0, 0.4))
        c['cls'] = cls
        c['edge_off'] = off
        c['rain'] = order_rows(rng, sorted([t, v] for t, v in rain.items()))
        c['et'] = order_rows(rng, sorted([t, v] for t, v in et.items()))
        c['wl'] = order_rows(rng, sorted([t, v] for t, v in wl.items()))
        return c
    raise RuntimeError('no nonuniform-edge case found')


# ------------------------------------------------------------- large inputs (own classes, drawn only when asked for)
#
# Sizes past the round numbers software chunks at.  These cases are judged by the oracles only (never sent to
# Coq: reading tens of thousands of literals dominates).

CHUNKS = [1000, 1024, 4096, 8192, 10000, 32768, 65536]


def round_indices(chunks=(1000, 1024), multiples=(1, 2, 3), around=(-1, 0, 1), extra=(4095, 4096, 4097)):
    """0-based indices sitting on / one beside the multiples of the chunk sizes."""
    return sorted({m * c + d for c in chunks for m in multiples for d in around} | set(extra))


def gen_et_hole_large(rng, idx, lead=None):
    """A well-formed triple with more than `idx` grid steps whose evapotranspiration record lacks exactly ONE
    grid instant: the one with 0-based index `idx` on the time grid (idx sits on / beside a multiple of a chunk
    size: see round_indices).  With lead > 0 the rainfall and ET files begin `lead` records before the water level,
    so that the index in the files differs from the index on the grid.  The record is not a multiple of any chunk
    size long.  Water level on the rainfall step or coarser (keeps the files small), sorted or in another row
    order."""
    step = rng.choice([60, 300, 600, 900, 1800, 3600, 1200])
    base = rng.choice(BASES) + rng.randrange(0, 86400)
    if lead is None:
        lead = rng.choice([0, 0, 1, 3, 17])
    tail = rng.choice([1, 2, 3, 7, 40, 150])          # grid steps after the hole
    n_grid = idx + 1 + tail
    while any(n_grid % c == 0 or (n_grid + 1) % c == 0 for c in CHUNKS):
        n_grid += 1
    rain_t = [base + (k - lead) * step for k in range(n_grid + lead + rng.choice([0, 0, 2]))]
    k = rng.choice([1, 1, 2, 4])
    m = -(-(n_grid - 1) // k)                          # water level from grid[0] to at least grid[n_grid - 1]
    wl_t = [base + j * k * step for j in range(m + 1)]
    grid = span_grid(rain_t, wl_t)
    closing = grid[-1] + step
    hole = grid[idx]
    et_t = sorted((set(rain_t) | {closing, rain_t[-1] + step}) - {hole})
    z = rng.choice([-400.0, -50.0, -3.0])
    wl = []
    for t in wl_t:
        z += (rng.random() - 0.5) * 2.0
        wl.append([t, '%.1f' % z])
    rain = [[t, '0' if rng.random() < 0.7 else '%.1f' % (10 * rng.random())] for t in rain_t]
    et = [[t, '0.1' if rng.random() < 0.5 else '%.3f' % (0.4 * rng.random())] for t in et_t]
    return dict(cls='et_hole_at_round_index', tz='UTC', pre=None, step=step, hole_index=idx, lead=lead,
                rain=order_rows(rng, rain), et=order_rows(rng, et), wl=order_rows(rng, wl))


def gen_long_record(rng, which, n_rows, holes=0):
    """A well-formed triple in which the file `which` ('wl' / 'rain') has n_rows data rows (choose n_rows past a
    chunk size, not a multiple of it).  'wl': the water level is logged `fine` times per rainfall step (5 / 10 / 15
    minutes under hourly or half-hourly rain), so a source row that goes missing shows as a gap of the record
    (two labels on one stretch, or a grid instant without water level).  'rain': rainfall, ET and water level all
    on one step.  `holes` genuine gaps (1-3 missing samples each) are cut into the water-level record, the first
    one right across the first chunk boundary of the file, so that gap handling is exercised at that size too.
    Rows sorted in time (a logger file), or two sorted blocks swapped."""
    if which == 'wl':
        fine = rng.choice([2, 3, 4, 6, 12])
        step = rng.choice([1800, 3600, 7200])
        while step % fine:
            fine = rng.choice([2, 3, 4, 6, 12])
        fs = step // fine
        n_wl = n_rows
    else:
        fine, step = 1, rng.choice([60, 300, 600])
        fs = step
        n_wl = n_rows - rng.choice([0, 1, 5])
    base = rng.choice([946684800, 1583020800, 1711846800, 86400 * 365 * 60]) + rng.randrange(0, 86400) // fs * fs
    phase = rng.choice([0, 0, rng.randrange(fine)])             # the first sample is / is not a grid instant
    wl_t = [base + (j - phase) * fs for j in range(n_wl + 8 * holes)]
    cut = set()
    for h in range(holes):
        bounds = [c for c in CHUNKS if 8 < c < len(wl_t) - 8]
        at = (rng.choice(bounds) if h else min(bounds, key=lambda c: abs(c - 65536))) if bounds else len(wl_t) // 2
        ln = rng.choice([1, 2, 3])
        s = at - rng.randrange(0, ln + 1)
        cut |= set(range(max(1, s), min(len(wl_t) - 1, s + ln)))
    wl_t = [t for j, t in enumerate(wl_t) if j not in cut][:n_wl]
    lead = rng.choice([0, 1, 3])
    n_rain = (wl_t[-1] - base) // step + 1 + lead + rng.choice([0, 1, 2])
    if which == 'rain':
        n_rain = n_rows
    rain_t = [base + (k - lead) * step for k in range(n_rain)]
    grid = span_grid(rain_t, wl_t)
    et_t = sorted(set(rain_t) | {grid[-1] + step, rain_t[-1] + step})
    z = rng.choice([-400.0, -50.0, -3.0])
    wl = []
    for t in wl_t:
        z += (rng.random() - 0.5) * 2.0
        wl.append([t, '%.1f' % z])
    rain = [[t, '0' if rng.random() < 0.8 else '%.1f' % (10 * rng.random())] for t in rain_t]
    et = [[t, '0.1' if rng.random() < 0.5 else '%.3f' % (0.4 * rng.random())] for t in et_t]

    def order(rows):
        if rng.random() < 0.3 and len(rows) > 3:
            c = rng.randrange(1, len(rows))
            return rows[c:] + rows[:c]
        return rows
    return dict(cls='long_' + which, tz='UTC', pre=None, step=step, fine=fine,
                rain=order(rain), et=order(et), wl=order(wl))


# ------------------------------------------------------------- records over a change of the zone's UTC offset

def gen_across_transition(rng, transition, cls=None):
    """A well-formed triple, uniform in UTC, laid over the instant `transition` (a change of the UTC offset of the
    zone the files will be written in) such that the three files do NOT all begin on the same side of it: one or
    two of them are cut down to the rows at / after the transition.  Returns the case (tz still 'UTC': the caller
    sets the zone and decides whether every instant can be written on that zone's clock) with case['starts'] =
    which files begin before the transition."""
    step = rng.choice([300, 600, 900, 1200, 1800, 3600, 7200, 10800])
    n = rng.choice([9, 14, 20, 28, 40])
    k = rng.randrange(2, n - 3)
    base = transition - k * step + rng.choice([0, 0, rng.randrange(step)])
    cls = cls or rng.choice(['same', 'coarser', 'finer', 'nonaligned', 'same_gappy', 'wl_outlasts', 'finer_gappy'])
    c = gen_valid(rng, cls, step=step, base=base, n_rain=n)
    how = rng.choice(['wl_after', 'wl_after', 'rain_after', 'et_after', 'rain_et_after', 'wl_et_after', 'rain_wl_after',
                      'none'])
    if how in ('rain_after', 'rain_et_after'):
        # the water level must begin before the transition for the starts to differ
        if min(t for t, _ in c['wl']) >= transition:
            how = 'wl_after'
    if how in ('wl_after', 'wl_et_after', 'rain_wl_after'):
        c['wl'] = [r for r in c['wl'] if r[0] >= transition]
    if how in ('rain_after', 'rain_et_after', 'rain_wl_after'):
        c['rain'] = [r for r in c['rain'] if r[0] >= transition]
    if how in ('et_after', 'rain_et_after', 'wl_et_after'):
        grid = span_grid([t for t, _ in c['rain']], [t for t, _ in c['wl']])
        lo = min([transition] + grid[:1])
        c['et'] = [r for r in c['et'] if r[0] >= lo]
    c['cls'] = 'across_transition'
    c['how'] = how
    return c


def gen_case(rng, cls):
    if cls in VALID_CLASSES:
        return gen_valid(rng, cls)
    if cls in ET_MALFORMED_CLASSES:
        return gen_et_malformed(rng, cls)
    if cls in NONUNIFORM_EDGE_CLASSES:
        return gen_nonuniform_edge(rng, cls)
    return gen_malformed(rng, cls)
