"""Entry point: ./check Cxx [--tier quick|thorough] [--replay FILE]

One run = (1) re-check the Coq proof obligations of the property,
(2) correspondence between the Coq model and the current /repo code on generated
inputs, (3) direct oracle on the implementation's outputs, (4) classify, print
VIOLATION / KNOWN-FINDING lines, write evidence/<id>.json.
"""
import argparse
import importlib
import json
import os
import re
import sys
import time
import traceback

sys.path.insert(0, os.path.dirname(os.path.dirname(os.path.abspath(__file__))))
from harness import common as C  # noqa: E402


# properties whose Properties file depends on coq/Generated/*.v (written by harness/translate.py on every run)
TRANSLATED = {'C04', 'C13'}


def theorem_names(path):
    text = C.strip_comments(open(path).read())
    return re.findall(r'^\s*(?:Theorem|Corollary)\s+([A-Za-z0-9_\']+)', text, re.M)


def parse_assumption_blocks(out):
    """Split coqc output into the blocks printed by `Print Assumptions`: one list of
    axiom names per block (empty for "Closed under the global context").  Inside an
    `Axioms:` block an axiom starts at column 0 (`Qualified.name : type`, or the name
    alone when the type is printed on the following, indented lines); indented lines
    continue the type."""
    blocks, cur = [], None
    name_re = re.compile(r"^([A-Za-z_][A-Za-z0-9_.']*)\s*(:.*)?$")
    for line in out.split('\n'):
        if line.startswith('Closed under the global context'):
            if cur is not None:
                blocks.append(cur)
            blocks.append([])
            cur = None
        elif line.startswith('Axioms:'):
            if cur is not None:
                blocks.append(cur)
            cur = []
        elif cur is not None:
            if line.startswith(' ') or line.strip() == '':
                continue
            m = name_re.match(line)
            if m and not line.startswith(('File ', 'Warning', 'Error')):
                cur.append(m.group(1) + ' :')
            else:
                blocks.append(cur)
                cur = None
    if cur is not None:
        blocks.append(cur)
    return blocks


def check_proofs(prop, tier, extra_targets=()):
    """Re-check every proof obligation of the property from source."""
    info = dict(obligations=0, discharged=0, theorems=[], failed=[], axioms=[],
                hygiene=[], checker_cmd='', wall_s=0.0, log_tail='')
    t0 = time.time()
    pfile = os.path.join(C.COQ, 'Properties', prop + '.v')
    if not os.path.exists(pfile):
        info['failed'].append('Properties/%s.v missing' % prop)
        info['obligations'] = 1
        return info
    if prop in TRANSLATED:
        # regenerate the Gallina text of the translated functions from the tree under test (fail closed)
        from harness import translate
        for problem in translate.regenerate():
            info['failed'].append(problem)
    names = theorem_names(pfile)
    info['theorems'] = names
    info['obligations'] = len(names)
    info['hygiene'] = C.hygiene(C.dep_sources('Properties/%s.v' % prop))
    info['checker_cmd'] = ('make -C coq Properties/%s.vo (coq_makefile, full .vo build) ; '
                           'coqc -Q coq Spowtd coq/Properties/%s.v (Print Assumptions)' % (prop, prop))
    rc, out, _ = C.make(['Properties/%s.vo' % prop] + list(extra_targets))
    if rc != 0:
        info['failed'].append('make Properties/%s.vo failed' % prop)
        info['log_tail'] = out[-3000:]
        m = re.search(r'File "\./([^"]+)", line (\d+)', out)
        if m:
            info['failed'].append('first error at %s:%s' % (m.group(1), m.group(2)))
        info['wall_s'] = time.time() - t0
        return info
    rc, out, _ = C.coqc(pfile, timeout=900)
    blocks = parse_assumption_blocks(out)
    if rc != 0:
        info['failed'].append('coqc Properties/%s.v failed' % prop)
        info['log_tail'] = out[-3000:]
        info['discharged'] = min(len(blocks), len(names))
    else:
        if len(blocks) < len(names):
            info['failed'].append('%d theorems but only %d Print Assumptions blocks'
                                  % (len(names), len(blocks)))
            info['discharged'] = len(blocks)
        else:
            info['discharged'] = len(names)
    axioms = set()
    for b in blocks:
        for line in b:
            m = re.match(r'^([A-Za-z0-9_\.\']+)\s*:', line)
            if m:
                axioms.add(m.group(1))
    info['axioms'] = sorted(axioms)
    if info['hygiene']:
        info['failed'].append('hygiene scan: ' + '; '.join(info['hygiene'][:5]))
    if tier == 'thorough' and not info['failed'] and os.environ.get('VERIF_NO_COQCHK') != '1':
        # Interval.Tactic (the library module shipped compiled by Debian) is admitted: coqchk has no VM and does
        # not get through that module's own reflexive proofs (exp_fast_correct) in hours; every file of this
        # development and every other library it loads is re-checked.
        rc, out, _ = C.sh(['coqchk', '-silent', '-Q', '.', 'Spowtd', '-o', '-admit', 'Interval.Tactic',
                           'Spowtd.Properties.%s' % prop], cwd=C.COQ, timeout=2400)
        info['coqchk_rc'] = rc
        info['coqchk_tail'] = out[-1500:]
        info['checker_cmd'] += ' ; coqchk -silent -Q coq Spowtd -o -admit Interval.Tactic Spowtd.Properties.%s' % prop
        if rc != 0:
            info['failed'].append('coqchk failed')
    info['wall_s'] = time.time() - t0
    return info


def load_known():
    path = os.path.join(C.VERIF, 'known_findings.json')
    if not os.path.exists(path):
        return []
    return json.load(open(path)).get('findings', [])


def write_replay(prop, seed, n, payload):
    d = os.path.join(C.OUT, 'replays')
    os.makedirs(d, exist_ok=True)
    path = os.path.join(d, '%s_seed%d_%d.json' % (prop, seed, n))
    with open(path, 'w') as f:
        json.dump(C.jsonable(payload), f, indent=1, sort_keys=True)
    return path


def main(argv=None):
    ap = argparse.ArgumentParser()
    ap.add_argument('prop')
    ap.add_argument('--tier', default=os.environ.get('VERIF_TIER') or 'quick',
                    choices=['quick', 'thorough'])
    ap.add_argument('--replay', default=None)
    ap.add_argument('--no-proofs', action='store_true',
                    help='development only: skip the Coq proof re-check')
    args = ap.parse_args(argv)
    prop = args.prop
    try:
        seed = int(os.environ.get('VERIF_SEED') or 0)
    except ValueError:
        seed = 0
    tier = args.tier
    t0 = time.time()
    mod = importlib.import_module('harness.props.' + prop.lower())

    if args.replay:
        payload = json.load(open(args.replay))
        out = C.Outcome(prop)
        if payload.get('case') is None:
            print('replay file names a broken proof obligation / correspondence, no input: %s'
                  % payload.get('message'))
            # re-check that obligation
            info = check_proofs(prop, 'quick')
            if info['failed']:
                print('VIOLATION property=%s replay=%s no-failing-input-found' % (prop, args.replay))
                return 1
            return 0
        mod.replay(payload['case'], out)
        reals = [v for v in out.violations]
        for v in reals:
            print('  ' + v['message'])
        if reals:
            print('VIOLATION property=%s replay=%s' % (prop, args.replay))
            return 1
        print('replay: no violation reproduced')
        return 0

    out = C.Outcome(prop)
    info = dict(obligations=0, discharged=0, theorems=[], failed=[], axioms=[], hygiene=[],
                checker_cmd='skipped', wall_s=0.0)
    if not args.no_proofs:
        info = check_proofs(prop, tier, getattr(mod, 'MODELS', ()))
    crashed = None
    try:
        mod.run(dict(seed=seed, tier=tier), out)
    except Exception:  # harness failure is a broken check, fail closed
        crashed = traceback.format_exc()
        print(crashed)

    known = [k for k in load_known() if k.get('property') == prop and k.get('status') == 'open']
    known_hit = {}
    real, broken = [], []
    for v in out.violations:
        sig = v.get('signature')
        k = next((k for k in known if sig and k.get('signature') == sig), None)
        if k is not None:
            known_hit.setdefault(k['id'], (k, v))
        elif v['kind'] == 'oracle':
            real.append(v)
        else:
            broken.append(v)
    for path, text in out.corr_errors:
        broken.append(dict(kind='corr-error', message='case file did not evaluate: %s\n%s' % (path, text),
                           case=None, signature=None))
    for f in info['failed']:
        broken.append(dict(kind='proof', message='proof obligation: ' + f, case=None, signature=None))
    if crashed:
        broken.append(dict(kind='harness', message='harness crashed: ' + crashed[-1500:], case=None,
                           signature=None))

    for kid, (k, v) in sorted(known_hit.items()):
        print('KNOWN-FINDING: property=%s %s' % (prop, k.get('what', kid)))
    for k in known:
        if k['id'] not in known_hit:
            print('note: listed finding %s did not reproduce in this run' % k['id'])

    rc = 0
    lines = []
    n = 0
    if real:
        seen = set()
        for v in real:
            key = v['message'][:80]
            if key in seen or n >= 5:
                continue
            seen.add(key)
            path = write_replay(prop, seed, n, dict(property=prop, kind=v['kind'], message=v['message'],
                                                    case=v['case'], seed=seed, tier=tier))
            print('  ' + v['message'][:1500])
            lines.append('VIOLATION property=%s replay=%s' % (prop, path))
            n += 1
        rc = 1
    elif broken:
        # proof or correspondence broken and the search found no failing input
        msgs = [b['message'] for b in broken[:10]]
        first_case = next((b['case'] for b in broken if b.get('case') is not None), None)
        path = write_replay(prop, seed, 0, dict(
            property=prop, kind='unproved',
            message='no failing input found; what no longer checks: ' + ' || '.join(msgs),
            broken=[dict(kind=b['kind'], message=b['message'][:3000]) for b in broken[:20]],
            disagreeing_case=first_case, case=None, seed=seed, tier=tier,
            theorems=info.get('theorems'), proof_log_tail=info.get('log_tail', '')))
        for m in msgs[:5]:
            print('  ' + m[:1500])
        lines.append('VIOLATION property=%s replay=%s no-failing-input-found' % (prop, path))
        rc = 1
    for l in lines:
        print(l)

    trusted = ['Coq 8.16.1 kernel + vm_compute (no native_compute)',
               'axioms reported by Print Assumptions: ' + (', '.join(info['axioms']) or 'none (closed under the global context)'),
               'hand-written Coq model tied to /repo by the correspondence check of this run']
    trusted += list(out.assumptions)
    ev = dict(
        property_id=prop, tier=tier, seed=seed, level='proof',
        coverage=dict(
            obligations=max(info['obligations'], 1) if not args.no_proofs else 1,
            discharged=info['discharged'] if not args.no_proofs else 0,
            checker_cmd=info['checker_cmd'] or 'n/a',
            trusted_base=trusted,
            theorems=info['theorems'],
            proof_failures=info['failed'],
            proof_wall_s=round(info.get('wall_s', 0.0), 2),
            coqchk=info.get('coqchk_tail'),
            evaluations=max(out.evaluations, 0),
            distinct_nontrivial=len(out.nontrivial),
            rule=out.rule,
            samples=C.jsonable(out.samples[:6]) or ['(no cases)'],
            input_distribution=C.jsonable(out.dist),
            correspondence_disagreements=len([v for v in out.violations if v['kind'] == 'corr']),
            oracle_violations=len([v for v in out.violations if v['kind'] == 'oracle']),
            known_findings_reproduced=sorted(known_hit),
            notes=out.notes,
        ),
        assumptions=list(out.assumptions),
        wall_s=round(time.time() - t0, 2),
        violations=len(real) + (1 if (broken and not real) else 0),
    )
    # a development run without the proof re-check must not overwrite the committed evidence
    evdir = os.path.join(C.WORK, 'evidence-noproofs') if args.no_proofs else os.path.join(C.OUT, 'evidence')
    os.makedirs(evdir, exist_ok=True)
    with open(os.path.join(evdir, prop + '.json'), 'w') as f:
        json.dump(ev, f, indent=1, sort_keys=True)
    print('%s %s: %d/%d obligations, %d cases (%d distinct non-trivial), %d violations, %.1fs'
          % (prop, tier, info['discharged'], info['obligations'], out.evaluations,
             len(out.nontrivial), ev['violations'], time.time() - t0))
    return rc


if __name__ == '__main__':
    sys.exit(main())
