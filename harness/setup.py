"""MANIFEST.setup_cmd: build the whole Coq development from the files on disk."""
import sys
from harness import common as C


def main():
    C.ensure_makefile()
    rc, out, secs = C.make([], timeout=3600)
    print(out[-3000:])
    print('coq build: rc=%d in %.0fs' % (rc, secs))
    return rc


if __name__ == '__main__':
    sys.exit(main())
