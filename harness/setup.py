"""MANIFEST.setup_cmd: build the Coq development for every claimed property from
the files on disk (full .vo build through coq_makefile; no -vos)."""
import importlib
import json
import os
import sys

from harness import common as C


def main():
    man = json.load(open(os.path.join(C.VERIF, 'MANIFEST.json')))
    targets = []
    for c in man['checks']:
        pid = c['property_id']
        targets.append('Properties/%s.vo' % pid)
        try:
            mod = importlib.import_module('harness.props.' + pid.lower())
            targets += list(getattr(mod, 'MODELS', ()))
        except Exception as e:  # pylint: disable=broad-except
            print('warning: cannot import harness.props.%s: %r' % (pid.lower(), e))
    for f in sorted(os.listdir(os.path.join(C.COQ, 'Refuted'))) if os.path.isdir(os.path.join(C.COQ, 'Refuted')) else []:
        if f.endswith('.v'):
            targets.append('Refuted/' + f + 'o')
    targets = sorted(set(targets))
    from harness import translate
    for problem in translate.regenerate():   # coq/Generated/*.v from the current /repo source
        print('translator: ' + problem)
    C.ensure_makefile()
    rc, out, secs = C.make(targets, timeout=3600)
    print(out[-3000:])
    print('coq build of %d targets: rc=%d in %.0fs' % (len(targets), rc, secs))
    problems = C.hygiene(C.all_coq_sources())
    if problems:
        print('hygiene scan (informational here; each check fails closed on its own dependencies):')
        for p in problems[:20]:
            print('  ' + p)
    return rc


if __name__ == '__main__':
    sys.exit(main())
