"""C06 — a planted master curve is recovered from its shifted pieces, through the
whole command-line workflow (load, classify, set-zeta-grid, rise, recession).

Oracle: exact comparison (fractions) of every table row with the planted truth.
Coq correspondence: the exact model of find_offsets, run on the crossing values
the implementation stored, must reproduce the stored offsets up to the origin.
"""
import os
from fractions import Fraction

os.environ.setdefault('OPENBLAS_NUM_THREADS', '1')   # (before numpy is loaded: a busy machine makes threaded BLAS 100x slower on the large cases)
from harness import common as C  # noqa: E402
from harness import curves_common as CC
from harness.props import c05 as P5

PROP = 'C06'
MODELS = ['Model/FitOffsets.vo']   # .vo files the generated case files import
PRE = 'From Spowtd Require Import Model.FitOffsets.\nClose Scope Q_scope.\n'


def close(a, b, scale):
    return abs(a - b) <= 1e-6 * (1 + abs(scale))


def check_dataset(r, out, corr):
    plan, truth = r['plan'], r['truth']
    case = dict(level='CL', plan=plan)
    if r['status'] != 'ok':
        import math
        g_ = plan['grid_step']

        def levels(lo, hi):
            return set(range(math.ceil(Fraction(lo) / Fraction(g_)), math.ceil(Fraction(hi) / Fraction(g_))))
        if r['status'] == 'rise-fail':
            sets = [levels(x['zi'], x['zf']) for x in truth['rises']]
        elif r['status'] == 'recession-fail':
            L = plan['lattice']
            sets = [levels(L[p['m0'] + p['last'] - p['first']], L[p['m0']]) for p in truth['pieces']]
        else:
            sets = None
        if sets is not None and not any(a & b for i, a in enumerate(sets) for b in sets[i + 1:]):
            out.count('no-two-intervals-share-a-level(' + r['status'] + ')')
            return
        out.violation('oracle', 'workflow step failed on a dataset generated from a ground truth: %s %r'
                      % (r['status'], r.get('exc')), case=case)
        return
    step, t0, g = plan['step'], plan['t0'], plan['grid_step']
    sigma = plan['sigma']
    # the master curves are observed through the views: they must show exactly what the tables hold
    bad_views = CC.view_table_complaints(r)
    for msg in bad_views:
        out.violation('oracle', 'master-curve view <> tables: ' + msg, case=case)
    if bad_views:
        return
    ep = lambda i: t0 + i * step           # noqa: E731
    # --- classified intervals are the planted pieces and rises
    inter = sorted((a, b) for a, t, b in r['zeta_interval'] if t == 'interstorm')
    want = sorted((ep(p['first']), ep(p['last'])) for p in truth['pieces'] if p['last'] > p['first'])
    if inter != want:
        out.violation('oracle', 'recorded interstorm intervals %s differ from the planted recession pieces %s' % (inter, want), case=case)
        return
    rises = sorted((a, b) for a, t, b in r['zeta_interval'] if t == 'storm')
    want_r = sorted((ep(x['start']), ep(x['stop'])) for x in truth['rises'])
    if rises != want_r:
        out.violation('oracle', 'recorded rises %s differ from the planted rises %s' % (rises, want_r), case=case)
        return
    piece_of = {ep(p['first']): p for p in truth['pieces']}
    rise_of = {ep(x['start']): x for x in truth['rises']}
    # --- recession: every stored crossing time is the truth's
    by_level = {}
    for start, zn, t in r['recession_interval_zeta']:
        p = piece_of.get(start)
        if p is None:
            out.violation('oracle', 'recession crossing row for %s, which is not a recession piece' % start, case=case)
            return
        h = Fraction(zn) * Fraction(g)
        tt = CC.truth_time_of_level(plan, h)
        if tt is None:
            out.violation('oracle', 'level %s outside the planted curve is reported' % float(h), case=case)
            return
        want_t = float((tt - p['m0']) * step)
        if not close(t, want_t, want_t):
            out.violation('oracle', 'piece starting %s crosses level %s mm at %.9g s after its start; the planted curve '
                          'gives %.9g s' % (start, float(h), t, want_t), case=case)
            return
        by_level.setdefault(zn, []).append((start, t))
    offs = r['recession_interval']
    if set(offs) != {s for seq in by_level.values() for s, _ in seq}:
        out.violation('oracle', 'recession_interval and recession_interval_zeta list different intervals', case=case)
        return
    # aligned pieces coincide wherever they overlap
    for zn, seq in by_level.items():
        vals = [offs[s] + t for s, t in seq]
        if max(vals) - min(vals) > 1e-6 * (1 + max(abs(v) for v in vals)):
            out.violation('oracle', 'aligned recession pieces do not coincide at level %s: %s' % (zn * g, vals), case=case)
            return
    # master curve = truth up to the origin (highest level is the origin)
    curve = r['avg_recession']
    if curve:
        top_h, top_v = curve[-1]
        if abs(top_v) > 1e-6:
            out.violation('oracle', 'recession master curve is %.3g at its highest level, not 0' % top_v, case=case)
        tt_top = CC.truth_time_of_level(plan, Fraction(top_h))
        for h, v in curve:
            tt = CC.truth_time_of_level(plan, Fraction(h))
            want_v = float((tt - tt_top) * step)
            if not close(v, want_v, want_v):
                out.violation('oracle', 'recession master curve at %s mm is %.9g s, planted curve gives %.9g s'
                              % (h, v, want_v), case=case)
                break
    # --- rise: storage curve with constant specific yield
    rl = {}
    for start, zn, dpt in r['rising_interval_zeta']:
        x = rise_of.get(start)
        if x is None:
            out.violation('oracle', 'rise crossing row for %s, which is not a planted rise' % start, case=case)
            return
        h = zn * g
        want_d = sigma * (h - x['zi'])
        if not close(dpt, want_d, want_d):
            out.violation('oracle', 'rise starting %s crosses %s mm at depth %.9g mm; planted storage curve gives %.9g'
                          % (start, h, dpt, want_d), case=case)
            return
        rl.setdefault(zn, []).append((start, dpt))
    roffs = r['rising_interval']
    for zn, seq in rl.items():
        vals = [roffs[s] + t for s, t in seq if s in roffs]
        if len(vals) != len(seq) or max(vals) - min(vals) > 1e-6 * (1 + max(abs(v) for v in vals)):
            out.violation('oracle', 'aligned rises do not coincide at level %s: %s' % (zn * g, vals), case=case)
            return
    rc = r['avg_rise']
    if rc:
        top_h, top_v = rc[-1]
        for h, v in rc:
            want_v = sigma * (h - top_h)
            if not close(v - top_v, want_v, want_v):
                out.violation('oracle', 'rise master curve at %s mm is %.9g mm below the top; constant specific yield %s gives %.9g'
                              % (h, v - top_v, sigma, want_v), case=case)
                break
    if len(offs) >= 3 and len(curve) >= 3 and len(roffs) >= 2:
        out.nontriv(('c06', str(plan['events']), plan['step'], plan['grid_step']))
    if plan.get('large'):
        out.count('large record: judged by the oracle only (not sent to Coq)')
        return
    # --- correspondence: exact model on the stored crossings reproduces the stored offsets (up to the origin)
    for kind, levels, offsets in (('recession', by_level, offs), ('rise', rl, roffs)):
        if len(offsets) < 2:
            continue
        ids = sorted(offsets)
        rank = {s: i for i, s in enumerate(ids)}
        hm = {zn: [(rank[s], t) for s, t in seq] for zn, seq in levels.items()}
        rel = [offsets[s] - offsets[ids[-1]] for s in ids]
        tol = 1e-7 * P5.scale_of(hm)
        corr.append(('(%s, %s, %s)' % (P5.hm_lit(hm), C.cQ(tol), C.cQs(rel)), dict(case, kind=kind)))


def count_sizes(r, out):
    """Measured on the record: the largest number of grid levels passed by one recession step / one rise, and (for
    the staircase records) the conditioning of the recession alignment actually stored."""
    import math
    plan = r['plan']
    if r['status'] != 'ok' or not (plan.get('plunge') or plan.get('chain')):
        return
    g, wl = plan['grid_step'], r['water_level']
    ep = sorted(wl)
    fall = 0
    for a, t, b in r['zeta_interval']:
        if t == 'interstorm':
            zs = [wl[e] for e in ep if a <= e <= b]
            fall = max([fall] + [math.ceil(u / g) - math.ceil(v / g) for u, v in zip(zs, zs[1:])])
    out.count('largest number of grid levels passed by ONE recession step: %s'
              % ('> 128' if fall > 128 else '17-128' if fall > 16 else '<= 16'))
    if plan.get('plunge'):
        out.count('record with plunging recession steps: step %d s, grid %s mm' % (plan['step'], g))
    if plan.get('chain'):
        from harness import gen_offsets as GO
        hm = {}
        for start, zn, t in r['recession_interval_zeta']:
            hm.setdefault(zn, []).append((start, t))
        ratio = GO.singular_ratio(hm)
        out.count('staircase record: %d recessions aligned, %d stored crossings, sigma_min/sigma_max of the design matrix in [%s, 10x)'
                  % (len(r['recession_interval']), len(r['recession_interval_zeta']), P5.bucket(ratio)))


def run_cases(plans, out, label):
    corr = []
    for plan in plans:
        r = CC.build_from_plan(PROP, plan)
        out.evaluations += 1
        out.count('step=%d' % plan['step'])
        out.count('grid=%s' % plan['grid_step'])
        out.count('gap=%s' % bool(r['truth'].get('missing')))
        out.count('light rain after a storm %s' % ('= storm threshold exactly' if plan.get('light_equal') else '< storm threshold'))
        out.count('two recessions from the same highest level=%s' % bool(plan.get('tie_top')))
        if plan.get('top_cell'):
            out.count('highest level positive and off the grid lines, top grid level crossed by >= 2 rises and >= 2 recessions')
        count_sizes(r, out)
        check_dataset(r, out, corr)
    bad, errs, _ = C.run_case_shards(
        PROP, label, PRE, 'head_mapping * Q * list Q',
        'fun c => match c with (hm, tol, rel) => match find_offsets hm with '
        '| Ok (_, offs) => close_enough tol offs rel | Err _ => false end end', [c for c, _ in corr], shard=40)
    out.corr_errors += errs
    for i in bad:
        out.violation('corr', 'model find_offsets on the stored crossings <> stored offsets (%s)' % corr[i][1]['kind'], case=corr[i][1])
    out.count('model-vs-table cases', len(corr))


def run(ctx, out):
    C.import_spowtd()
    seed, tier = ctx['seed'], ctx['tier']
    n = 60 if tier == 'quick' else 600
    # every 3rd plan: the light-rain step after each storm is EXACTLY the storm threshold (not a storm step: "heavier
    # than" is strict); every 4th: two recessions start from exactly the same highest level (tie for the reference)
    plans = [CC.make_plan(C.rng_for(seed, PROP, k), gaps=True, odd_steps=True,
                          light_equal=(k % 3 == 0), tie_top=(k % 4 == 1)) for k in range(n)]
    # plus records that reach above the surface: highest level positive and off the grid lines, the top level of the
    # grid crossed by >= 2 rises and >= 2 recessions (own random streams)
    plans += [CC.make_plan(C.rng_for(seed, PROP, 'top', k), gaps=True, odd_steps=True, top_cell=True, noise=False)
              for k in range(max(6, n // 8))]
    # size / extremes (own random streams): records whose recession steps pass 130-400 grid levels at once (daily and
    # weekly data, and fine grids), and one ill-conditioned staircase record (oracle only)
    for k in range(3 if tier == 'quick' else 24):
        rp = C.rng_for(seed, PROP, 'plunge', k)
        plans.append(CC.make_plan(rp, n_events=rp.randrange(3, 6), plunge=True, step=[604800, 86400, None][k % 3],
                                  grid_step=[0.1, 0.5, 0.05, 1.0][k % 4], gaps=(k % 2 == 1)))
    for k in range(1 if tier == 'quick' else 4):
        plans.append(CC.make_chain_plan(C.rng_for(seed, PROP, 'chain', k)))
    run_cases(plans, out, 'cl')
    out.rule = ('Synthetic records from a planted truth (recession curve piecewise linear on the sampling lattice, constant '
                'specific yield; 3-7 storms; time steps 10/15/20/30/60 min and 90/100/460/3900 s; 40% with a gap in the water-level record in mid-recession; grid steps 0.5/1/2/2.5 mm; 1/3 with the rain step after each storm exactly at the storm threshold; 1/4 with two recessions starting from exactly the same highest level; plus 1/8 more whose highest level is positive, off the grid lines, with the top grid level crossed by >= 2 rises and >= 2 recessions; plus 3 records - weekly, daily, ordinary steps; grids 0.05-1 mm - whose recession curve drops 130-400 grid levels within single time steps; plus one LARGE ill-conditioned record, judged by the oracle only: 2-4 long recessions sharing 1200-2000+ levels and a staircase of 600-900 short recessions each sharing one grid level with the next, sigma_min/sigma_max of the stored alignment recorded) through the five CLI '
                'commands; every table row compared with the truth, the master-curve views compared with the tables. Non-trivial: >= 3 recession pieces and >= 2 rises '
                'assembled, >= 3 levels; distinct by event plan.')
    out.samples = [dict(plan_events=plans[0]['events'], step=plans[0]['step'], grid=plans[0]['grid_step'], sigma=plans[0]['sigma'])]
    out.assumptions += ['tolerance 1e-6 relative on times/depths (brentq, float sums)']


def replay(case, out):
    C.import_spowtd()
    run_cases([case['plan']], out, 'replay')
