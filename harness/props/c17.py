"""C17 — the simulated rise curve is the integral of specific yield.

Correspondence:
  (FL) simulate_rise.compute_rise_curve(sy, grid, mean) for spline and PEATCLSM
       specific-yield objects built by the real code, on grids inside /
       straddling / beyond the knots and on refinements of them, against
       Model/SimRise.v [rise_curve] driven
       (a) by the wrapper of Model/SplineWrap.v over splev/splint tables of the
           object's own tck (exact rationals, 1e-10), and
       (b) by the exact spline of Model/SplineWrapPP.v computed inside Coq from
           the knots alone (not-a-knot cubic / piecewise linear for PEATCLSM's
           201 knots; big-number rationals, 1e-9);
  (CL) `spowtd simulate rise DB PARAMS [--observations] -o FILE` on datasets
       assembled through the real CLI (load, classify, set-zeta-grid, rise),
       YAML parsed back, against [simulate_rise] on the rows of the view
       average_rising_depth (handed over shuffled; the model sorts).
Oracle (independent of the model): differences of the returned curve against a
Gauss-Legendre area of the object's own __call__, the mean, invariance of
differences at shared levels under refinement (and one common shift),
monotonicity when the function is non-negative, the layout of the table
against the view AND against the measured master curve recomputed from the base
tables rising_interval / rising_interval_zeta / zeta_grid (each level of the
curve listed, the mean taken over all of them) - on records whose storms all end
inside one grid cell (above, at, below the surface) as well, where the top level
of the curve is crossed by every rise.  Grids include the two-level grid and
grids with ONE step over the whole knot range.  Every level array handed to
compute_rise_curve must come back bit for bit, and a second call with the same
array must return the same curve.
History stage (runs first, before this process has built any specific-yield
function): sequences of functions built one after the other in ONE process -
spline sets sharing all knot levels / end levels / values and differing in the
rest, PEATCLSM sets sharing (theta_s, b, psi_s) and differing in sd and vice
versa - each pushed through compute_rise_curve on the SAME grid and mean, and,
at command level, `spowtd simulate rise` run in-process one after the other on
one database with parameter files differing only in sd / one soil parameter /
the spline values.  Each curve must be the integral of the specific yield of
ITS OWN parameters: differences against the area under the object's own
__call__ and under a reference that knows nothing of the process (the exact
not-a-knot spline from Fractions; the Dettmann-Bechtold profile of property
C16 written from the equations, piecewise linear).  State carried from one
function to the next (module-level memo, mutable default, id() reuse) shows up
only there.  The case holds the sequence and everything built before it, so
its replay rebuilds the history in a fresh process.
Extremes and size (oracle only; nothing of these stages is handed to Coq, where
reading the literals would dominate): compute_rise_curve on parameter sets
referred to a datum +-1e6 mm away and on grids whose steps are 1e-3 .. 1e-6 of
the magnitude of the levels (each with a refinement); `spowtd simulate rise` in
both modes on a dataset whose master rise curve has more than 1024 levels
(thorough: 1000 .. 10000; harness.gen_pest.gen_long_curves_record), the table
judged against the master curve of the base tables.
"""
import io
import math
import os
import sqlite3

import numpy as np
import yaml

from harness import common as C
from harness import dataset as D
from harness import gen_spline as GS
from harness import gen_pest as GP
from harness import curves_common as CC
from harness.props import c14 as P14
from harness.props import c16 as P16

PROP = 'C17'
MODELS = ['Model/SimRiseFloat.vo']
PRE = ('From Coq Require Import QArith PrimFloat.\n'
       'From Spowtd Require Import Model.SimRiseFloat.\n')

PEAT_PUBLISHED = dict(sd=0.162, theta_s=0.88, b=7.4, psi_s=-0.024)
_PEAT_CACHE = {}


def fl(x):
    return float(np.asarray(x).reshape(()))


# ------------------------------------------------------------- specific yield objects

def build_sy(spec):
    """spec: dict(type='spline', knots, values) | dict(type='peatclsm', sd, theta_s, b, psi_s)"""
    import spowtd.specific_yield as sy
    if spec['type'] == 'spline':
        return sy.create_specific_yield_function(
            dict(type='spline', zeta_knots_mm=list(spec['knots']), sy_knots=list(spec['values'])))
    key = (C.REPO, spec['sd'], spec['theta_s'], spec['b'], spec['psi_s'])
    if key not in _PEAT_CACHE:
        _PEAT_CACHE[key] = sy.create_specific_yield_function(
            dict(type='peatclsm', sd=spec['sd'], theta_s=spec['theta_s'], b=spec['b'], psi_s=spec['psi_s']))
    return _PEAT_CACHE[key]


def knots_of(spec, obj):
    if spec['type'] == 'spline':
        return [float(x) for x in spec['knots']], [float(y) for y in spec['values']], 3
    return [float(x) for x in obj.zeta_knots_mm], [float(y) for y in obj.sy_knots], 1


def gen_peat(rng):
    """Admissible PEATCLSM parameters (within the PEST bounds of the shipped control files)."""
    if rng.random() < 0.4:
        return dict(type='peatclsm', **PEAT_PUBLISHED)
    return dict(type='peatclsm', sd=round(rng.uniform(0.05, 0.6), 3), theta_s=round(rng.uniform(0.5, 0.98), 3),
                b=round(rng.uniform(2.0, 12.0), 2), psi_s=-round(rng.uniform(0.01, 0.2), 3))


def params_yaml(spec):
    if spec['type'] == 'spline':
        sy = dict(type='spline', zeta_knots_mm=[float(x) for x in spec['knots']],
                  sy_knots=[float(y) for y in spec['values']])
        tr = dict(type='spline', zeta_knots_mm=[-291.7, -5.167, 168.3, 1000],
                  K_knots_km_d=[5.356e-3, 1.002, 6577.0, 8.430e+3], minimum_transmissivity_m2_d=7.442)
    else:
        sy = dict(type='peatclsm', sd=spec['sd'], theta_s=spec['theta_s'], b=spec['b'], psi_s=spec['psi_s'])
        tr = dict(type='peatclsm', Ksmacz0=7.3, alpha=3, zeta_max_cm=1.0)
    return yaml.safe_dump(dict(specific_yield=sy, transmissivity=tr))


# ------------------------------------------------------------- Coq sources

def tab_src(obj, levels):
    """Tables of splev / splint of the object's own tck for consecutive levels."""
    from scipy.interpolate import splev, splint
    tck = P14.tck_of(obj)
    xmin, xmax = fl(tck[0][0]), fl(tck[0][-1])
    pts = sorted(set(levels) | {xmin, xmax})
    idx = {p: i for i, p in enumerate(pts)}
    ev = [fl(splev(p, tck)) for p in pts]
    need = set()
    for a, b in zip(levels, levels[1:]):
        quad = (a, b, xmin, xmax)
        for p in quad:
            for q in quad:
                need.add((p, q))
    sp = ['(%d%%nat, %d%%nat, %s)' % (idx[p], idx[q], C.cfloat(fl(splint(p, q, tck)))) for p, q in sorted(need)]
    return '(%s, %s, %s, %s, %s)' % (C.cfloat(xmin), C.cfloat(xmax), C.cfloats(pts), C.cfloats(ev), C.clist(sp))


def exact_src(order, knots, values):
    return '(%d%%nat, %s, %s)' % (order, C.cfloats(knots), C.cfloats(values))


def c_res_floats(res):
    if res[0] == 'ok':
        return '(Ok %s)' % C.cfloats(res[1])
    return '(Err %s)' % res[1]


# ------------------------------------------------------------- oracle pieces

def area_between(obj, knots, a, b):
    lo, hi = min(a, b), max(a, b)
    ar, mag = P14.area(obj, knots, lo, hi)
    return (ar if a <= b else -ar), mag


def oracle_curve(obj, knots, grid, mean, W, out, case, what):
    """The property's wording on one returned curve."""
    n = len(grid)
    if len(W) != n:
        out.violation('oracle', '%s: %d values for %d levels' % (what, len(W), n), case=case)
        return
    _, total = P14.area(obj, knots, min(grid), max(grid)) if n > 1 else (0.0, 0.0)
    scale = max(total, abs(mean), 1e-6)
    # binary64 rounding inside FITPACK's splint is absolute - a few hundred ulp of the area under the whole spline
    # (here: of the box knot range x largest knot value), however narrow the step (measured: 4.6e-13 mm on a step
    # of 1e-4 mm under a spline of area 150 mm); it only matters on grids whose whole range holds less than 1e-4
    # of that area
    floor = 1e-13 * (knots[-1] - knots[0]) * max(abs(fl(obj(x))) for x in knots) if len(knots) > 1 else 0.0
    pairs = [(i, i + 1) for i in range(n - 1)] + [(0, n - 1), (n // 2, 0), (n - 1, n // 3)]
    for i, j in pairs:
        ar, _ = area_between(obj, knots, grid[i], grid[j])
        if not abs((W[j] - W[i]) - ar) <= 1e-9 * scale + floor:
            out.violation('oracle', '%s: W(%r) - W(%r) = %r but the integral of specific yield between '
                          'these levels is %r' % (what, grid[j], grid[i], W[j] - W[i], ar), case=case)
            break
    got = math.fsum(W) / n
    if not abs(got - mean) <= 1e-9 * scale:
        out.violation('oracle', '%s: mean of the curve is %r, requested %r' % (what, got, mean), case=case)
    dense = [fl(obj(x)) for x in np.linspace(min(grid), max(grid), 200)] + [fl(obj(x)) for x in knots]
    if min(dense) >= 0 and all(b >= a for a, b in zip(grid, grid[1:])):
        for i in range(n - 1):
            if W[i + 1] < W[i] - 1e-12 * scale:
                out.violation('oracle', '%s: specific yield is non-negative but W decreases from %r to %r '
                              'between levels %r and %r' % (what, W[i], W[i + 1], grid[i], grid[i + 1]),
                              case=case)
                break
    return scale


def oracle_refinement(grid, W, grid2, W2, scale, out, case):
    pos2 = {z: k for k, z in enumerate(grid2)}
    shared = [(i, pos2[z]) for i, z in enumerate(grid) if z in pos2]
    if len(shared) != len(grid):
        return
    shifts = [W2[k] - W[i] for i, k in shared]
    if max(shifts) - min(shifts) > 1e-9 * scale:
        i = max(range(len(shifts)), key=lambda t: abs(shifts[t] - shifts[0]))
        out.violation('oracle', 'refining the grid changes the storage difference between shared levels %r and '
                      '%r by %r' % (grid[0], grid[shared[i][0]], shifts[i] - shifts[0]), case=case)


# ------------------------------------------------------------- FL

def impl_curve(obj, grid, mean, out=None, case=None, what='compute_rise_curve'):
    """One call of the code under test.  With `out`: the level array handed over is the caller's - it must
    come back bit for bit as it went in, and a second call with the very same array must return the very
    same curve (a callee that scales / sorts / shifts its argument in place shows up in one of the two)."""
    import spowtd.simulate_rise as sr
    arr = np.array(grid, dtype=float)
    pristine = arr.copy()
    try:
        W = sr.compute_rise_curve(obj, arr, mean_storage_mm=mean)
        res = ('ok', [float(w) for w in W])
    except Exception as e:  # pylint: disable=broad-except
        res = ('err', C.err_of(e))
    if out is None:
        return res
    out.count('hygiene:level-array')
    if not same_bits(arr, pristine):
        out.violation('oracle', '%s changed the caller\'s array of levels in place: handed over %r, holds %r '
                      'after the call (first difference at index %d)'
                      % (what, pristine.tolist()[:6], arr.tolist()[:6], first_difference(arr, pristine)), case=case)
        return res
    if res[0] != 'ok':
        return res
    if isinstance(W, np.ndarray) and len(arr) and np.shares_memory(W, arr):
        out.violation('oracle', '%s returns a curve that shares memory with the caller\'s array of levels' % what,
                      case=case)
    kept = np.array(W, dtype=float).copy()
    try:
        W2 = np.array(sr.compute_rise_curve(obj, arr, mean_storage_mm=mean), dtype=float)
    except Exception as e:  # pylint: disable=broad-except
        out.violation('oracle', '%s called a second time with the same array of levels raised %s'
                      % (what, C.err_of(e)), case=case)
        return res
    out.evaluations += 1
    if not same_bits(arr, pristine):
        out.violation('oracle', '%s changed the caller\'s array of levels in place on its second call: handed '
                      'over %r, holds %r' % (what, pristine.tolist()[:6], arr.tolist()[:6]), case=case)
    elif not same_bits(W2, kept):
        i = first_difference(W2, kept)
        out.violation('oracle', '%s called twice with the same array of levels %r and the same mean returns two '
                      'different curves (index %d: %r, then %r)'
                      % (what, pristine.tolist()[:6], i, kept.tolist()[i] if i < len(kept) else None,
                         W2.tolist()[i] if i < len(W2) else None), case=case)
    elif not same_bits(np.array(W, dtype=float), kept):
        out.violation('oracle', '%s: the curve returned by the first call changed during the second call' % what,
                      case=case)
    return res


def same_bits(a, b):
    a, b = np.asarray(a, dtype=float), np.asarray(b, dtype=float)
    return a.shape == b.shape and a.tobytes() == b.tobytes()


def first_difference(a, b):
    a, b = np.asarray(a, dtype=float).ravel(), np.asarray(b, dtype=float).ravel()
    for i in range(min(len(a), len(b))):
        if a[i:i + 1].tobytes() != b[i:i + 1].tobytes():
            return i
    return min(len(a), len(b))


def fl_cases(specs, seed, out, wheres=None, tag='fl'):
    """Returns (tab case strings, exact case strings, metas).  `wheres` / `tag`: another list of grid
    placements, drawn from its own random stream (the default reproduces the stream it always had)."""
    tab, exact, tmeta, emeta = [], [], [], []
    wheres = wheres or GS_WHERE
    for k, spec in enumerate(specs):
        rng = C.rng_for(seed, PROP, tag, k)
        obj = build_sy(spec)
        knots, values, order = knots_of(spec, obj)
        where, grid = GS.gen_grid(rng, knots, where=wheres[k % len(wheres)],
                                  nmax=24 if order == 3 else 16)
        if k % 11 == 10 and tag == 'fl':
            grid = grid[:1]            # a single level
        mean = rng.choice([0.0, 12.5, -40.0, rng.uniform(-100, 100)])
        grid2 = GS.refine(rng, grid)
        case = dict(level='FL', spec=spec, grid=grid, mean=mean, grid2=grid2)
        res = impl_curve(obj, grid, mean, out, case)
        res2 = impl_curve(obj, grid2, mean, out, case, 'compute_rise_curve (refined grid)')
        out.evaluations += 2
        out.count('FL:%s:%s' % (spec['type'], where))
        if any(a < knots[0] and b > knots[-1] for a, b in zip(grid, grid[1:])):
            out.count('FL:one-step-over-the-whole-knot-range')
            out.count('FL:one-step-over-the-whole-knot-range:%s' % ('two-level grid' if len(grid) == 2 else
                                                                     'longer grid'))
        if res[0] != 'ok' or res2[0] != 'ok':
            out.violation('oracle', 'compute_rise_curve raised %s on grid %r' % (res[1] if res[0] != 'ok' else res2[1],
                                                                                 grid), case=case)
            continue
        scale = oracle_curve(obj, knots, grid, mean, res[1], out, case, 'compute_rise_curve')
        oracle_curve(obj, knots, grid2, mean, res2[1], out, case, 'compute_rise_curve (refined grid)')
        if scale is not None:
            oracle_refinement(grid, res[1], grid2, res2[1], scale, out, case)
        xmin, xmax = knots[0], knots[-1]
        if len(grid) > 2 and (grid[0] < xmin or grid[-1] > xmax):
            out.nontriv(('fl', spec['type'], tuple(grid), mean))
        sc = max(1.0, max(abs(w) for w in res[1] + res2[1]), abs(mean))
        for g, r in ((grid, res), (grid2, res2)):
            tab.append('(%s, %s, %s, %s, %s)' % (tab_src(obj, g), C.cfloats(g), C.cfloat(mean), C.cfloat(sc),
                                                 c_res_floats(r)))
            tmeta.append(case)
        use_exact = (order == 1 and k % 2 == 0) or (order == 3 and spec.get('short'))
        if use_exact:
            g, r = (grid, res) if (order == 3 or len(grid2) > 20) else (grid2, res2)
            exact.append('(%s, %s, %s, %s, %s)' % (exact_src(order, knots, values), C.cfloats(g), C.cfloat(mean),
                                                   C.cfloat(sc), c_res_floats(r)))
            emeta.append(case)
    return tab, exact, tmeta, emeta


GS_WHERE = ['inside', 'straddle_low', 'straddle_high', 'straddle_both', 'below', 'above', 'master']
# grids with ONE step that covers the whole knot range (the integral over it has both constant tails and the
# whole spline in one call): the two-level grid, and an ordinary grid with such a step in it
GS_WHERE_SPAN = ['span_two', 'span_step', 'span_step']


def run_shards(kind, strs, metas, out, label, shard):
    if not strs:
        return
    bad, errs, secs = C.run_case_shards(PROP, label, PRE, kind + '_case', kind + '_check', strs, shard=shard)
    out.corr_errors += errs
    out.notes.append('%s: %d cases evaluated in Coq in %.1fs' % (label, len(strs), secs))
    what = {'fl_tab': 'rise_curve over the wrapper with splev/splint tables (1e-10) <> compute_rise_curve',
            'fl_exact': 'rise_curve over the exact spline computed in Coq (1e-9) <> compute_rise_curve',
            'cl_tab': 'simulate_rise over the wrapper with splev/splint tables (1e-10) <> output of '
                      '`spowtd simulate rise`',
            'cl_exact': 'simulate_rise over the exact spline computed in Coq (1e-9) <> output of '
                        '`spowtd simulate rise`'}[kind]
    for i in bad:
        case = metas[i]
        out.violation('corr', '%s: %s' % (what, describe(case)), case=case)


def describe(case):
    if case['level'] == 'FL':
        return 'specific yield %r grid %r mean %r' % (case['spec'], case['grid'], case['mean'])
    return 'specific yield %r on dataset %s' % (case['spec'], case.get('src'))


def fl_errors(out, label):
    """An empty grid raises IndexError (dW_mm[0] = 0.0)."""
    spec = dict(type='spline', knots=[-291.7, -183.1, -15.74, 10.65, 38.78, 168.3],
                values=[0.1358, 0.1671, 0.2541, 0.2907, 0.2892, 0.6857])
    obj = build_sy(spec)
    res = impl_curve(obj, [], 0.0)
    out.evaluations += 1
    out.count('FL:empty-grid')
    s = '(%s, %s, %s, %s, %s)' % (tab_src(obj, []), C.cfloats([]), C.cfloat(0.0), C.cfloat(1.0), c_res_floats(res))
    run_shards('fl_tab', [s], [dict(level='FL', spec=spec, grid=[], mean=0.0, grid2=[])], out, label, 10)


# ------------------------------------------------------------- CL

def sawtooth(rng):
    """A record that decays between storms so that the rises overlap in level."""
    step = rng.choice([1800, 3600, 900])
    thr_s, thr_j = 4.0, 8.0
    h = step / 3600.0
    z = rng.choice([-300.0, -50.25, 0.0, -120.5])
    rain, zeta = [], []
    for _ in range(rng.randrange(2, 5)):
        rain.append(0.0)
        zeta.append(z)
        z -= rng.choice([0.25, 0.5, 0.125])
    for _ in range(rng.randrange(3, 7)):
        for _ in range(rng.randrange(1, 4)):
            rain.append(thr_s + rng.choice([1.0, 2.5, 6.0, 12.0]))
            zeta.append(z)
            z += thr_j * h + rng.choice([0.5, 1.0, 3.25, 7.0, 11.5])
        for _ in range(rng.randrange(3, 9)):
            rain.append(0.0)
            zeta.append(z)
            z -= rng.choice([0.5, 1.0, 2.0, 3.5])
    t0 = 1361318400 // step * step
    rrows = [(t0 + i * step, r) for i, r in enumerate(rain)]
    et = [(t, 0.125) for t, _ in rrows] + [(rrows[-1][0] + step, 0.125)]
    wl = [(t0 + i * step, zz) for i, zz in enumerate(zeta)]
    return dict(ds=D.Dataset(rrows, et, wl).to_json(), thr_s=thr_s, thr_j=thr_j,
                grid_step=rng.choice([1.0, 0.5, 2.0, 2.5]))


def sawtooth_top(rng, top=None):
    """A record whose storms all end in ONE cell of the level grid, strictly inside it: the grid line under
    the record maximum is the top level of the master curve and is crossed by every rise
    (harness.gen_pest.gen_shared_top_record; above / at / below the surface)."""
    rec = GP.gen_shared_top_record(rng, top=top, grid=rng.choice([1.0, 0.5, 2.0, 2.5]))
    return dict(kind='saw', top=rec['top'], top_cell=rec['top_cell'],
                saw=dict(ds=GP.to_dataset(rec).to_json(), thr_s=rec['thr_s'], thr_j=rec['thr_j'],
                         grid_step=rec['grid_mm']))


def assemble(src):
    """Build the database through the real CLI. Returns (db, dir) or raises."""
    if src['kind'] == 'plan':
        r = CC.build_from_plan(PROP, src['plan'], steps=('rise',), name='cl_db')
        if r['status'] != 'ok':
            raise RuntimeError('workflow failed at %s: %r' % (r['status'], r.get('exc')))
        return r['db'], r['dir']
    d = D.scratch(PROP, 'cl_db')
    db, _, exc = D.load(D.Dataset.from_json(src['saw']['ds']), d)
    if exc is not None:
        raise RuntimeError('load failed: %r' % exc)
    for argv in (['classify', db, '-s', src['saw']['thr_s'], '-j', src['saw']['thr_j']],
                 ['set-zeta-grid', db, '-d', src['saw']['grid_step']], ['rise', db]):
        _, exc, _ = D.cli(argv)
        if exc is not None:
            raise RuntimeError('%s failed: %r' % (argv[0], exc))
    return db, d


def read_view(db):
    con = sqlite3.connect(db)
    try:
        return [(float(z), float(s)) for z, s in con.execute(
            'SELECT zeta_mm, mean_crossing_depth_mm FROM average_rising_depth')]
    finally:
        con.close()


def read_base(db):
    """The measured master rise curve recomputed from the BASE tables written by `set-zeta-grid` and `rise`
    (zeta_grid, rising_interval, rising_interval_zeta) - no view, no discrete_zeta: per level number, the mean
    over the rises that cross it of (offset of the rise + its crossing depth).  Returns rows
    (level mm, measured storage mm, number of rises) by level ascending."""
    con = sqlite3.connect(db)
    try:
        steps = [float(r[0]) for r in con.execute('SELECT grid_interval_mm FROM zeta_grid')]
        offsets = {e: float(o) for e, o in con.execute('SELECT start_epoch, rain_depth_offset_mm FROM rising_interval')}
        crossings = list(con.execute('SELECT start_epoch, zeta_number, mean_crossing_depth_mm '
                                     'FROM rising_interval_zeta'))
    finally:
        con.close()
    if len(steps) != 1:
        return []
    by_level = {}
    for epoch, number, depth in crossings:
        by_level.setdefault(int(number), []).append(offsets[epoch] + float(depth))
    return [(n * steps[0], math.fsum(v) / len(v), len(v)) for n, v in sorted(by_level.items())]


def base_oracle(base, rows, what, out, case):
    """`lists each level of the measured master curve, in mm, with its measured ... storage`: the levels and
    the measured column of a tabulated output against the master curve of the base tables."""
    out.count('CL:judged-against-base-tables')
    have = [float(r[0]) for r in rows]
    want = [z for z, _, _ in base]
    missing = [(z, n) for z, _, n in base if z not in set(have)]
    extra = [z for z in have if z not in set(want)]
    if missing or extra:
        out.violation('oracle', '%s does not list each level of the measured master curve: the master rise curve '
                      'assembled by `rise` (tables rising_interval, rising_interval_zeta, zeta_grid) has %d levels '
                      '%r .. %r mm, the output lists %d; missing: %s; listed but not in the curve: %r'
                      % (what, len(want), want[0] if want else None, want[-1] if want else None, len(have),
                         (', '.join('level %r mm (crossed by %d rises)' % m for m in missing[:6])
                          + (' and %d more up to level %r mm' % (len(missing) - 6, missing[-1][0])
                             if len(missing) > 6 else '')) or 'none', extra[:6]),
                      case=case)
        return False
    if have != want:
        out.violation('oracle', '%s lists the levels of the measured master curve out of order or more than once: '
                      '%r' % (what, have[:8]), case=case)
        return False
    scale = max([1.0] + [abs(s) for _, s, _ in base])
    for (z, s, n), r in zip(base, rows):
        if not abs(float(r[1]) - s) <= 1e-9 * scale:
            out.violation('oracle', '%s: measured storage at level %r mm is listed as %r, the master curve of the '
                          'base tables has %r (mean over %d rises)' % (what, z, r[1], s, n), case=case)
            return False
    return True


def run_cli(db, d, spec, observations):
    pfile = os.path.join(d, 'parameters.yml')
    with open(pfile, 'w') as f:
        f.write(params_yaml(spec))
    ofile = os.path.join(d, 'obs.yml' if observations else 'table.yml')
    if os.path.exists(ofile):
        os.remove(ofile)
    argv = ['simulate', 'rise', db, pfile] + (['--observations'] if observations else []) + ['-o', ofile]
    _, exc, _ = D.cli(argv)
    # argparse opened the files; close what it left open by letting GC run
    if exc is not None:
        return ('err', C.err_of(exc), exc)
    with open(ofile) as f:
        text = f.read()
    return ('ok', yaml.safe_load(io.StringIO(text)), text)


def spec_for_levels(rng, lo, hi, kind):
    """A spline parameter set placed relative to the master curve's level range."""
    span = max(hi - lo, 4.0)
    n = rng.randrange(4, 8)
    if kind == 'cover':
        a, b = lo - span * rng.uniform(0.1, 0.5), hi + span * rng.uniform(0.1, 0.5)
    elif kind == 'low':           # knots end inside the curve: upper part extrapolated
        a, b = lo - span * rng.uniform(0.1, 0.5), lo + span * rng.uniform(0.2, 0.7)
    elif kind == 'high':
        a, b = lo + span * rng.uniform(0.3, 0.8), hi + span * rng.uniform(0.1, 0.5)
    elif kind == 'within':        # knots strictly inside the curve's range
        a, b = lo + span * rng.uniform(0.1, 0.3), hi - span * rng.uniform(0.1, 0.3)
    elif kind == 'beyond_above':  # the whole curve lies below the knots
        a = hi + span * rng.uniform(0.05, 0.5)
        b = a + span
    else:                         # 'beyond_below'
        b = lo - span * rng.uniform(0.05, 0.5)
        a = b - span
    cuts = sorted(rng.uniform(0, 1) for _ in range(n - 2))
    xs = [a] + [a + (b - a) * c for c in cuts] + [b]
    xs = [round(x * 8) / 8 for x in xs]
    for i in range(1, len(xs)):
        if xs[i] <= xs[i - 1]:
            xs[i] = xs[i - 1] + 0.125
    y = rng.uniform(0.05, 0.2)
    ys = []
    for _ in xs:
        ys.append(round(y * 65536) / 65536)
        y += rng.uniform(-0.02, 0.15)
    return dict(type='spline', knots=xs, values=ys, short=True)


CL_KINDS = ['cover', 'low', 'high', 'within', 'beyond_above', 'beyond_below']


def cl_cases(srcs, seed, out):
    tab, exact, tmeta, emeta = [], [], [], []
    for k, src in enumerate(srcs):
        rng = C.rng_for(seed, PROP, 'cl', k)
        case0 = dict(level='CL', src=src)
        try:
            db, d = assemble(src)
        except RuntimeError as e:
            out.count('CL:not-assembled')
            out.notes.append('dataset %d not assembled: %s' % (k, e))
            continue
        view = read_view(db)
        base = read_base(db)
        if not view and not base:
            out.count('CL:empty-view')
            continue
        if not view:
            out.violation('oracle', 'the master rise curve assembled by `rise` has %d levels (base tables), the '
                          'view average_rising_depth that `simulate rise` reads has none' % len(base), case=case0)
            continue
        top = base[-1] if base else None
        if top and top[0] > 0 and top[2] >= 2:
            out.count('CL:top level of the master curve above the surface, crossed by >= 2 rises')
        if src.get('top'):
            out.count('CL:shared-top:%s' % src['top'])
        levels = sorted(z for z, _ in view)
        kind = CL_KINDS[k % len(CL_KINDS)]
        specs = [spec_for_levels(rng, levels[0], levels[-1], kind)]
        if k % 3 == 0:
            specs.append(gen_peat(rng))
        for spec in specs:
            case = dict(case0, spec=spec)
            out.evaluations += 2
            out.count('CL:%s:%s' % (spec['type'], kind if spec['type'] == 'spline' else 'any'))
            tab_res = run_cli(db, d, spec, False)
            obs_res = run_cli(db, d, spec, True)
            if tab_res[0] != 'ok' or obs_res[0] != 'ok':
                bad = tab_res if tab_res[0] != 'ok' else obs_res
                out.violation('oracle', '`spowtd simulate rise` raised %s: %r on an assembled rise curve (%s)'
                              % (bad[1], bad[2], describe(case)), case=case)
                continue
            table, obs = tab_res[1], obs_res[1]
            ok = cl_oracle(view, table, obs, obs_res[2], spec, out, case, base=base)
            if not ok:
                continue
            rows = [tuple(float(x) for x in r) for r in table[1:]]
            obj = build_sy(spec)
            knots, values, order = knots_of(spec, obj)
            if len(rows) >= 3 and (levels[0] < knots[0] or levels[-1] > knots[-1]):
                out.nontriv(('cl', k, spec['type'], tuple(knots[:3])))
            sc = max(1.0, max(abs(r[2]) for r in rows), max(abs(r[1]) for r in rows))
            shuffled = list(view)
            rng.shuffle(shuffled)
            cview = C.clist([C.cpair(C.cfloat(z), C.cfloat(s)) for z, s in shuffled])
            cimpl = '(Ok (%s, %s))' % (C.clist(['(%s, %s, %s)' % tuple(C.cfloat(x) for x in r) for r in rows]),
                                       C.cfloats([float(x) for x in obs]))
            tab.append('(%s, %s, %s, %s)' % (tab_src(obj, levels), cview, C.cfloat(sc), cimpl))
            tmeta.append(case)
            if order == 3 or k % 6 == 0:
                exact.append('(%s, %s, %s, %s)' % (exact_src(order, knots, values), cview, C.cfloat(sc), cimpl))
                emeta.append(case)
    return tab, exact, tmeta, emeta


def cl_oracle(view, table, obs, obs_text, spec, out, case, base=None):
    """Layout of the output against the master curve of the base tables and against the view, and the
    curve itself."""
    want = sorted(view)
    hdr = ['Water level, mm', 'Measured storage, mm', 'Simulated storage, mm']
    if not isinstance(table, list) or not table or table[0] != hdr:
        out.violation('oracle', 'table does not start with the header row %r: %r' % (hdr, table[:1]), case=case)
        return False
    rows = table[1:]
    if base is not None:
        if any(not isinstance(r, list) or len(r) != 3 for r in rows):
            out.violation('oracle', 'a row of the table does not hold three values', case=case)
            return False
        if not base_oracle(base, rows, 'the table of `spowtd simulate rise`', out, case):
            return False
        if not isinstance(obs, list) or len(obs) != len(base):
            out.violation('oracle', 'the --observations vector of `spowtd simulate rise` has %d entries for the %d '
                          'levels of the measured master curve' % (len(obs) if isinstance(obs, list) else -1,
                                                                   len(base)), case=case)
            return False
        # the requested mean is the mean of the measured curve: of ALL its levels
        bmean = math.fsum(s for _, s, _ in base) / len(base)
        got = math.fsum(float(r[2]) for r in rows) / len(rows)
        if not abs(got - bmean) <= 1e-9 * max(1.0, abs(bmean), max(abs(float(r[2])) for r in rows)):
            out.violation('oracle', 'mean of the simulated column %r is not the mean %r of the measured master '
                          'curve' % (got, bmean), case=case)
            return False
    if len(rows) != len(want) or any(len(r) != 3 for r in rows):
        out.violation('oracle', 'table has %d rows, the measured master curve has %d levels'
                      % (len(rows), len(want)), case=case)
        return False
    if [(r[0], r[1]) for r in rows] != [(z, s) for z, s in want]:
        out.violation('oracle', 'table levels / measured storage %r differ from the view average_rising_depth '
                      'ordered by level %r' % ([(r[0], r[1]) for r in rows][:4], want[:4]), case=case)
        return False
    if not obs_text.startswith('# Rise curve simulation vector\n'):
        out.violation('oracle', '--observations output lacks its comment line', case=case)
    if [r[2] for r in rows] != list(obs):
        out.violation('oracle', '--observations vector differs from the third column of the table', case=case)
        return False
    obj = build_sy(spec)
    knots, _, _ = knots_of(spec, obj)
    grid = [z for z, _ in want]
    mean = math.fsum(s for _, s in want) / len(want)
    oracle_curve(obj, knots, grid, mean, [float(r[2]) for r in rows], out, case, '`spowtd simulate rise`')
    return True


def cl_empty(out, label):
    """No assembled rise curve: the command fails with ValueError (nothing to unpack)."""
    rec = sawtooth(C.rng_for(0, PROP, 'empty'))
    d = D.scratch(PROP, 'cl_empty')
    db, _, exc = D.load(D.Dataset.from_json(rec['ds']), d)
    if exc is not None:
        return
    spec = dict(type='spline', knots=[-291.7, -183.1, -15.74, 10.65, 38.78, 168.3],
                values=[0.1358, 0.1671, 0.2541, 0.2907, 0.2892, 0.6857])
    res = run_cli(db, d, spec, False)
    out.evaluations += 1
    out.count('CL:no-rise-curve')
    impl = '(Err %s)' % res[1] if res[0] == 'err' else '(Ok ([], []))'
    s = '(%s, %s, %s, %s)' % (tab_src(build_sy(spec), []), '[]', C.cfloat(1.0), impl)
    run_shards('cl_tab', [s], [dict(level='CL-empty')], out, label, 10)


# ------------------------------------------------------------- history

def fresh_sy(spec):
    """A NEW object from the real factory (build_sy hands out one object per PEATCLSM parameter set)."""
    import spowtd.specific_yield as sy
    if spec['type'] == 'spline':
        par = dict(type='spline', zeta_knots_mm=list(spec['knots']), sy_knots=list(spec['values']))
    else:
        par = dict(type='peatclsm', sd=spec['sd'], theta_s=spec['theta_s'], b=spec['b'], psi_s=spec['psi_s'])
    return sy.create_specific_yield_function(par)


def reference_sy(spec):
    """(callable, break points) of the specific yield of these parameters, from the parameters alone."""
    if spec['type'] == 'spline':
        knots = [float(x) for x in spec['knots']]
        return GS.reference_function(knots, [float(y) for y in spec['values']]), knots
    zk, want = P16.db_profile({k: spec[k] for k in ('sd', 'theta_s', 'b', 'psi_s')}, 201)
    zk, want = np.asarray(zk, dtype=float), np.asarray(want, dtype=float)
    return (lambda x: float(np.interp(float(x), zk, want))), [float(z) for z in zk]


def peat_spec(p):
    return dict(type='peatclsm', **{k: float(P16.F(p[k])) for k in ('sd', 'theta_s', 'b', 'psi_s')})


def short_spec(spec):
    return {k: spec[k] for k in spec if k not in ('short', 'kind', 'place')}


def history_cases(seed, tier):
    cases = []
    per_kind, npeat, ncli = (1, 2, 1) if tier == 'quick' else (6, 8, 4)
    for k, kind in enumerate(GS.HISTORY_KINDS * per_kind):
        rng = C.rng_for(seed, PROP, 'history', k)
        seq = GS.history_sequence(rng, kind)
        grid = GS.history_grid(rng, seq)
        cases.append(dict(level='history', kind='spline:' + kind, keep=bool(k % 2), grid=grid,
                          grid2=GS.refine(rng, grid), mean=rng.choice([0.0, 12.5, -40.0]),
                          seq=[dict(type='spline', knots=m['knots'], values=m['values'], short=True) for m in seq]))
    for k, pc in enumerate(P16.history_psets(seed, npeat)):
        rng = C.rng_for(seed, PROP, 'history-peat', k)
        lo, hi = -995.0 - rng.uniform(50, 300), 1005.0 + rng.uniform(50, 300)
        grid = sorted({round((lo + (hi - lo) * i / 13) * 16) / 16 for i in range(14)} | {-995.0, 0.0, 1005.0})
        cases.append(dict(level='history', kind='peatclsm:' + pc['kind'], keep=bool(k % 2), grid=grid,
                          grid2=GS.refine(rng, grid), mean=rng.choice([0.0, 12.5, -40.0]),
                          seq=[peat_spec(p) for p in pc['seq']]))
    for k in range(ncli):
        rng = C.rng_for(seed, PROP, 'history-cli', k)
        while True:
            saw = sawtooth(rng)
            if saw['ds']['wl'][0][1] > -130.0:      # where the microtopography term matters
                break
        a = dict(type='peatclsm', **PEAT_PUBLISHED) if k == 0 else gen_peat(rng)
        a2 = dict(a, sd=rng.choice([s for s in (0.05, 0.1, 0.3, 0.5) if s != a['sd']]))
        a3 = dict(a, theta_s=rng.choice([t for t in (0.5, 0.7, 0.93) if t != a['theta_s']]))
        ks = GS.history_sequence(rng, 'same-levels-ends-differ')
        # placed by history_cli: lowest knot at a level one third up the measured curve (its lower part is
        # extrapolated with the end value, which differs between these sets)
        sp = [dict(type='spline', knots=m['knots'], values=m['values'], short=True, place='low-third') for m in ks[:3]]
        cases.append(dict(level='CL-history', src=dict(kind='saw', saw=saw), seq=[a, a2, a, a3, a] + sp + sp[:1]))
    return cases


def history_curve(spec, obj, grid, mean, W, out, case, what):
    """The curve against the object's own __call__ and against the reference of its own parameters."""
    before = len(out.violations)
    knots, _, _ = knots_of(spec, obj)
    oracle_curve(obj, knots, grid, mean, W, out, case, what + ' (area under the object\'s own specific yield)')
    if len(out.violations) == before:
        ref, breaks = reference_sy(spec)
        oracle_curve(ref, breaks, grid, mean, W, out, case,
                     what + ' (area under the specific yield of its own parameters, computed from the parameters alone)')
    return len(out.violations) == before


def history_library(case, out):
    import gc
    kept, ok, prev = [], True, None
    for n, spec in enumerate(case['seq']):
        who = 'function number %d of a sequence built in one process (%s; earlier ones %s; built before it: %s), %s' % (
            n + 1, case['kind'], 'kept alive' if case['keep'] else 'discarded', short_spec(prev) if prev else 'nothing',
            short_spec(spec))
        try:
            obj = fresh_sy(spec)
        except Exception as e:  # pylint: disable=broad-except
            out.violation('oracle', '%s: the factory raises %s: %s' % (who, type(e).__name__, e), case=case)
            return
        out.count('history:functions')
        out.count('history:%s:%s' % (case['kind'], 'kept' if case['keep'] else 'discarded'))
        res = impl_curve(obj, case['grid'], case['mean'], out, case, who + ': compute_rise_curve')
        res2 = impl_curve(obj, case['grid2'], case['mean'], out, case, who + ': compute_rise_curve (refined grid)')
        out.evaluations += 2
        if res[0] != 'ok' or res2[0] != 'ok':
            out.violation('oracle', '%s: compute_rise_curve raised %s' % (who, res[1] if res[0] != 'ok' else res2[1]),
                          case=case)
            return
        ok = (history_curve(spec, obj, case['grid'], case['mean'], res[1], out, case, who + ': compute_rise_curve')
              and history_curve(spec, obj, case['grid2'], case['mean'], res2[1], out, case,
                                who + ': compute_rise_curve (refined grid)'))
        if ok:
            out.nontriv(('h', n, json_key(spec), tuple(case['grid'])))
        prev = spec
        if case['keep']:
            kept.append((n, spec, obj))
        del obj
        gc.collect()
        if not ok:
            return
    for n, spec, obj in reversed(kept[:-1]):
        out.count('history:used-again')
        who = 'function number %d of a sequence of %d built in one process (%s), used again after all were built, %s' % (
            n + 1, len(case['seq']), case['kind'], short_spec(spec))
        res = impl_curve(obj, case['grid'], case['mean'])
        out.evaluations += 1
        if res[0] != 'ok':
            out.violation('oracle', '%s: compute_rise_curve raised %s' % (who, res[1]), case=case)
            return
        if not history_curve(spec, obj, case['grid'], case['mean'], res[1], out, case, who + ': compute_rise_curve'):
            return


def json_key(spec):
    return tuple(sorted((k, tuple(v) if isinstance(v, list) else v) for k, v in spec.items()))


def history_cli(case, out):
    """`spowtd simulate rise` for each parameter set in turn, in this process, on one database."""
    try:
        db, d = assemble(case['src'])
    except RuntimeError as e:
        out.count('history:cli-not-assembled')
        out.notes.append('history: dataset not assembled: %s' % e)
        return
    view = sorted(read_view(db))
    if len(view) < 2:
        out.count('history:cli-short-view')
        return
    grid = [z for z, _ in view]
    mean = math.fsum(s for _, s in view) / len(view)
    hdr = ['Water level, mm', 'Measured storage, mm', 'Simulated storage, mm']
    prev = None
    for n, spec in enumerate(case['seq']):
        if spec.get('place'):
            shift = round((grid[len(grid) // 3] - spec['knots'][0]) * 8) / 8
            spec = dict(spec, knots=[x + shift for x in spec['knots']])
        who = '`spowtd simulate rise` run number %d in one process (parameter file before it: %s) with %s' % (
            n + 1, short_spec(prev) if prev else 'none', short_spec(spec))
        res = run_cli(db, d, spec, False)
        out.evaluations += 1
        out.count('history:cli-runs')
        out.count('history:cli:%s' % spec['type'])
        prev = spec
        if res[0] != 'ok':
            out.violation('oracle', '%s raised %s: %r on an assembled rise curve' % (who, res[1], res[2]), case=case)
            return
        table = res[1]
        if (isinstance(table, list) and table and table[0] == hdr and all(len(r) == 3 for r in table[1:])
                and not base_oracle(read_base(db), table[1:], who + ': the table', out, case)):
            return
        if (not isinstance(table, list) or not table or table[0] != hdr or any(len(r) != 3 for r in table[1:])
                or [(float(r[0]), float(r[1])) for r in table[1:]] != view):
            out.violation('oracle', '%s: the table does not list the levels and measured storage of the view '
                          'average_rising_depth under the header row' % who, case=case)
            return
        ref, breaks = reference_sy(spec)
        before = len(out.violations)
        oracle_curve(ref, breaks, grid, mean, [float(r[2]) for r in table[1:]], out, case,
                     who + ' (area under the specific yield of its own parameters, computed from the parameters alone)')
        if len(out.violations) != before:
            return
        out.nontriv(('hc', n, json_key(spec), tuple(grid)))


def check_history(cases, out):
    for k, case in enumerate(cases):
        if 'earlier' not in case:
            # what this process built before this sequence belongs to the failing input
            case = dict(case, earlier=[{f: c[f] for f in c if f != 'earlier'} for c in cases[:k]])
        if case['level'] == 'history':
            history_library(case, out)
        else:
            history_cli(case, out)


# ------------------------------------------------------------- extremes (function level, oracle only)

# water levels referred to a distant datum (1 km above / below it, and powers of two of that size), and the
# relative size of a grid step: 1e-3 .. 1e-6 of the magnitude of the level
DATUMS = [1e6, -1e6, 1048576.0, -1048576.0, 3e5, -1e5]
REL_STEPS = [1e-3, 1e-4, 1e-5, 1e-6, 3e-6, 3e-5]


def extreme_grid(rng, knots, kind, rel):
    """An increasing grid of 4-12 levels whose steps are about `rel` x the magnitude of the levels.
    kind: 'inside' (between the knots), 'low' / 'high' (across the lowest / highest knot), 'below' / 'above'."""
    xmin, xmax = knots[0], knots[-1]
    span = xmax - xmin
    n = rng.randrange(4, 13)
    centre = {'inside': xmin + span * rng.uniform(0.15, 0.85), 'low': xmin, 'high': xmax,
              'below': xmin - span * rng.uniform(0.05, 0.5), 'above': xmax + span * rng.uniform(0.05, 0.5)}[kind]
    mag = max(abs(centre), 50.0)
    even = rng.random() < 0.5
    step = mag * rel * rng.uniform(0.3, 1.0)
    z = centre - step * rng.uniform(0.2, 0.8) * n
    grid = [z]
    for _ in range(n - 1):
        z += step if even else step * rng.choice([0.25, 0.5, 1.0, 1.0, 2.0])
        grid.append(z)
    grid = sorted(set(float(g) for g in grid))
    return grid if len(grid) >= 2 else [grid[0], grid[0] + mag * rel]


def refine_between(rng, grid):
    """Every level kept, 0-3 levels inserted inside every step (nothing beyond the ends)."""
    out = set(grid)
    for a, b in zip(grid, grid[1:]):
        for _ in range(rng.choice([0, 1, 1, 2, 3])):
            out.add(a + (b - a) * rng.choice([0.5, 0.25, 0.75, rng.uniform(0.05, 0.95)]))
    return sorted(out)


def extreme_cases(seed, tier):
    """Specific-yield functions and grids at the extremes: (a) the whole parameter set referred to a distant datum
    (knots shifted by +-1e6 mm and the like; grid steps of 1 .. 250 mm there), (b) ordinary parameter sets with
    grid steps of 1e-3 .. 1e-6 of the level's magnitude, (c) PEATCLSM (knots fixed by the class) on grids far
    beyond its knots."""
    cases = []
    kinds = ['inside', 'low', 'high', 'inside', 'below', 'above']
    for k in range(18 if tier == 'quick' else 180):
        rng = C.rng_for(seed, PROP, 'extreme', k)
        rel = REL_STEPS[k % len(REL_STEPS)]
        kind = kinds[(k // 2) % len(kinds)]
        if k % 3 == 0:
            ks = GS.short_variant(GS.gen_knots(rng, rng.choice(['param', 'wide', 'full', 'wiggly'])))
            datum = DATUMS[(k // 3) % len(DATUMS)]
            spec = dict(type='spline', knots=[x + datum for x in ks['knots']], values=ks['values'])
            what = 'datum%+g' % datum
            if any(b <= a for a, b in zip(spec['knots'], spec['knots'][1:])):
                continue
            grid = extreme_grid(rng, spec['knots'], kind, rng.choice([1e-6, 1e-5, 5e-5, 2.5e-4]))
        elif k % 3 == 1:
            ks = GS.gen_knots(rng, rng.choice(['param', 'wide', 'full', 'wiggly']))
            spec = dict(type='spline', knots=ks['knots'], values=ks['values'])
            what = 'fine-steps'
            grid = extreme_grid(rng, spec['knots'], kind, rel)
        else:
            spec = gen_peat(rng)
            far = k % 2 == 0
            what = 'peatclsm:' + ('far-beyond-knots' if far else 'fine-steps')
            if far:
                datum = DATUMS[(k // 3) % len(DATUMS)]
                grid = extreme_grid(rng, [datum - 1.0, datum + 1.0], 'inside', rng.choice([1e-6, 1e-5, 2.5e-4]))
            else:
                grid = extreme_grid(rng, [-995.0, 1005.0], kind, rel)
        cases.append(dict(level='FL-extreme', what=what, where=kind, spec=spec, grid=grid,
                          mean=rng.choice([0.0, 12.5, -40.0]), grid2=refine_between(rng, grid)))
    return cases


def check_extreme(case, out):
    """compute_rise_curve on an extreme grid and on a refinement, judged by the oracle alone (area under the
    object's own __call__ by Gauss-Legendre between the knots; refinement; monotonicity)."""
    spec, grid, grid2, mean = case['spec'], case['grid'], case['grid2'], case['mean']
    obj = build_sy(spec)
    knots, _, _ = knots_of(spec, obj)
    res = impl_curve(obj, grid, mean, out, case)
    res2 = impl_curve(obj, grid2, mean, out, case, 'compute_rise_curve (refined grid)')
    out.evaluations += 2
    steps = [b - a for a, b in zip(grid, grid[1:])]
    rel = min(steps) / max(abs(z) for z in grid)
    out.count('FL-extreme:%s:%s' % (case['what'], case['where']))
    out.count('FL-extreme:smallest step / level magnitude <= 1e%d' % math.ceil(math.log10(rel)))
    if res[0] != 'ok' or res2[0] != 'ok':
        out.violation('oracle', 'compute_rise_curve raised %s on grid %r' % (res[1] if res[0] != 'ok' else res2[1], grid),
                      case=case)
        return
    before = len(out.violations)
    scale = oracle_curve(obj, knots, grid, mean, res[1], out, case, 'compute_rise_curve (%s)' % case['what'])
    oracle_curve(obj, knots, grid2, mean, res2[1], out, case, 'compute_rise_curve (%s, refined grid)' % case['what'])
    if scale is not None:
        oracle_refinement(grid, res[1], grid2, res2[1], scale, out, case)
    if len(out.violations) == before and rel <= 1e-4:
        out.nontriv(('x', json_key(spec), tuple(grid)))


# ------------------------------------------------------------- long master curves (command level, oracle only)

def assemble_long(src):
    d = D.scratch(PROP, 'cl_long')
    rec = src['rec']
    db, _, exc = D.load(GP.to_dataset(rec), d)
    if exc is not None:
        raise RuntimeError('load failed: %r' % exc)
    for step in ('classify', 'set-zeta-grid', 'rise'):
        _, exc, _ = D.cli(GP.step_argv(step, db, rec))
        if exc is not None:
            raise RuntimeError('%s failed: %r' % (step, exc))
    return db, d


def long_source(rng, nlevels, out):
    """A dataset whose master rise curve (measured on the base tables) has more than `nlevels` levels."""
    rec = GP.gen_long_curves_record(rng, nlevels)
    for _ in range(4):
        src = dict(kind='long', rec=rec)
        db, _ = assemble_long(src)
        levels = [z for z, _, _ in read_base(db)]
        if len(levels) > nlevels:
            return src, levels
        out.count('CL-long:step-halved')
        rec = GP.gen_long_curves_record(rng, nlevels, rec=rec)
    raise RuntimeError('no record with more than %d rise levels' % nlevels)


def check_long(case, out):
    """`spowtd simulate rise` in both output modes on a long master curve, judged by the oracle alone: the
    levels and the measured storage of the table against the master curve of the BASE tables, the vector against
    the table, the simulated column against the area under the specific yield, its mean."""
    db, d = assemble_long(case['src'])
    view, base = read_view(db), read_base(db)
    for size in GP.BLOCK_SIZES:
        if len(base) > size:
            out.count('CL-long:master rise curve of more than %d levels' % size)
    out.count('CL-long:levels', len(base))
    if not view:
        out.violation('oracle', 'the master rise curve assembled by `rise` has %d levels (base tables), the view '
                      'average_rising_depth that `simulate rise` reads has none' % len(base), case=case)
        return
    spec = case['spec']
    out.evaluations += 2
    out.count('CL-long:%s' % spec['type'])
    tab_res = run_cli(db, d, spec, False)
    obs_res = run_cli(db, d, spec, True)
    if tab_res[0] != 'ok' or obs_res[0] != 'ok':
        bad = tab_res if tab_res[0] != 'ok' else obs_res
        out.violation('oracle', '`spowtd simulate rise` raised %s: %r on an assembled rise curve of %d levels'
                      % (bad[1], bad[2], len(base)), case=case)
        return
    if cl_oracle(view, tab_res[1], obs_res[1], obs_res[2], spec, out, case, base=base) and len(base) > 1000:
        out.nontriv(('long', len(base), json_key(spec)))


def long_cases(seed, tier, out):
    cases = []
    targets = [1024] if tier == 'quick' else [1000, 1024, 2048, 4096, 8192, 10000]
    for k, target in enumerate(targets):
        rng = C.rng_for(seed, PROP, 'long', k)
        try:
            src, levels = long_source(rng, target, out)
        except RuntimeError as e:
            out.count('CL-long:not-assembled')
            out.notes.append('long dataset %d not assembled: %s' % (k, e))
            continue
        kind = CL_KINDS[(seed + k) % 4]
        spec = spec_for_levels(rng, levels[0], levels[-1], kind) if (seed + k) % 3 else gen_peat(rng)
        cases.append(dict(level='CL-long', src=src, spec=spec, target=target))
    return cases


# ------------------------------------------------------------- driver

def gen_specs(rng, n):
    specs = []
    kinds = ['param', 'wide', 'tight', 'full', 'wiggly', 'negative']
    for k in range(n):
        if k % 4 == 3:
            specs.append(gen_peat(rng))
            continue
        ks = GS.gen_knots(rng, kinds[k % len(kinds)])
        if k % 2 == 0:
            ks = GS.short_variant(ks)
        specs.append(dict(type='spline', knots=ks['knots'], values=ks['values'],
                          short=ks['kind'].endswith('-short')))
    return specs


def run(ctx, out):
    C.import_spowtd()
    _PEAT_CACHE.clear()
    seed, tier = ctx['seed'], ctx['tier']
    rng = C.rng_for(seed, PROP)
    check_history(history_cases(seed, tier), out)
    nfl = 100 if tier == 'quick' else 1000
    ncl = 24 if tier == 'quick' else 240
    specs = gen_specs(rng, nfl)
    tab, exact, tmeta, emeta = fl_cases(specs, seed, out)
    stab, sexact, stmeta, semeta = fl_cases(specs[::3], seed, out, wheres=GS_WHERE_SPAN, tag='fl-span')
    run_shards('fl_tab', tab + stab, tmeta + stmeta, out, 'fl_tab', 12)
    run_shards('fl_exact', exact + sexact, emeta + semeta, out, 'fl_exact', 4)
    fl_errors(out, 'fl_err')
    srcs = []
    for k in range(ncl):
        r = C.rng_for(seed, PROP, 'src', k)
        if k % 2 == 0:
            srcs.append(dict(kind='plan', plan=CC.make_plan(r)))
        else:
            srcs.append(dict(kind='saw', saw=sawtooth(r)))
    # after the sources it always had: records whose top grid level is shared by all rises
    tops = ['positive', 'surface', 'positive', 'negative']
    for k in range(6 if tier == 'quick' else 48):
        srcs.append(sawtooth_top(C.rng_for(seed, PROP, 'src-top', k), top=tops[k % len(tops)]))
    tab, exact, tmeta, emeta = cl_cases(srcs, seed, out)
    run_shards('cl_tab', tab, tmeta, out, 'cl_tab', 4)
    run_shards('cl_exact', exact, emeta, out, 'cl_exact', 2)
    cl_empty(out, 'cl_empty')
    # extremes and long master curves: judged by the oracle alone (nothing of them goes to Coq)
    for case in extreme_cases(seed, tier):
        check_extreme(case, out)
    for case in long_cases(seed, tier, out):
        check_long(case, out)
    out.rule = ('FL: compute_rise_curve on spline (4-9 knots, six kinds, short-binary variants) and PEATCLSM '
                '(published + random admissible parameters) objects x grids of seven placements relative to the '
                'knots, each with a refinement; CL: `spowtd simulate rise` with and without --observations on '
                'datasets assembled through the CLI (planted-truth plans and sawtooth records), spline knots '
                'placed to cover / end inside / lie beyond the measured curve, and PEATCLSM; plus records whose storms '
                'all end inside one grid cell above / at / below the surface (top level of the master curve crossed by '
                'every rise), the table judged against the master curve recomputed from the base tables '
                '(rising_interval, rising_interval_zeta, zeta_grid). FL also: grids with one step over the whole knot '
                'range (two-level grids; such a step inside a longer grid); every level array handed over must come '
                'back bit for bit and a second call with it must return the same curve. Non-trivial: a '
                'grid of >= 3 levels reaching outside the knot range; distinct by (object, grid). History: '
                'sequences of 3-5 functions built in one process (spline: eight kinds of sharing; PEATCLSM: same soil '
                '/ different sd, same sd / one soil parameter changed) on one grid reaching beyond all knots, and '
                '`simulate rise` run 9 times in-process on one database with parameter files differing in sd / '
                'theta_s / spline end values. Extremes (oracle only, not sent to Coq): parameter sets referred to a '
                'datum +-1e6 mm away (grid steps 1e-6 .. 2.5e-4 of the level), ordinary sets and PEATCLSM on grids with '
                'steps of 1e-3 .. 1e-6 of the level magnitude, each with a refinement. Long curves (oracle only, not '
                'sent to Coq: reading the literals would dominate): `simulate rise` in both modes on a dataset whose '
                'master rise curve has more than 1024 levels (thorough: 1000 .. 10000), table judged against the base '
                'tables.')
    out.samples = [dict(level='FL', spec=specs[0]), dict(level='CL', src_kind=srcs[0]['kind'])]
    out.assumptions += [
        'FITPACK is a Section variable with a tested contract in the wrapper theorems; the exact spline model '
        '(computed inside Coq from the knots) replaces it in half of the correspondence cases',
        'binary64 rounding of cumsum / mean is not modelled: exact rationals, compared within 1e-10 / 1e-9 of '
        'the largest storage value',
        'PEATCLSM knot VALUES are taken from the object (their formula is property C16); here only the '
        'order-1 interpolation, the clamping and the integration are modelled',
        'the SQL view average_rising_depth is read from the database, not modelled (properties C05/C06); '
        'YAML round trip by PyYAML is exercised, not modelled']


def replay(case, out):
    C.import_spowtd()
    _PEAT_CACHE.clear()
    if case['level'] in ('history', 'CL-history'):
        check_history([dict(c, earlier=[]) for c in case.get('earlier', [])], C.Outcome(PROP))   # rebuild the history
        check_history([case], out)
        return
    if case['level'] == 'FL-extreme':
        check_extreme(case, out)
        return
    if case['level'] == 'CL-long':
        check_long(case, out)
        return
    if case['level'] == 'FL':
        if not case['grid']:
            fl_errors(out, 'replay_err')
            return
        obj = build_sy(case['spec'])
        knots, values, order = knots_of(case['spec'], obj)
        tab, exact, metas = [], [], []
        scale = None
        for g in (case['grid'], case['grid2']):
            res = impl_curve(obj, g, case['mean'], out, case)
            if res[0] != 'ok':
                out.violation('oracle', 'compute_rise_curve raised %s on grid %r' % (res[1], g), case=case)
                return
            scale = oracle_curve(obj, knots, g, case['mean'], res[1], out, case, 'compute_rise_curve')
            sc = max(1.0, max(abs(w) for w in res[1]), abs(case['mean']))
            tab.append('(%s, %s, %s, %s, %s)' % (tab_src(obj, g), C.cfloats(g), C.cfloat(case['mean']),
                                                 C.cfloat(sc), c_res_floats(res)))
            if order == 1 or case['spec'].get('short'):
                exact.append('(%s, %s, %s, %s, %s)' % (exact_src(order, knots, values), C.cfloats(g),
                                                       C.cfloat(case['mean']), C.cfloat(sc), c_res_floats(res)))
            metas.append(case)
        r1 = impl_curve(obj, case['grid'], case['mean'])
        r2 = impl_curve(obj, case['grid2'], case['mean'])
        if scale is not None:
            oracle_refinement(case['grid'], r1[1], case['grid2'], r2[1], scale, out, case)
        run_shards('fl_tab', tab, metas, out, 'replay_tab', 4)
        run_shards('fl_exact', exact, metas[:len(exact)], out, 'replay_exact', 4)
    elif case['level'] == 'CL-empty':
        cl_empty(out, 'replay_empty')
    else:
        # re-run this dataset with exactly this parameter set
        src, spec = case['src'], case['spec']
        db, d = assemble(src)
        view = read_view(db)
        tab_res, obs_res = run_cli(db, d, spec, False), run_cli(db, d, spec, True)
        if tab_res[0] != 'ok' or obs_res[0] != 'ok':
            out.violation('oracle', '`spowtd simulate rise` raised on an assembled rise curve', case=case)
            return
        if not cl_oracle(view, tab_res[1], obs_res[1], obs_res[2], spec, out, case, base=read_base(db)):
            return
        rows = [tuple(float(x) for x in r) for r in tab_res[1][1:]]
        obj = build_sy(spec)
        knots, values, order = knots_of(spec, obj)
        sc = max(1.0, max(abs(r[2]) for r in rows), max(abs(r[1]) for r in rows))
        cview = C.clist([C.cpair(C.cfloat(z), C.cfloat(s)) for z, s in view])
        cimpl = '(Ok (%s, %s))' % (C.clist(['(%s, %s, %s)' % tuple(C.cfloat(x) for x in r) for r in rows]),
                                   C.cfloats([float(x) for x in obs_res[1]]))
        levels = sorted(z for z, _ in view)
        run_shards('cl_tab', ['(%s, %s, %s, %s)' % (tab_src(obj, levels), cview, C.cfloat(sc), cimpl)], [case],
                   out, 'replay_cl_tab', 2)
        run_shards('cl_exact', ['(%s, %s, %s, %s)' % (exact_src(order, knots, values), cview, C.cfloat(sc),
                                                      cimpl)], [case], out, 'replay_cl_exact', 2)
