"""C11 — timestamps are converted exactly and bad input is refused.

Function level: spowtd.load.generate_timestamped_rows against the Coq model
`stamp` (coq/Model/TimeZone.v: canonical text -> civil fields -> seconds on the
local clock -> the UTC instant(s) whose local reading is that, non-DST
preferred) for many zones x datetimes.  The zone tables are read from the TZif
files bundled with pytz by the small parser below, *as pytz reads them* (first
data block only, i.e. 32-bit instants 1901..2037; offsets rounded to whole
minutes; the rule before the first transition = first standard-time type).
pytz's own localize algorithm is an oracle: it is compared with the ideal
model here, on every run, by sampling.

Oracle (independent of model and of pytz): the property's own wording — the
stored instant, rendered in the zone by the stdlib `zoneinfo` reading of the
same file (64-bit block + POSIX footer, no rounding), is the original text.
Where that fails only because pytz's table differs from the full IANA data
(sub-minute historical offsets, instants before 1901-12-13 20:45:52 UTC or after
2037) the case is counted as `pytz_table_deviation:*` (reported, see
notes/C11.md), not as a violation of spowtd; a non-existent (skipped) local
time is outside the property's quantifier: the oracle only counts it, the
correspondence still compares it (model: localize(dt - 6 h) + 6 h, as pytz).
Texts that strptime accepts although they are not in the canonical form
(one-digit fields, runs of blanks) are outside the model; the oracle requires
the same epoch as for the canonical spelling of the same fields.

Command level: `spowtd load` with the files written in a non-UTC zone, valid
and malformed (the three refusal kinds of the property, duplicates, a text
that is not a timestamp), compared with `load_text_model`
(coq/Model/LoadText.v); after a refusal the data file must hold no row (or be
unchanged when it was populated).
"""
import bisect
import datetime as dt
import json
import os
import re
import struct
import zoneinfo

from harness import common as C
from harness import dataset as D
from harness import gen_load as G
from harness.props import c10

PROP = 'C11'
MODELS = ['Model/LoadText.vo']
PRE = ('From Spowtd Require Import Model.LoadText.\n'
       'From Coq Require Import String PrimFloat.\nOpen Scope string_scope.\n')
EPOCH0 = dt.datetime(1970, 1, 1)
FMT = '%Y-%m-%d %H:%M:%S'
V1_LO = -2 ** 31
Y2038 = 2145916800          # 2038-01-01
ZONE_DIR = None


def zone_dir():
    global ZONE_DIR
    if ZONE_DIR is None:
        import pytz
        ZONE_DIR = os.path.join(os.path.dirname(pytz.__file__), 'zoneinfo')
    return ZONE_DIR


# ------------------------------------------------------------- TZif, as pytz reads it

def read_tzif_v1(path):
    """First (32-bit) data block of a TZif file: (instants, type indices, types)."""
    with open(path, 'rb') as f:
        b = f.read()
    if b[:4] != b'TZif':
        raise ValueError('not a TZif file: %s' % path)
    _isut, _isstd, _leap, timecnt, typecnt, charcnt = struct.unpack('>6l', b[20:44])
    p = 44
    times = list(struct.unpack('>%dl' % timecnt, b[p:p + 4 * timecnt]))
    p += 4 * timecnt
    idx = list(struct.unpack('>%dB' % timecnt, b[p:p + timecnt]))
    p += timecnt
    raw = []
    for _ in range(typecnt):
        off, isdst, ab = struct.unpack('>lBB', b[p:p + 6])
        p += 6
        raw.append((off, bool(isdst), ab))
    abbr = b[p:p + charcnt]
    types = []
    for off, isdst, ab in raw:
        end = abbr.find(b'\0', ab)
        types.append((off, isdst, abbr[ab:end if end >= 0 else len(abbr)].decode('ascii')))
    return times, idx, types


def round_minute(x):
    return ((x + 30) // 60) * 60


def pytz_view(path):
    """The table pytz builds: dict(first=(offset, dst), trans=[(instant, offset, dst)],
    raw_offsets=set of unrounded offsets).  `dst` is pytz's 'daylight-saving
    offset is non-zero' (what localize(is_dst=False) filters on)."""
    times, idx, types = read_tzif_v1(path)
    raw_offsets = {t[0] for t in types}
    if len(types) == 1 or not times:
        return dict(first=(types[0][0], False), trans=[], raw_offsets=raw_offsets, static=True)
    i = 0
    while types[i][1]:
        i += 1
    if types[i] == types[idx[0]]:
        seq_t, seq_i = [None] + times[1:], list(idx)
    else:
        seq_t, seq_i = [None] + times, [i] + idx
    infos = []
    for k in range(len(seq_i)):
        inf = types[seq_i[k]]
        if not inf[1]:
            dst = 0
        else:
            prev = inf
            for j in range(k - 1, -1, -1):
                prev = types[seq_i[j]]
                if not prev[1]:
                    break
            dst = inf[0] - prev[0]
            if dst <= 0 or dst > 3600 * 3:
                for j in range(k + 1, len(seq_i)):
                    std = types[seq_i[j]]
                    if not std[1]:
                        dst = inf[0] - std[0]
                        if 0 < abs(dst) <= 3600 * 3:
                            break
        infos.append((round_minute(inf[0]), round_minute(dst) != 0))
    return dict(first=infos[0], trans=[(seq_t[k], infos[k][0], infos[k][1]) for k in range(1, len(seq_i))],
                raw_offsets=raw_offsets, static=False)


class Zone:
    def __init__(self, name):
        self.name = name
        self.path = os.path.join(zone_dir(), *name.split('/'))
        self.view = pytz_view(self.path)
        self.times = [t for t, _, _ in self.view['trans']]
        with open(self.path, 'rb') as f:
            self.iana = zoneinfo.ZoneInfo.from_file(f, key=name)

    def info_at(self, e):
        k = bisect.bisect_right(self.times, e) - 1
        if k < 0:
            return self.view['first']
        return self.view['trans'][k][1:]

    def offsets(self):
        return sorted({self.view['first'][0]} | {o for _, o, _ in self.view['trans']})

    def render(self, e):
        """Text of instant e on the zone's clock, by the pytz-view table."""
        return fmt_naive(e + self.info_at(e)[0])

    def candidates(self, local):
        return sorted({local - o for o in self.offsets() if (local - o) + self.info_at(local - o)[0] == local})

    def render_iana(self, e):
        try:
            return dt.datetime.fromtimestamp(e, tz=self.iana).strftime(FMT) if -62135596800 + 86400 <= e < 253402300800 - 86400 else None
        except (OverflowError, ValueError, OSError):
            return None

    def iana_offset(self, e):
        try:
            return int(dt.datetime.fromtimestamp(e, tz=self.iana).utcoffset().total_seconds())
        except (OverflowError, ValueError, OSError):
            return None

    def exists_iana(self, local):
        offs = set(self.view['raw_offsets']) | {o for o in self.offsets()}
        # the footer rule may use offsets that occur in the table anyway
        for o in offs:
            e = local - o
            if self.iana_offset(e) is not None and e + self.iana_offset(e) == local:
                return True
        return False

    def coq(self):
        f = self.view['first']
        return 'mk_zone %s %s %s' % (C.cZ(f[0]), C.cbool(f[1]), C.clist(
            ['(%s, %s, %s)' % (C.cZ(t), C.cZ(o), C.cbool(d)) for t, o, d in self.view['trans']]))


def fmt_naive(secs):
    """'%Y-%m-%d %H:%M:%S' of seconds on a zone-less clock; None outside years 1..9999."""
    try:
        d = EPOCH0 + dt.timedelta(seconds=secs)
    except OverflowError:
        return None
    return '%04d-%02d-%02d %02d:%02d:%02d' % (d.year, d.month, d.day, d.hour, d.minute, d.second)


def naive_secs(text):
    d = dt.datetime.strptime(text, FMT)
    return (d - EPOCH0).days * 86400 + (d - EPOCH0).seconds


# ------------------------------------------------------------- generators (FL)

FIXED_ZONES = ['UTC', 'Etc/GMT+5', 'Etc/GMT-14', 'Africa/Lagos', 'America/New_York', 'Europe/Amsterdam',
               'Australia/Lord_Howe', 'Asia/Kolkata', 'Africa/Monrovia', 'Europe/Dublin', 'Africa/Casablanca',
               'Pacific/Apia', 'Asia/Kathmandu', 'America/St_Johns', 'Europe/Warsaw', 'Europe/Vilnius',
               'Antarctica/Troll', 'America/Caracas', 'Asia/Jakarta', 'Asia/Pontianak', 'Asia/Kuala_Lumpur',
               'Pacific/Kiritimati', 'Asia/Tehran', 'Europe/London', 'Asia/Brunei', 'America/Sao_Paulo']

MALFORMED_TEXTS = ['2020-13-01 00:00:00', '2021-02-29 00:00:00', '2020-01-01 24:00:00', '2020-01-01 00:60:00',
                   '2020-01-01T00:00:00', '2020/01/01 00:00:00', '', '2020-01-01', '2020-01-01 00:00',
                   '2020-01-01 00:00:00.5', '0000-01-01 00:00:00', '2020-00-10 00:00:00', '2020-04-31 12:00:00',
                   'yesterday', '2020-01-01 00:00:00Z', '20-01-01 00:00:00', '1900-02-29 00:00:00',
                   '2020-01-32 00:00:00', '2020-01-01 00:00:61', '01-01-2020 00:00:00']


def all_zone_names():
    import pytz
    return list(pytz.all_timezones)


def distinct_zone_names():
    """One name per distinct TZif file content."""
    seen, out = set(), []
    for n in all_zone_names():
        p = os.path.join(zone_dir(), *n.split('/'))
        try:
            with open(p, 'rb') as f:
                h = hash(f.read())
        except OSError:
            continue
        if h not in seen:
            seen.add(h)
            out.append(n)
    return out


def zone_texts(rng, z, n_trans, n_random, n_lmt, n_bad):
    """Texts for one zone: around transitions, LMT era, random, malformed."""
    texts = []
    trans = z.view['trans']
    picks = list(range(len(trans)))
    if n_trans is not None and len(picks) > n_trans:
        keep = {0, len(picks) - 1}
        keep |= {k for k in picks if trans[k][1] % 3600 not in (0, 1800)}      # unusual offsets
        keep = set(sorted(keep)[:max(2, n_trans // 2)])
        rest = [k for k in picks if k not in keep]
        rng.shuffle(rest)
        picks = sorted(keep | set(rest[:max(0, n_trans - len(keep))]))
    for k in picks:
        t, off_after, _ = trans[k]
        off_before = z.view['first'][0] if k == 0 else trans[k - 1][1]
        for delta in (0, -1, 1, -3600, 3600, -86400, 86400):
            texts.append(z.render(t + delta))
        # the local readings at the two sides of the transition: first / last skipped or repeated second
        lo, hi = sorted((t + off_before, t + off_after))
        for local in (lo - 1, lo, (lo + hi) // 2, hi - 1, hi):
            texts.append(fmt_naive(local))
    first_t = trans[0][0] if trans else 0
    for _ in range(n_lmt):
        texts.append(z.render(first_t - rng.randrange(1, 86400 * 365 * 60)))
    for _ in range(n_random):
        k = rng.randrange(10)
        if k < 7:
            e = rng.randrange(-2 ** 31 + 86400, Y2038 - 86400)        # where pytz has data
        elif k == 7:
            e = rng.randrange(Y2038, 4102444800)                        # 2038..2100
        elif k == 8:
            e = rng.randrange(-62135596800 + 86400 * 400, -2 ** 31)      # year 2 .. 1901
        else:
            e = rng.randrange(946684800, 1900000000)                    # 2000..2030
        texts.append(z.render(e))
    for _ in range(n_bad):
        texts.append(rng.choice(MALFORMED_TEXTS))
    return [t for t in texts if t is not None]


def noncanonical_variants(rng, text):
    """Spellings of the same fields that strptime('%Y-%m-%d %H:%M:%S') also accepts."""
    m = re.fullmatch(r'(\d{4})-(\d\d)-(\d\d) (\d\d):(\d\d):(\d\d)', text)
    if not m:
        return []
    y, mo, d, h, mi, sec = m.groups()
    short = '%s-%d-%d %d:%d:%d' % (y, int(mo), int(d), int(h), int(mi), int(sec))
    out = [short, '%s-%s-%s   %s:%s:%s' % (y, mo, d, h, mi, sec), '%s-%s-%s\t%s:%s:%s' % (y, mo, d, h, mi, sec)]
    return [t for t in out if t != text][:1 + rng.randrange(2)]


def check_noncanonical(zones_texts, out, rng, per_zone):
    """Oracle only: a non-canonical spelling that is accepted must give the epoch of the canonical one."""
    import pytz
    for z, texts in zones_texts:
        tz = pytz.timezone(z.name)
        valid = [t for t in texts if canonical_valid(t)]
        rng.shuffle(valid)
        for text in valid[:per_zone]:
            ref = impl_stamp(tz, text)
            for var in noncanonical_variants(rng, text):
                r = impl_stamp(tz, var)
                out.evaluations += 1
                if r[0] == 'err':
                    out.count('FL:noncanonical_refused')
                    continue
                out.count('FL:noncanonical_accepted')
                if ref[0] != 'ok' or r[1] != ref[1]:
                    out.violation('oracle', 'the spelling %r of the timestamp %r in zone %s is stored as %r, the '
                                  'canonical spelling as %r' % (var, text, z.name, r[1], ref[1:]),
                                  case=dict(level='NC', zone=z.name, text=text, variant=var))


# ------------------------------------------------------------- FL check

def impl_stamp(tz, text):
    import spowtd.load as L
    try:
        rows = list(L.generate_timestamped_rows([[text, 'x', 'y']], tz))
    except Exception as e:  # pylint: disable=broad-except
        return ('err', e)
    if len(rows) != 1 or rows[0][1:] != ['x', 'y'] or type(rows[0][0]) is not int:
        return ('err', RuntimeError('unexpected rows %r' % (rows,)))
    return ('ok', rows[0][0])


def canonical_valid(text):
    """Is the text a canonical 'YYYY-MM-DD HH:MM:SS' of an existing calendar date (stdlib only)."""
    m = re.fullmatch(r'(\d{4})-(\d\d)-(\d\d) (\d\d):(\d\d):(\d\d)', text, re.ASCII)
    if not m:
        return False
    try:
        dt.datetime(*[int(x) for x in m.groups()])
        return True
    except ValueError:
        return False


def known_switch(signature):
    path = os.path.join(C.VERIF, 'known_findings.json')
    try:
        return any(k.get('property') == PROP and k.get('signature') == signature and k.get('status') == 'open'
                   for k in json.load(open(path)).get('findings', []))
    except (OSError, ValueError):
        return False


def deviation_kind(z, e):
    if e < V1_LO:
        return 'before_1901-12-13'
    if z.times and e >= z.times[-1] and e >= Y2038 - 86400 * 62:
        return 'after_2037'
    true_off = z.iana_offset(e)
    if true_off is not None and true_off % 60 != 0:
        return 'sub_minute_offset'
    return 'other'


def check_fl(zones_texts, out, label, shard_zones=4):
    """zones_texts: list of (Zone, [text])."""
    import pytz
    report_dev = known_switch('C11/pytz-table-deviation')
    blocks = []    # per zone: (zone, texts, impl results)
    for z, texts in zones_texts:
        tz = pytz.timezone(z.name)
        results = []
        for text in texts:
            r = impl_stamp(tz, text)
            results.append(r)
            out.evaluations += 1
            case = dict(level='FL', zone=z.name, text=text)
            valid = canonical_valid(text)
            if r[0] == 'err':
                if valid:
                    out.violation('oracle', 'generate_timestamped_rows raised %s: %s on the valid timestamp %r '
                                  'in zone %s' % (type(r[1]).__name__, r[1], text, z.name), case=case)
                else:
                    out.count('FL:malformed_refused')
                    if C.err_of(r[1]) != 'EValue':
                        out.count('FL:malformed_refused_with_%s' % type(r[1]).__name__)
                continue
            if not valid:
                out.violation('oracle', 'generate_timestamped_rows accepted %r, which is not a timestamp '
                              '(zone %s), as epoch %d' % (text, z.name, r[1]), case=case)
                continue
            e = r[1]
            local = naive_secs(text)
            if z.render_iana(e) == text:
                out.count('FL:renders_back')
                cands = z.candidates(local)
                if len(cands) > 1:
                    out.count('FL:ambiguous_local_time')
                    out.nontriv(('amb', z.name, text))
                elif z.view['trans'] and abs(e - min(z.times, key=lambda t: abs(t - e))) <= 86400:
                    out.nontriv(('near', z.name, text))
                if z.view['trans'] and e < z.times[0]:
                    out.count('FL:before_first_transition')
                continue
            if z.render(e) == text:
                kind = deviation_kind(z, e)
                out.count('pytz_table_deviation:' + kind)
                if report_dev:
                    out.violation('oracle', 'pytz table deviates from the IANA data (%s): %r in %s is stored as '
                                  '%d, which renders as %r' % (kind, text, z.name, e, z.render_iana(e)),
                                  case=case, signature='C11/pytz-table-deviation')
                continue
            if not z.candidates(local):
                if not z.exists_iana(local):
                    out.count('FL:skipped_local_time(outside quantifier)')
                    continue
                # exists in the IANA data but is skipped in pytz's minute-rounded / 32-bit table
                kind = 'skipped_only_in_pytz_table:' + deviation_kind(z, e)
                out.count('pytz_table_deviation:' + kind)
                if report_dev:
                    out.violation('oracle', 'pytz table deviates from the IANA data (%s): %r in %s is stored as '
                                  '%d, which renders as %r' % (kind, text, z.name, e, z.render_iana(e)),
                                  case=case, signature='C11/pytz-table-deviation')
                continue
            if z.render_iana(e) is None:
                out.count('FL:not_renderable_by_stdlib')
                continue
            out.violation('oracle', 'timestamp %r in zone %s is stored as epoch %d, which renders in that zone '
                          'as %r (pytz table: %r)' % (text, z.name, e, z.render_iana(e), z.render(e)), case=case)
        blocks.append((z, texts, results))
    # correspondence inside Coq
    d = os.path.join(C.WORK, PROP, label)
    import shutil
    shutil.rmtree(d, ignore_errors=True)
    os.makedirs(d)
    files = []
    cur, cur_n = [], 0
    for b in blocks:
        cur.append(b)
        cur_n += len(b[1])
        if len(cur) >= shard_zones or cur_n >= 1500:
            files.append(cur)
            cur, cur_n = [], 0
    if cur:
        files.append(cur)
    jobs = []
    for k, group in enumerate(files):
        path = os.path.join(d, 'stamp_%04d.v' % k)
        with open(path, 'w') as f:
            f.write(PRE)
            for j, (z, texts, results) in enumerate(group):
                f.write('Definition z%d : zone := %s.\n' % (j, z.coq()))
                items = []
                for text, r in zip(texts, results):
                    if r[0] == 'ok':
                        exp = '(Stamp %s)' % C.cZ(r[1])
                    elif C.err_of(r[1]) == 'EValue':
                        exp = 'Refuse'
                    else:
                        exp = 'Skipped'     # never equal to a model answer that is compared
                    items.append('(%s, %s)' % (C.cstring(text), exp))
                f.write('Definition cases%d : list (string * stamped) :=\n [ %s ].\n' % (j, '\n ; '.join(items)))
                f.write('Eval vm_compute in (stamp_codes z%d cases%d).\n' % (j, j))
        jobs.append((path, group))
    import concurrent.futures as cf
    with cf.ThreadPoolExecutor(max_workers=16) as ex:
        futs = {ex.submit(C.coqc, path, 1200): (path, group) for path, group in jobs}
        for fut in cf.as_completed(futs):
            path, group = futs[fut]
            rc, text_out, _ = fut.result()
            lists = re.findall(r'=\s*(\[[^\]]*\]|nil)\s*:\s*list \(nat \* nat\)', text_out, re.S)
            if rc != 0 or len(lists) != len(group):
                out.corr_errors.append((path, text_out[-2000:]))
                continue
            for j, (z, texts, results) in enumerate(group):
                codes = {int(i): int(k) for i, k in re.findall(r'\(\s*(\d+)(?:%nat)?,\s*(\d+)(?:%nat)?\s*\)', lists[j])}
                inner = lists[j].strip()
                n_items = 0 if inner in ('nil', '[]') or not inner.strip('[] \n') else inner.count(';') + 1
                if n_items != len(codes) or any(i >= len(texts) or k > 6 for i, k in codes.items()):
                    out.corr_errors.append((path, 'cannot read the case codes of zone %s: %s' % (z.name, inner[:500])))
                    continue
                bad = sorted(i for i, k in codes.items() if k >= 4)
                skipped = sorted(i for i, k in codes.items() if k in (1, 5))
                unmodelled = sorted(i for i, k in codes.items() if k == 3)
                for i in bad:
                    r = results[i]
                    what = ('epoch %d' % r[1]) if r[0] == 'ok' else '%s: %s' % (type(r[1]).__name__, r[1])
                    out.violation('corr', 'model stamp <> generate_timestamped_rows on %r in zone %s: '
                                  'implementation gives %s, model candidates %s'
                                  % (texts[i], z.name, what,
                                     z.candidates(naive_secs(texts[i])) if canonical_valid(texts[i]) else 'n/a'),
                                  case=dict(level='FL', zone=z.name, text=texts[i]))
                for i in skipped:
                    out.count('FL:model_says_nonexistent(compared: localize(dt-6h)+6h)')
                    if canonical_valid(texts[i]) and z.candidates(naive_secs(texts[i])):
                        out.violation('corr', 'model calls %r in %s a skipped local time but the table has '
                                      'candidates' % (texts[i], z.name),
                                      case=dict(level='FL', zone=z.name, text=texts[i]))
                for i in unmodelled:
                    out.count('FL:model_out_of_fuel(not compared)')
                not_existing = set(skipped) | set(unmodelled)
                for i in range(len(texts)):
                    if i not in not_existing and canonical_valid(texts[i]) and not z.candidates(naive_secs(texts[i])):
                        out.violation('corr', 'model finds an instant for %r in %s but the table has no candidate'
                                      % (texts[i], z.name), case=dict(level='FL', zone=z.name, text=texts[i]))


# ------------------------------------------------------------- CL: `spowtd load` in a zone

CL_ZONES = ['Africa/Lagos', 'Asia/Jakarta', 'America/New_York', 'Asia/Kolkata', 'Australia/Lord_Howe',
            'Europe/Amsterdam', 'Asia/Kathmandu', 'Etc/GMT+5', 'America/St_Johns', 'Asia/Pontianak']
CL_CLASSES = ['same', 'finer_gappy', 'nonaligned', 'wl_outlasts', 'nonuniform_inside', 'et_missing', 'duplicate',
              'populated', 'bad_text', 'nonuniform_inside', 'et_missing', 'populated', 'little_overlap', 'empty',
              'bad_text']


def gen_cl_case(rng, zone_cache):
    """A gen_load case moved into a zone; every instant must render to a local
    time that converts back to that instant (no repeated hour, no rounding)."""
    cls = rng.choice(CL_CLASSES)
    for _ in range(40):
        name = rng.choice(CL_ZONES)
        z = zone_cache(name)
        c = G.gen_case(rng, 'same' if cls == 'bad_text' else cls)
        c['cls'] = cls
        c['tz'] = name
        ok = True
        for key in ('rain', 'et', 'wl'):
            for t, _ in c[key]:
                text = z.render(t)
                if text is None or not (V1_LO + 86400 < t < Y2038 - 86400 * 400) or z.candidates(naive_secs(text)) != [t] \
                        or z.render_iana(t) != text:
                    ok = False
                    break
            if not ok:
                break
        if not ok:
            continue
        if cls == 'bad_text':
            key = rng.choice(['rain', 'et', 'wl'])
            pos = rng.randrange(len(c[key]) + 1)
            c['bad'] = [key, pos, rng.choice(MALFORMED_TEXTS)]
        return c
    raise RuntimeError('no representable case found')


def cl_text_rows(case, z):
    """Rows as written to the files: (text, value text)."""
    out = {}
    for key in ('rain', 'et', 'wl'):
        rows = [[z.render(t), v] for t, v in case[key]]
        if case.get('bad') and case['bad'][0] == key:
            rows.insert(case['bad'][1], [case['bad'][2], '1.0'])
        out[key] = rows
    return out


def run_cl(case, z, d):
    rows = cl_text_rows(case, z)
    os.makedirs(d, exist_ok=True)
    paths = {}
    for name, header, key in (('precipitation', 'datetime,precipitation rate (mm/h)', 'rain'),
                              ('evapotranspiration', 'datetime,evapotranspiration (mm/h)', 'et'),
                              ('water_level', 'datetime,wtd (mm)', 'wl')):
        p = os.path.join(d, name + '.txt')
        with open(p, 'w') as f:
            f.write(header + '\n')
            for text, v in rows[key]:
                f.write('%s,%s\n' % (text, v))
        paths[name] = p
    db = os.path.join(d, 'data.sqlite3')
    if os.path.exists(db):
        os.remove(db)
    before = None
    if case.get('pre') == 'ok':
        fp = c10.FILLER.write(os.path.join(d, 'pre'))
        rc0, exc0, _ = c10.load_cmd(db, fp, 'UTC')
        if exc0 is not None:
            return dict(exc=exc0, tables={}, before=None, rows=rows, filler_failed=True)
        before = D.dump(db, c10.LOAD_TABLES)
    elif case.get('pre') == 'failed':
        import sqlite3
        import spowtd.load as load_mod
        con = sqlite3.connect(db)
        try:
            with open(load_mod.SCHEMA_PATH, 'rt') as f:
                con.executescript(f.read())
        finally:
            con.close()
        before = D.dump(db, c10.LOAD_TABLES)
    rc, exc, _ = c10.load_cmd(db, paths, case['tz'])
    tables = D.dump(db, c10.LOAD_TABLES) if os.path.exists(db) else {}
    return dict(rc=rc, exc=exc, tables=tables, before=before, rows=rows)


def cl_case_str(case, res):
    ts = [int(t) for key in ('rain', 'et', 'wl') for t, _ in case[key]]
    base = min(ts) if ts else 0

    def trows(rows):
        vals = c10.sqlite_read([v for _, v in rows])
        return C.clist(['(%s, %s)' % (C.cstring(t), C.cfloat(x)) for (t, _), x in zip(rows, vals)])
    return '(%s, %s, %s, %s, %s, %s, %s)' % (
        C.cZ(base), C.cbool(bool(case.get('pre'))), C.cstring(case['tz']),
        trows(res['rows']['rain']), trows(res['rows']['et']), trows(res['rows']['wl']),
        c10.expect_str(res, base))


def check_cl(cases, out, label, zone_cache):
    by_zone = {}
    for case in cases:
        z = zone_cache(case['tz'])
        d = D.scratch(PROP, 'cl_db')
        res = run_cl(case, z, d)
        out.evaluations += 1
        out.count('CL:class:' + case['cls'])
        out.count('CL:zone:' + case['tz'])
        pub = dict(level='CL', case={k: case[k] for k in ('cls', 'tz', 'pre', 'rain', 'et', 'wl', 'bad') if k in case})
        if res.get('filler_failed'):
            out.violation('oracle', 'load refused a plain well-formed dataset: %s' % res['exc'], case=pub)
            continue
        bad = c10.malformations(case)
        listed = [b for b in bad if b in ('populated', 'nonuniform', 'et_missing_step')]
        if case.get('bad'):
            listed.append('bad_text')
        if res['exc'] is None:
            out.count('CL:loaded')
            prob = c10.tables_problem(res['tables'])
            if prob:
                out.violation('oracle', 'load succeeded but %s' % prob, case=pub)
                continue
            if listed:
                out.violation('oracle', 'load accepted an input that must be refused (%s) in zone %s'
                              % (', '.join(listed), case['tz']), case=pub)
            else:
                # every stored instant renders back to the text it came from
                for key, table in (('rain', 'rainfall_intensity_staging'), ('et', 'evapotranspiration_staging'),
                                   ('wl', 'water_level_staging')):
                    want = sorted(text for text, _ in res['rows'][key])
                    got = sorted(str(z.render_iana(e)) for e, _ in res['tables'][table])
                    if want != got:
                        out.violation('oracle', 'staged %s instants do not render back to the timestamps of the '
                                      'file in zone %s: first differences %s'
                                      % (key, case['tz'], [(a, b) for a, b in zip(got, want) if a != b][:2]), case=pub)
                out.nontriv(c10.digest(case))
        else:
            out.count('CL:refused:%s' % C.err_of(res['exc']))
            if listed:
                out.nontriv(c10.digest(case))
            if case.get('pre'):
                if res['tables'] != res['before']:
                    out.violation('oracle', 'a refused load into a populated database changed its tables', case=pub)
            else:
                filled = [n for n, rows in res['tables'].items() if rows]
                if filled:
                    out.violation('oracle', 'load was refused (%s) but left rows in %s'
                                  % (type(res['exc']).__name__, filled), case=pub)
        by_zone.setdefault(case['tz'], []).append((case, res, cl_case_str(case, res)))
    def coq_zone(name):
        items = by_zone[name]
        pre = PRE + 'Definition z : zone := %s.\n' % zone_cache(name).coq()
        return C.run_case_shards(PROP, label + '_' + name.replace('/', '_').replace('+', 'p'), pre,
                                 'load_text_case', 'load_text_case_ok z', [s for _, _, s in items], shard=8)
    for name in by_zone:
        zone_cache(name)
    import concurrent.futures as cf
    with cf.ThreadPoolExecutor(max_workers=8) as ex:
        coq_results = dict(zip(sorted(by_zone), ex.map(coq_zone, sorted(by_zone))))
    for name, items in sorted(by_zone.items()):
        bad_idx, errs, _ = coq_results[name]
        out.corr_errors += errs
        for i in bad_idx:
            case, res, _ = items[i]
            what = ('raised %s: %s' % (type(res['exc']).__name__, res['exc'])) if res['exc'] is not None else 'loaded'
            out.violation('corr', 'load_text_model <> `spowtd load` in zone %s on a %s case: implementation %s'
                          % (name, case['cls'], what),
                          case=dict(level='CL', case={k: case[k] for k in ('cls', 'tz', 'pre', 'rain', 'et', 'wl', 'bad')
                                                      if k in case}))


# ------------------------------------------------------------- entry points

def make_zone_cache():
    cache = {}

    def get(name):
        if name not in cache:
            cache[name] = Zone(name)
        return cache[name]
    return get


def run(ctx, out):
    C.import_spowtd()
    seed, tier = ctx['seed'], ctx['tier']
    rng = C.rng_for(seed, PROP)
    zc = make_zone_cache()
    if tier == 'quick':
        names = list(FIXED_ZONES)
        pool = [n for n in distinct_zone_names() if n not in names]
        rng.shuffle(pool)
        names += pool[:14]
        plan = [(zc(n), zone_texts(rng, zc(n), 4, 8, 3, 2)) for n in names]
        ncl = 90
    else:
        names = distinct_zone_names()
        plan = [(zc(n), zone_texts(rng, zc(n), None, 200, 20, 6)) for n in names]
        ncl = 600
    out.count('FL:zones', len(plan))
    check_fl(plan, out, 'fl')
    check_noncanonical(plan, out, rng, 3 if tier == 'quick' else 10)
    cases = [gen_cl_case(rng, zc) for _ in range(ncl)]
    check_cl(cases, out, 'cl', zc)
    out.rule = ('FL: for each zone, texts rendered from instants around transitions (+-{0,1s,1h,1d}), the local '
                'readings at both sides of each transition, LMT-era and random instants, plus malformed texts, '
                'through generate_timestamped_rows. CL: gen_load cases written in a non-UTC zone through `spowtd '
                'load`. Non-trivial: FL texts within a day of a transition or ambiguous; CL loads accepted with '
                'all instants rendering back, or refused for one of the listed malformations; distinct by '
                '(zone, text) / file digest.')
    out.samples = [dict(level='FL', zone=plan[3][0].name, texts=plan[3][1][:4])]
    out.assumptions += [
        'pytz localize (the search among the offsets in force a day before / after) is an oracle, compared on '
        'every run with the ideal model on the sampled zones x datetimes (existing, ambiguous and non-existent '
        'local times alike); it is not verified',
        'zone tables are read from the TZif files bundled with pytz by the harness parser, as pytz reads them '
        '(32-bit block, offsets rounded to minutes); deviations of that table from the full IANA data are '
        'measured against stdlib zoneinfo and reported as pytz_table_deviation:* counts',
        'only the canonical text form YYYY-MM-DD HH:MM:SS is modelled (strptime also accepts one-digit fields and '
        'runs of blanks: those spellings are compared by the oracle with the canonical spelling, not with the model)',
        'the integer-seconds ValueError of generate_timestamped_rows is unreachable for whole-second offsets '
        'and is not modelled']


def replay(case, out):
    C.import_spowtd()
    zc = make_zone_cache()
    if case['level'] == 'FL':
        check_fl([(zc(case['zone']), [case['text']])], out, 'replay')
    elif case['level'] == 'NC':
        import pytz
        tz = pytz.timezone(case['zone'])
        ref, r = impl_stamp(tz, case['text']), impl_stamp(tz, case['variant'])
        out.evaluations += 1
        if r[0] == 'ok' and (ref[0] != 'ok' or r[1] != ref[1]):
            out.violation('oracle', 'the spelling %r of the timestamp %r in zone %s is stored as %r, the canonical '
                          'spelling as %r' % (case['variant'], case['text'], case['zone'], r[1], ref[1:]), case=case)
    else:
        check_cl([case['case']], out, 'replay', zc)
