"""C11 — timestamps are converted exactly and bad input is refused.

Function level: spowtd.load.generate_timestamped_rows against the Coq model
`stamp` (coq/Model/TimeZone.v: canonical text -> civil fields -> seconds on the
local clock -> the UTC instant(s) whose local reading is that, non-DST
preferred) for many zones x datetimes.  The zone tables are read from the TZif
files bundled with pytz by the small parser below, *as pytz reads them* (first
data block only, i.e. 32-bit instants 1901..2037; offsets rounded to whole
minutes; the rule before the first transition = first standard-time type).
pytz's own localize algorithm is an oracle: it is compared with the ideal
model here, on every run, by sampling.

Oracle (independent of model and of pytz): the property's own wording — the
stored instant, rendered in the zone by the stdlib `zoneinfo` reading of the
same file (64-bit block + POSIX footer, no rounding), is the original text.
Where that fails only because pytz's table differs from the full IANA data
(sub-minute historical offsets, instants before 1901-12-13 20:45:52 UTC or after
2037) the case is counted as `pytz_table_deviation:*` (reported, see
notes/C11.md), not as a violation of spowtd; a non-existent (skipped) local
time is outside the property's quantifier: the oracle only counts it, the
correspondence still compares it (model: localize(dt - 6 h) + 6 h, as pytz).
Texts that strptime accepts although they are not in the canonical form
(one-digit fields, runs of blanks) are outside the model; the oracle requires
the same epoch as for the canonical spelling of the same fields.

Command level: `spowtd load` with the files written in a non-UTC zone, valid
and malformed (the three refusal kinds of the property, duplicates, a text
that is not a timestamp), compared with `load_text_model`
(coq/Model/LoadText.v); after a refusal the data file must hold no row (or be
unchanged when it was populated).
"""
import bisect
import datetime as dt
import json
import os
import re
import struct
import zoneinfo

from harness import common as C
from harness import dataset as D
from harness import gen_load as G
from harness.props import c10

PROP = 'C11'
MODELS = ['Model/LoadText.vo']
PRE = ('From Spowtd Require Import Model.LoadText.\n'
       'From Coq Require Import String PrimFloat.\nOpen Scope string_scope.\n')
EPOCH0 = dt.datetime(1970, 1, 1)
FMT = '%Y-%m-%d %H:%M:%S'
V1_LO = -2 ** 31
Y2038 = 2145916800          # 2038-01-01
ZONE_DIR = None


def zone_dir():
    global ZONE_DIR
    if ZONE_DIR is None:
        import pytz
        ZONE_DIR = os.path.join(os.path.dirname(pytz.__file__), 'zoneinfo')
    return ZONE_DIR


# ------------------------------------------------------------- TZif, as pytz reads it

def read_tzif_v1(path):
    """First (32-bit) data block of a TZif file: (instants, type indices, types)."""
    with open(path, 'rb') as f:
        b = f.read()
    if b[:4] != b'TZif':
        raise ValueError('not a TZif file: %s' % path)
    _isut, _isstd, _leap, timecnt, typecnt, charcnt = struct.unpack('>6l', b[20:44])
    p = 44
    times = list(struct.unpack('>%dl' % timecnt, b[p:p + 4 * timecnt]))
    p += 4 * timecnt
    idx = list(struct.unpack('>%dB' % timecnt, b[p:p + timecnt]))
    p += timecnt
    raw = []
    for _ in range(typecnt):
        off, isdst, ab = struct.unpack('>lBB', b[p:p + 6])
        p += 6
        raw.append((off, bool(isdst), ab))
    abbr = b[p:p + charcnt]
    types = []
    for off, isdst, ab in raw:
        end = abbr.find(b'\0', ab)
        types.append((off, isdst, abbr[ab:end if end >= 0 else len(abbr)].decode('ascii')))
    return times, idx, types


def round_minute(x):
    return ((x + 30) // 60) * 60


def pytz_view(path):
    """The table pytz builds: dict(first=(offset, dst), trans=[(instant, offset, dst)],
    raw_offsets=set of unrounded offsets).  `dst` is pytz's 'daylight-saving
    offset is non-zero' (what localize(is_dst=False) filters on)."""
    times, idx, types = read_tzif_v1(path)
    raw_offsets = {t[0] for t in types}
    if len(types) == 1 or not times:
        return dict(first=(types[0][0], False), trans=[], raw_offsets=raw_offsets, static=True)
    i = 0
    while types[i][1]:
        i += 1
    if types[i] == types[idx[0]]:
        seq_t, seq_i = [None] + times[1:], list(idx)
    else:
        seq_t, seq_i = [None] + times, [i] + idx
    infos = []
    for k in range(len(seq_i)):
        inf = types[seq_i[k]]
        if not inf[1]:
            dst = 0
        else:
            prev = inf
            for j in range(k - 1, -1, -1):
                prev = types[seq_i[j]]
                if not prev[1]:
                    break
            dst = inf[0] - prev[0]
            if dst <= 0 or dst > 3600 * 3:
                for j in range(k + 1, len(seq_i)):
                    std = types[seq_i[j]]
                    if not std[1]:
                        dst = inf[0] - std[0]
                        if 0 < abs(dst) <= 3600 * 3:
                            break
        infos.append((round_minute(inf[0]), round_minute(dst) != 0))
    return dict(first=infos[0], trans=[(seq_t[k], infos[k][0], infos[k][1]) for k in range(1, len(seq_i))],
                raw_offsets=raw_offsets, static=False)


class Zone:
    def __init__(self, name):
        self.name = name
        self.path = os.path.join(zone_dir(), *name.split('/'))
        self.view = pytz_view(self.path)
        self.times = [t for t, _, _ in self.view['trans']]
        with open(self.path, 'rb') as f:
            self.iana = zoneinfo.ZoneInfo.from_file(f, key=name)

    def info_at(self, e):
        k = bisect.bisect_right(self.times, e) - 1
        if k < 0:
            return self.view['first']
        return self.view['trans'][k][1:]

    def offsets(self):
        return sorted({self.view['first'][0]} | {o for _, o, _ in self.view['trans']})

    def render(self, e):
        """Text of instant e on the zone's clock, by the pytz-view table."""
        return fmt_naive(e + self.info_at(e)[0])

    def candidates(self, local):
        return sorted({local - o for o in self.offsets() if (local - o) + self.info_at(local - o)[0] == local})

    def render_iana(self, e):
        try:
            return dt.datetime.fromtimestamp(e, tz=self.iana).strftime(FMT) if -62135596800 + 86400 <= e < 253402300800 - 86400 else None
        except (OverflowError, ValueError, OSError):
            return None

    def iana_offset(self, e):
        try:
            return int(dt.datetime.fromtimestamp(e, tz=self.iana).utcoffset().total_seconds())
        except (OverflowError, ValueError, OSError):
            return None

    def exists_iana(self, local):
        offs = set(self.view['raw_offsets']) | {o for o in self.offsets()}
        # the footer rule may use offsets that occur in the table anyway
        for o in offs:
            e = local - o
            if self.iana_offset(e) is not None and e + self.iana_offset(e) == local:
                return True
        return False

    def coq(self):
        f = self.view['first']
        return 'mk_zone %s %s %s' % (C.cZ(f[0]), C.cbool(f[1]), C.clist(
            ['(%s, %s, %s)' % (C.cZ(t), C.cZ(o), C.cbool(d)) for t, o, d in self.view['trans']]))


def fmt_naive(secs):
    """'%Y-%m-%d %H:%M:%S' of seconds on a zone-less clock; None outside years 1..9999."""
    try:
        d = EPOCH0 + dt.timedelta(seconds=secs)
    except OverflowError:
        return None
    return '%04d-%02d-%02d %02d:%02d:%02d' % (d.year, d.month, d.day, d.hour, d.minute, d.second)


def naive_secs(text):
    d = dt.datetime.strptime(text, FMT)
    return (d - EPOCH0).days * 86400 + (d - EPOCH0).seconds


# ------------------------------------------------------------- generators (FL)

FIXED_ZONES = ['UTC', 'Etc/GMT+5', 'Etc/GMT-14', 'Africa/Lagos', 'America/New_York', 'Europe/Amsterdam',
               'Australia/Lord_Howe', 'Asia/Kolkata', 'Africa/Monrovia', 'Europe/Dublin', 'Africa/Casablanca',
               'Pacific/Apia', 'Asia/Kathmandu', 'America/St_Johns', 'Europe/Warsaw', 'Europe/Vilnius',
               'Antarctica/Troll', 'America/Caracas', 'Asia/Jakarta', 'Asia/Pontianak', 'Asia/Kuala_Lumpur',
               'Pacific/Kiritimati', 'Asia/Tehran', 'Europe/London', 'Asia/Brunei', 'America/Sao_Paulo']

MALFORMED_TEXTS = ['2020-13-01 00:00:00', '2021-02-29 00:00:00', '2020-01-01 24:00:00', '2020-01-01 00:60:00',
                   '2020-01-01T00:00:00', '2020/01/01 00:00:00', '', '2020-01-01', '2020-01-01 00:00',
                   '2020-01-01 00:00:00.5', '0000-01-01 00:00:00', '2020-00-10 00:00:00', '2020-04-31 12:00:00',
                   'yesterday', '2020-01-01 00:00:00Z', '20-01-01 00:00:00', '1900-02-29 00:00:00',
                   '2020-01-32 00:00:00', '2020-01-01 00:00:61', '01-01-2020 00:00:00']


def all_zone_names():
    import pytz
    return list(pytz.all_timezones)


def distinct_zone_names():
    """One name per distinct TZif file content."""
    seen, out = set(), []
    for n in all_zone_names():
        p = os.path.join(zone_dir(), *n.split('/'))
        try:
            with open(p, 'rb') as f:
                h = hash(f.read())
        except OSError:
            continue
        if h not in seen:
            seen.add(h)
            out.append(n)
    return out


def zone_texts(rng, z, n_trans, n_random, n_lmt, n_bad):
    """Texts for one zone: around transitions, LMT era, random, malformed."""
    texts = []
    trans = z.view['trans']
    picks = list(range(len(trans)))
    if n_trans is not None and len(picks) > n_trans:
        keep = {0, len(picks) - 1}
        keep |= {k for k in picks if trans[k][1] % 3600 not in (0, 1800)}      # unusual offsets
        keep = set(sorted(keep)[:max(2, n_trans // 2)])
        rest = [k for k in picks if k not in keep]
        rng.shuffle(rest)
        picks = sorted(keep | set(rest[:max(0, n_trans - len(keep))]))
    for k in picks:
        t, off_after, _ = trans[k]
        off_before = z.view['first'][0] if k == 0 else trans[k - 1][1]
        for delta in (0, -1, 1, -3600, 3600, -86400, 86400):
            texts.append(z.render(t + delta))
        # the local readings at the two sides of the transition: first / last skipped or repeated second
        lo, hi = sorted((t + off_before, t + off_after))
        for local in (lo - 1, lo, (lo + hi) // 2, hi - 1, hi):
            texts.append(fmt_naive(local))
    first_t = trans[0][0] if trans else 0
    for _ in range(n_lmt):
        texts.append(z.render(first_t - rng.randrange(1, 86400 * 365 * 60)))
    for _ in range(n_random):
        k = rng.randrange(10)
        if k < 7:
            e = rng.randrange(-2 ** 31 + 86400, Y2038 - 86400)        # where pytz has data
        elif k == 7:
            e = rng.randrange(Y2038, 4102444800)                        # 2038..2100
        elif k == 8:
            e = rng.randrange(-62135596800 + 86400 * 400, -2 ** 31)      # year 2 .. 1901
        else:
            e = rng.randrange(946684800, 1900000000)                    # 2000..2030
        texts.append(z.render(e))
    for _ in range(n_bad):
        texts.append(rng.choice(MALFORMED_TEXTS))
    return [t for t in texts if t is not None]


def noncanonical_variants(rng, text):
    """Spellings of the same fields that strptime('%Y-%m-%d %H:%M:%S') also accepts."""
    m = re.fullmatch(r'(\d{4})-(\d\d)-(\d\d) (\d\d):(\d\d):(\d\d)', text)
    if not m:
        return []
    y, mo, d, h, mi, sec = m.groups()
    short = '%s-%d-%d %d:%d:%d' % (y, int(mo), int(d), int(h), int(mi), int(sec))
    out = [short, '%s-%s-%s   %s:%s:%s' % (y, mo, d, h, mi, sec), '%s-%s-%s\t%s:%s:%s' % (y, mo, d, h, mi, sec)]
    return [t for t in out if t != text][:1 + rng.randrange(2)]


def check_noncanonical(zones_texts, out, rng, per_zone):
    """Oracle only: a non-canonical spelling that is accepted must give the epoch of the canonical one."""
    import pytz
    for z, texts in zones_texts:
        tz = pytz.timezone(z.name)
        valid = [t for t in texts if canonical_valid(t)]
        rng.shuffle(valid)
        for text in valid[:per_zone]:
            ref = impl_stamp(tz, text)
            for var in noncanonical_variants(rng, text):
                r = impl_stamp(tz, var)
                out.evaluations += 1
                if r[0] == 'err':
                    out.count('FL:noncanonical_refused')
                    continue
                out.count('FL:noncanonical_accepted')
                if ref[0] != 'ok' or r[1] != ref[1]:
                    out.violation('oracle', 'the spelling %r of the timestamp %r in zone %s is stored as %r, the '
                                  'canonical spelling as %r' % (var, text, z.name, r[1], ref[1:]),
                                  case=dict(level='NC', zone=z.name, text=text, variant=var))


# ------------------------------------------------------------- FL check

def impl_stamp(tz, text):
    import spowtd.load as L
    try:
        rows = list(L.generate_timestamped_rows([[text, 'x', 'y']], tz))
    except Exception as e:  # pylint: disable=broad-except
        return ('err', e)
    if len(rows) != 1 or rows[0][1:] != ['x', 'y'] or type(rows[0][0]) is not int:
        return ('err', RuntimeError('unexpected rows %r' % (rows,)))
    return ('ok', rows[0][0])


def canonical_valid(text):
    """Is the text a canonical 'YYYY-MM-DD HH:MM:SS' of an existing calendar date (stdlib only)."""
    m = re.fullmatch(r'(\d{4})-(\d\d)-(\d\d) (\d\d):(\d\d):(\d\d)', text, re.ASCII)
    if not m:
        return False
    try:
        dt.datetime(*[int(x) for x in m.groups()])
        return True
    except ValueError:
        return False


def known_switch(signature):
    path = os.path.join(C.VERIF, 'known_findings.json')
    try:
        return any(k.get('property') == PROP and k.get('signature') == signature and k.get('status') == 'open'
                   for k in json.load(open(path)).get('findings', []))
    except (OSError, ValueError):
        return False


def deviation_kind(z, e):
    if e < V1_LO:
        return 'before_1901-12-13'
    if z.times and e >= z.times[-1] and e >= Y2038 - 86400 * 62:
        return 'after_2037'
    true_off = z.iana_offset(e)
    if true_off is not None and true_off % 60 != 0:
        return 'sub_minute_offset'
    return 'other'


def judge_row(z, text, r, out, report, case, report_dev):
    """The property's wording on one converted row (r = impl result for text)."""
    valid = canonical_valid(text)
    if r[0] == 'err':
        if valid:
            report('oracle', 'generate_timestamped_rows raised %s: %s on the valid timestamp %r '
                   'in zone %s' % (type(r[1]).__name__, r[1], text, z.name), case)
        else:
            out.count('FL:malformed_refused')
            if C.err_of(r[1]) != 'EValue':
                out.count('FL:malformed_refused_with_%s' % type(r[1]).__name__)
        return
    if not valid:
        report('oracle', 'generate_timestamped_rows accepted %r, which is not a timestamp '
               '(zone %s), as epoch %d' % (text, z.name, r[1]), case)
        return
    e = r[1]
    local = naive_secs(text)
    if z.render_iana(e) == text:
        out.count('FL:renders_back')
        cands = z.candidates(local)
        if len(cands) > 1:
            out.count('FL:ambiguous_local_time')
            out.nontriv(('amb', z.name, text))
        elif z.view['trans'] and abs(e - min(z.times, key=lambda t: abs(t - e))) <= 86400:
            out.nontriv(('near', z.name, text))
        if z.view['trans'] and e < z.times[0]:
            out.count('FL:before_first_transition')
        return
    if z.render(e) == text:
        kind = deviation_kind(z, e)
        out.count('pytz_table_deviation:' + kind)
        if report_dev:
            report('oracle', 'pytz table deviates from the IANA data (%s): %r in %s is stored as '
                   '%d, which renders as %r' % (kind, text, z.name, e, z.render_iana(e)),
                   case, 'C11/pytz-table-deviation')
        return
    if not z.candidates(local):
        if not z.exists_iana(local):
            out.count('FL:skipped_local_time(outside quantifier)')
            return
        # exists in the IANA data but is skipped in pytz's minute-rounded / 32-bit table
        kind = 'skipped_only_in_pytz_table:' + deviation_kind(z, e)
        out.count('pytz_table_deviation:' + kind)
        if report_dev:
            report('oracle', 'pytz table deviates from the IANA data (%s): %r in %s is stored as '
                   '%d, which renders as %r' % (kind, text, z.name, e, z.render_iana(e)),
                   case, 'C11/pytz-table-deviation')
        return
    if z.render_iana(e) is None:
        out.count('FL:not_renderable_by_stdlib')
        return
    report('oracle', 'timestamp %r in zone %s is stored as epoch %d, which renders in that zone '
           'as %r (pytz table: %r)' % (text, z.name, e, z.render_iana(e), z.render(e)), case)


def check_fl(zones_texts, out, label, shard_zones=4):
    """zones_texts: list of (Zone, [text])."""
    import pytz
    report_dev = known_switch('C11/pytz-table-deviation')

    def report(kind, msg, case, signature=None):
        out.violation(kind, msg, case=case, signature=signature)
    blocks = []    # per zone: (zone, texts, impl results)
    for z, texts in zones_texts:
        tz = pytz.timezone(z.name)
        results = []
        for text in texts:
            r = impl_stamp(tz, text)
            results.append(r)
            out.evaluations += 1
            judge_row(z, text, r, out, report, dict(level='FL', zone=z.name, text=text), report_dev)
        blocks.append((z, texts, results))
    coq_stamp_blocks(blocks, out, label, shard_zones, report,
                     lambda b, i: dict(level='FL', zone=b[0].name, text=b[1][i]))


def coq_stamp_blocks(blocks, out, label, shard_zones, report, case_of):
    """Correspondence inside Coq: the model `stamp` on every (text, implementation result)
    of every block (zone, texts, results, ...)."""
    d = os.path.join(C.WORK, PROP, label)
    import shutil
    shutil.rmtree(d, ignore_errors=True)
    os.makedirs(d)
    files = []
    cur, cur_n = [], 0
    for b in blocks:
        cur.append(b)
        cur_n += len(b[1])
        if len(cur) >= shard_zones or cur_n >= 1500:
            files.append(cur)
            cur, cur_n = [], 0
    if cur:
        files.append(cur)
    jobs = []
    for k, group in enumerate(files):
        path = os.path.join(d, 'stamp_%04d.v' % k)
        with open(path, 'w') as f:
            f.write(PRE)
            for j, b in enumerate(group):
                z, texts, results = b[0], b[1], b[2]
                f.write('Definition z%d : zone := %s.\n' % (j, z.coq()))
                items = []
                for text, r in zip(texts, results):
                    if r[0] == 'ok':
                        exp = '(Stamp %s)' % C.cZ(r[1])
                    elif C.err_of(r[1]) == 'EValue':
                        exp = 'Refuse'
                    else:
                        exp = 'Skipped'     # never equal to a model answer that is compared
                    items.append('(%s, %s)' % (C.cstring(text), exp))
                f.write('Definition cases%d : list (string * stamped) :=\n [ %s ].\n' % (j, '\n ; '.join(items)))
                f.write('Eval vm_compute in (stamp_codes z%d cases%d).\n' % (j, j))
        jobs.append((path, group))
    import concurrent.futures as cf
    with cf.ThreadPoolExecutor(max_workers=16) as ex:
        futs = {ex.submit(C.coqc, path, 1200): (path, group) for path, group in jobs}
        for fut in cf.as_completed(futs):
            path, group = futs[fut]
            rc, text_out, _ = fut.result()
            lists = re.findall(r'=\s*(\[[^\]]*\]|nil)\s*:\s*list \(nat \* nat\)', text_out, re.S)
            if rc != 0 or len(lists) != len(group):
                out.corr_errors.append((path, text_out[-2000:]))
                continue
            for j, b in enumerate(group):
                z, texts, results = b[0], b[1], b[2]
                codes = {int(i): int(k) for i, k in re.findall(r'\(\s*(\d+)(?:%nat)?,\s*(\d+)(?:%nat)?\s*\)', lists[j])}
                inner = lists[j].strip()
                n_items = 0 if inner in ('nil', '[]') or not inner.strip('[] \n') else inner.count(';') + 1
                if n_items != len(codes) or any(i >= len(texts) or k > 6 for i, k in codes.items()):
                    out.corr_errors.append((path, 'cannot read the case codes of zone %s: %s' % (z.name, inner[:500])))
                    continue
                bad = sorted(i for i, k in codes.items() if k >= 4)
                skipped = sorted(i for i, k in codes.items() if k in (1, 5))
                unmodelled = sorted(i for i, k in codes.items() if k == 3)
                for i in bad:
                    r = results[i]
                    what = ('epoch %d' % r[1]) if r[0] == 'ok' else '%s: %s' % (type(r[1]).__name__, r[1])
                    report('corr', 'model stamp <> generate_timestamped_rows on %r in zone %s: '
                           'implementation gives %s, model candidates %s'
                           % (texts[i], z.name, what,
                              z.candidates(naive_secs(texts[i])) if canonical_valid(texts[i]) else 'n/a'),
                           case_of(b, i))
                for i in skipped:
                    out.count('FL:model_says_nonexistent(compared: localize(dt-6h)+6h)')
                    if canonical_valid(texts[i]) and z.candidates(naive_secs(texts[i])):
                        report('corr', 'model calls %r in %s a skipped local time but the table has '
                               'candidates' % (texts[i], z.name), case_of(b, i))
                for i in unmodelled:
                    out.count('FL:model_out_of_fuel(not compared)')
                not_existing = set(skipped) | set(unmodelled)
                for i in range(len(texts)):
                    if i not in not_existing and canonical_valid(texts[i]) and not z.candidates(naive_secs(texts[i])):
                        report('corr', 'model finds an instant for %r in %s but the table has no candidate'
                               % (texts[i], z.name), case_of(b, i))


# ------------------------------------------------------------- FF: whole files through one call

FILE_KINDS = ['span0', 'span1', 'span2', 'span2', 'span3', 'span4', 'year', 'fold', 'gap', 'span2']
FILE_ZONES = ['Europe/Berlin', 'Australia/Sydney', 'America/New_York', 'Australia/Lord_Howe', 'Europe/Dublin',
              'America/Sao_Paulo', 'Africa/Casablanca', 'Pacific/Apia', 'Asia/Tehran', 'America/St_Johns',
              'Europe/London', 'Asia/Kolkata']
LO_LIM, HI_LIM = V1_LO + 86400 * 30, Y2038 - 86400 * 400


def ideal_stamp(z, local):
    """The instant asked for, by the pytz-view table: among the instants whose
    reading on the zone's clock is `local`, a standard-time one if there is
    one, the latest of those (what localize(is_dst=False) answers); None for a
    reading that does not exist."""
    c = z.candidates(local)
    std = [e for e in c if not z.info_at(e)[1]]
    pick = std or c
    return max(pick) if pick else None


def nice_step(rng, step):
    if step >= 2 * 86400 and rng.random() < 0.6:
        return step - step % 86400
    if step >= 7200 and rng.random() < 0.6:
        return step - step % 3600
    if step >= 120 and rng.random() < 0.6:
        return step - step % 60
    return max(1, step)


def span_window(rng, z, k):
    """(start, end) in UTC with exactly k consecutive transitions of the zone's
    table in (start, end]; None if the table has no such window in pytz's range."""
    times = [t for t in z.times if LO_LIM < t < HI_LIM]
    if len(times) < max(k, 1):
        if k == 0:
            a = rng.randrange(LO_LIM, HI_LIM - 86400 * 800)
            return a, a + rng.randrange(2, 86400 * 700)
        return None
    far = 86400 * 300
    if k == 0:
        j = rng.randrange(len(times) + 1)
        a = times[j - 1] if j > 0 else times[0] - far
        b = times[j] if j < len(times) else times[-1] + far
        a, b = max(a, LO_LIM), min(b, HI_LIM)
        if b - a < 3:
            return None
        start = rng.randrange(a, b - 2)
        return start, rng.randrange(start + 1, b)
    i = rng.randrange(len(times) - k + 1)
    left = max(times[i - 1] if i > 0 else times[i] - far, LO_LIM)
    right = min(times[i + k] if i + k < len(times) else times[i + k - 1] + far, HI_LIM)
    first, last = times[i], times[i + k - 1]
    if first - left < 2 or right - last < 2:
        return None
    start = rng.choice([rng.randrange(left, first), first - 1, first - rng.choice([60, 3600, 86400]), left])
    end = rng.choice([rng.randrange(last, right), last, last + rng.choice([1, 3600, 86400]), right - 1])
    if not (left <= start < first and last <= end < right):
        start, end = rng.randrange(left, first), rng.randrange(last, right)
    return start, end


def gen_file_instants(rng, z, kind, n=None):
    """A record uniform in UTC laid over a chosen number of consecutive
    transitions ('spanK'), over about a year ('year'), finely sampled through a
    repeated hour ('fold') or through a skipped one ('gap').  Returns
    (instants, step) or None."""
    if n is None:
        n = rng.choice([2, 3, 5, 8, 13, 24, 40])
    times = [t for t in z.times if LO_LIM < t < HI_LIM]
    if kind in ('fold', 'gap'):
        ks = []
        for k, (t, off_after, _) in enumerate(z.view['trans']):
            off_before = z.view['first'][0] if k == 0 else z.view['trans'][k - 1][1]
            if LO_LIM < t < HI_LIM and ((off_after < off_before) == (kind == 'fold')) and off_after != off_before:
                ks.append(t)
        if not ks:
            return None
        t = rng.choice(ks)
        step = rng.choice([600, 900, 1800, 3600, 7200, 1200])
        a = rng.randrange(1, max(2, n))
        start = t - a * step + rng.choice([0, 0, rng.randrange(step)])
        return [start + j * step for j in range(n + 1)], step
    if kind == 'year':
        start = rng.randrange(LO_LIM, HI_LIM - 86400 * 800)
        if times and rng.random() < 0.7:
            start = rng.choice(times) - rng.randrange(1, 86400 * 120)
        n = max(n, 5)
        step = nice_step(rng, (86400 * rng.choice([364, 365, 366, 400, 730])) // (n - 1))
        return [start + j * step for j in range(n)], step
    k = int(kind[4:])
    n = max(n, 2 if k < 2 else 3)
    got = None
    for _ in range(30):
        w = span_window(rng, z, k)
        if w is None:
            continue
        start, end = w
        step = nice_step(rng, max(1, -((start - end) // (n - 1))))
        inst = [start + j * step for j in range(n)]
        if inst[-1] < HI_LIM:
            got = inst, step
            if sum(1 for t in z.times if inst[0] < t <= inst[-1]) == k:
                break
    return got


def file_profile(z, instants):
    """Measured on a record: how many transitions it spans, whether its two
    ends share an offset that does not hold in between."""
    lo, hi = min(instants), max(instants)
    crossed = sum(1 for t in z.times if lo < t <= hi)
    offs = [z.info_at(t)[0] for t in sorted(instants)]
    tags = ['transitions_spanned=%s' % (crossed if crossed < 5 else '5+')]
    if offs[0] == offs[-1] and len(set(offs)) > 1:
        tags.append('ends_share_an_offset_that_does_not_hold_in_between')
    if len(set(offs)) > 1 and offs[0] != offs[-1]:
        tags.append('ends_have_different_offsets')
    if any(len(z.candidates(t + z.info_at(t)[0])) > 1 for t in instants):
        tags.append('has_repeated_local_time')
    return tags


def gen_fl_file(rng, z, kind):
    """Texts of one file for generate_timestamped_rows (one call), in some row order."""
    g = gen_file_instants(rng, z, kind)
    if g is None:
        g = gen_file_instants(rng, z, 'span0')
    if g is None:
        return None
    inst, step = g
    if kind == 'gap':
        # readings uniform on the local clock through the skipped hour (some do not exist)
        off = z.info_at(inst[0])[0]
        texts = [fmt_naive(t + off) for t in inst]
    else:
        texts = [z.render(t) for t in inst]
    if any(t is None for t in texts):
        return None
    return dict(kind=kind, texts=G.order_rows(rng, texts), instants=inst)


def impl_stamp_file(tz, texts):
    """One call of generate_timestamped_rows on all rows of a file (an iterator,
    as csv.reader is); per-row results."""
    import spowtd.load as L
    rows_in = [[t, 'v%d' % i] for i, t in enumerate(texts)]
    try:
        rows = list(L.generate_timestamped_rows(iter(rows_in), tz))
    except Exception as e:  # pylint: disable=broad-except
        return [('err', e)] * len(texts)
    if len(rows) != len(texts) or any(list(r[1:]) != ['v%d' % i] or type(r[0]) is not int for i, r in enumerate(rows)):
        return [('err', RuntimeError('unexpected rows %r' % (rows[:3],)))] * len(texts)
    return [('ok', r[0]) for r in rows]


def check_fl_files(zone_files, out, label):
    """zone_files: list of (Zone, [dict(kind, texts)]).  Every file goes through ONE
    call; every row is judged as in check_fl (oracle and model).  At most one
    violation of each kind is reported per file (the others are counted)."""
    import pytz
    report_dev = known_switch('C11/pytz-table-deviation')
    blocks = []
    for z, files in zone_files:
        tz = pytz.timezone(z.name)
        all_texts, all_results, origin = [], [], []
        for fi, f in enumerate(files):
            texts = f['texts']
            results = impl_stamp_file(tz, texts)
            out.evaluations += 1
            out.count('FF:files')
            out.count('FF:kind:' + f.get('kind', '?'))
            exp = [ideal_stamp(z, naive_secs(t)) for t in texts if canonical_valid(t)]
            known = [e for e in exp if e is not None]
            prof = file_profile(z, known) if known else []
            for tag in prof:
                out.count('FF:' + tag)
            nontrivial_file = len(known) > 2 and any(t.startswith('ends_share') for t in prof)
            if any(e is None for e in exp):
                out.count('FF:has_nonexistent_local_time')
            if texts != sorted(texts):
                out.count('FF:rows_not_in_time_order')
            seen = set()

            def report(kind, msg, case, signature=None, seen=seen, n=len(texts)):
                if (kind, signature) in seen:
                    out.count('FF:further_rows_of_a_reported_file')
                    return
                seen.add((kind, signature))
                out.violation(kind, msg + ' [row %d of a file of %d rows converted in one call]' % (case['row'], n),
                              case=case, signature=signature)
            f['report'] = report
            for i, (text, r) in enumerate(zip(texts, results)):
                judge_row(z, text, r, out, report, dict(level='FF', zone=z.name, texts=texts, row=i), report_dev)
                if r[0] == 'ok' and nontrivial_file:
                    out.nontriv(('ff', z.name, text))
            all_texts += texts
            all_results += results
            origin += [(fi, i) for i in range(len(texts))]
        blocks.append((z, all_texts, all_results, files, origin))

    def report_corr(kind, msg, case, signature=None):
        case.pop('_report')(kind, msg, case, signature)

    def case_of(b, i):
        fi, row = b[4][i]
        return dict(level='FF', zone=b[0].name, texts=b[3][fi]['texts'], row=row, _report=b[3][fi]['report'])
    coq_stamp_blocks(blocks, out, label, 4, report_corr, case_of)


# ------------------------------------------------------------- CL: `spowtd load` in a zone

CL_ZONES = ['Africa/Lagos', 'Asia/Jakarta', 'America/New_York', 'Asia/Kolkata', 'Australia/Lord_Howe',
            'Europe/Amsterdam', 'Asia/Kathmandu', 'Etc/GMT+5', 'America/St_Johns', 'Asia/Pontianak']
CL_CLASSES = ['same', 'finer_gappy', 'nonaligned', 'wl_outlasts', 'nonuniform_inside', 'et_missing', 'duplicate',
              'populated', 'bad_text', 'nonuniform_inside', 'et_missing', 'populated', 'little_overlap', 'empty',
              'bad_text']


CL_EXTRA_CLASSES = ['nonuniform_at_end', 'et_starts_late', 'nonuniform_at_start', 'et_ends_early', 'nonuniform_at_end',
                    'et_holes', 'et_coarser', 'nonuniform_at_end', 'et_off_phase', 'nonuniform_at_start']
CL_SPAN_KINDS = ['span2', 'span1', 'span2', 'span0', 'span3', 'span2', 'year', 'span4', 'fold']


def representable(z, t):
    """Instant t, written on the zone's clock, is read back as t (by the
    pytz-view table and by zoneinfo alike): not the first pass of a repeated
    hour, no minute rounding, inside pytz's range."""
    text = z.render(t)
    return (text is not None and V1_LO + 86400 < t < Y2038 - 86400 * 400
            and ideal_stamp(z, naive_secs(text)) == t and z.render_iana(t) == text)


def gen_cl_span_case(rng, zone_cache, kind):
    """A well-formed triple, uniform in UTC, whose rainfall record is laid over a
    chosen number of consecutive transitions of a zone (0, 1, 2, ...; about a
    year; with one record in the second pass of a repeated hour).  The
    water-level record either follows it or is cut down to the samples lying
    between two consecutive transitions, so that the three files see
    different sets of offsets."""
    for _ in range(200):
        name = rng.choice(FILE_ZONES)
        z = zone_cache(name)
        n = rng.choice([6, 9, 14, 20, 28])
        k = kind
        if kind == 'fold':
            k = rng.choice(['span1', 'span2', 'span2', 'year'])
        g = gen_file_instants(rng, z, k, n)
        if g is None:
            continue
        inst, step = g
        base = inst[0]
        if kind == 'fold':
            # move the record so that one of its instants falls into the second pass of a repeated hour
            folds = []
            for j, (t, off_after, _) in enumerate(z.view['trans']):
                off_before = z.view['first'][0] if j == 0 else z.view['trans'][j - 1][1]
                if inst[0] < t <= inst[-1] and off_after < off_before:
                    folds.append((t, off_before - off_after))
            if not folds:
                continue
            t, width = rng.choice(folds)
            target = t + rng.choice([0, width - 1, rng.randrange(width)])
            j = min(range(n), key=lambda i: abs(inst[i] - target))
            base += target - inst[j]
        cls = rng.choice(['same', 'tight', 'coarser', 'finer', 'wl_outlasts', 'rain_outlasts', 'same_gappy', 'same'])
        c = G.gen_valid(rng, cls, step=step, base=base, n_rain=n)
        c['cls'] = 'dst_' + kind
        c['tz'] = name
        if rng.random() < 0.5:
            # water level only between two consecutive transitions (the longest such run of samples)
            wl = sorted(c['wl'])
            runs, cur = [], [wl[0]]
            for a, b in zip(wl, wl[1:]):
                if any(a[0] < t <= b[0] for t in z.times):
                    runs.append(cur)
                    cur = []
                cur.append(b)
            runs.append(cur)
            best = max(runs, key=len)
            if len(best) >= 2 and len(G.span_grid([t for t, _ in c['rain']], [t for t, _ in best])) >= 2:
                c['wl'] = G.order_rows(rng, best)
        if c10.malformations(c):
            continue
        if all(representable(z, t) for key in ('rain', 'et', 'wl') for t, _ in c[key]):
            return c
    raise RuntimeError('no representable %s case found' % kind)


def gen_cl_case(rng, zone_cache, cls=None):
    """A gen_load case moved into a zone; every instant must render to a local
    time that converts back to that instant (no repeated hour, no rounding)."""
    if cls is None:
        cls = rng.choice(CL_CLASSES)
    for _ in range(40):
        name = rng.choice(CL_ZONES)
        z = zone_cache(name)
        c = G.gen_case(rng, 'same' if cls == 'bad_text' else cls)
        c['cls'] = cls
        c['tz'] = name
        ok = True
        for key in ('rain', 'et', 'wl'):
            for t, _ in c[key]:
                text = z.render(t)
                if text is None or not (V1_LO + 86400 < t < Y2038 - 86400 * 400) or z.candidates(naive_secs(text)) != [t] \
                        or z.render_iana(t) != text:
                    ok = False
                    break
            if not ok:
                break
        if not ok:
            continue
        if cls == 'bad_text':
            key = rng.choice(['rain', 'et', 'wl'])
            pos = rng.randrange(len(c[key]) + 1)
            c['bad'] = [key, pos, rng.choice(MALFORMED_TEXTS)]
        return c
    raise RuntimeError('no representable case found')


def cl_text_rows(case, z):
    """Rows as written to the files: (text, value text)."""
    out = {}
    for key in ('rain', 'et', 'wl'):
        rows = [[z.render(t), v] for t, v in case[key]]
        if case.get('bad') and case['bad'][0] == key:
            rows.insert(case['bad'][1], [case['bad'][2], '1.0'])
        out[key] = rows
    return out


def run_cl(case, z, d):
    rows = cl_text_rows(case, z)
    os.makedirs(d, exist_ok=True)
    paths = {}
    for name, header, key in (('precipitation', 'datetime,precipitation rate (mm/h)', 'rain'),
                              ('evapotranspiration', 'datetime,evapotranspiration (mm/h)', 'et'),
                              ('water_level', 'datetime,wtd (mm)', 'wl')):
        p = os.path.join(d, name + '.txt')
        with open(p, 'w') as f:
            f.write(header + '\n')
            for text, v in rows[key]:
                f.write('%s,%s\n' % (text, v))
        paths[name] = p
    db = os.path.join(d, 'data.sqlite3')
    if os.path.exists(db):
        os.remove(db)
    before = None
    if case.get('pre') == 'ok':
        fp = c10.FILLER.write(os.path.join(d, 'pre'))
        rc0, exc0, _ = c10.load_cmd(db, fp, 'UTC')
        if exc0 is not None:
            return dict(exc=exc0, tables={}, before=None, rows=rows, filler_failed=True)
        before = D.dump(db, c10.LOAD_TABLES)
    elif case.get('pre') == 'failed':
        import sqlite3
        import spowtd.load as load_mod
        con = sqlite3.connect(db)
        try:
            with open(load_mod.SCHEMA_PATH, 'rt') as f:
                con.executescript(f.read())
        finally:
            con.close()
        before = D.dump(db, c10.LOAD_TABLES)
    rc, exc, _ = c10.load_cmd(db, paths, case['tz'])
    tables = D.dump(db, c10.LOAD_TABLES) if os.path.exists(db) else {}
    return dict(rc=rc, exc=exc, tables=tables, before=before, rows=rows)


def cl_case_str(case, res):
    ts = [int(t) for key in ('rain', 'et', 'wl') for t, _ in case[key]]
    base = min(ts) if ts else 0

    def trows(rows):
        vals = c10.sqlite_read([v for _, v in rows])
        return C.clist(['(%s, %s)' % (C.cstring(t), C.cfloat(x)) for (t, _), x in zip(rows, vals)])
    return '(%s, %s, %s, %s, %s, %s, %s)' % (
        C.cZ(base), C.cbool(bool(case.get('pre'))), C.cstring(case['tz']),
        trows(res['rows']['rain']), trows(res['rows']['et']), trows(res['rows']['wl']),
        c10.expect_str(res, base))


def cl_public(case):
    if case.get('regen'):
        return dict(cls=case.get('cls'), regen=case['regen'])
    return {k: case[k] for k in ('cls', 'tz', 'pre', 'rain', 'et', 'wl', 'bad') if k in case}


def check_cl(cases, out, label, zone_cache, coq=True):
    """coq=False: the large-input stage, judged by the oracles only."""
    by_zone = {}
    for case in cases:
        if case.get('regen') and 'rain' not in case:
            case = regen_large_case(case['regen'], zone_cache)
        z = zone_cache(case['tz'])
        d = D.scratch(PROP, 'cl_db')
        res = run_cl(case, z, d)
        out.evaluations += 1
        out.count('CL:class:' + case['cls'])
        out.count('CL:zone:' + case['tz'])
        for tag in sorted(c10.malformation_profile(case)):
            out.count('CL:profile:' + tag)
        if case['cls'].startswith('dst_'):
            for key in ('rain', 'et', 'wl'):
                if case[key]:
                    for tag in file_profile(z, [t for t, _ in case[key]]):
                        out.count('CL:%s_file:%s' % (key, tag))
        pub = dict(level='CL', case=cl_public(case))
        if res.get('filler_failed'):
            out.violation('oracle', 'load refused a plain well-formed dataset: %s' % res['exc'], case=pub)
            continue
        bad = c10.malformations(case)
        listed = [b for b in bad if b in ('populated', 'nonuniform', 'et_missing_step')]
        if case.get('bad'):
            listed.append('bad_text')
        if res['exc'] is None:
            out.count('CL:loaded')
            prob = c10.tables_problem(res['tables'])
            if prob:
                out.violation('oracle', 'load succeeded but %s' % prob, case=pub)
                continue
            if listed:
                out.violation('oracle', 'load accepted an input that must be refused (%s) in zone %s'
                              % (', '.join(listed), case['tz']), case=pub)
            else:
                # every stored instant renders back to the text it came from
                for key, table in (('rain', 'rainfall_intensity_staging'), ('et', 'evapotranspiration_staging'),
                                   ('wl', 'water_level_staging')):
                    want = sorted(text for text, _ in res['rows'][key])
                    got = sorted(str(z.render_iana(e)) for e, _ in res['tables'][table])
                    if want != got:
                        out.violation('oracle', 'staged %s instants do not render back to the timestamps of the '
                                      'file in zone %s: first differences %s'
                                      % (key, case['tz'], [(a, b) for a, b in zip(got, want) if a != b][:2]), case=pub)
                out.nontriv(c10.digest(case))
        else:
            out.count('CL:refused:%s' % C.err_of(res['exc']))
            if listed:
                out.nontriv(c10.digest(case))
            elif not bad:
                # none of the malformations of the files (c10.malformations: populated, duplicate, too little
                # overlap, non-uniform rainfall step, ET missing at a grid / the closing instant, a text that
                # is not a timestamp): its timestamps must be stored
                out.violation('oracle', 'load refused (%s: %s) a well-formed input in zone %s: uniform rainfall '
                              'steps within the water-level span, ET at every grid instant, an empty data file; '
                              'its timestamps are not stored'
                              % (type(res['exc']).__name__, res['exc'], case['tz']), case=pub)
            if case.get('pre'):
                if res['tables'] != res['before']:
                    out.violation('oracle', 'a refused load into a populated database changed its tables', case=pub)
            else:
                filled = [n for n, rows in res['tables'].items() if rows]
                if filled:
                    out.violation('oracle', 'load was refused (%s) but left rows in %s'
                                  % (type(res['exc']).__name__, filled), case=pub)
        if coq and not case.get('regen'):
            by_zone.setdefault(case['tz'], []).append((case, res, cl_case_str(case, res)))
    if not by_zone:
        return

    def coq_zone(name):
        items = by_zone[name]
        pre = PRE + 'Definition z : zone := %s.\n' % zone_cache(name).coq()
        return C.run_case_shards(PROP, label + '_' + name.replace('/', '_').replace('+', 'p'), pre,
                                 'load_text_case', 'load_text_case_ok z', [s for _, _, s in items], shard=8)
    for name in by_zone:
        zone_cache(name)
    import concurrent.futures as cf
    with cf.ThreadPoolExecutor(max_workers=8) as ex:
        coq_results = dict(zip(sorted(by_zone), ex.map(coq_zone, sorted(by_zone))))
    for name, items in sorted(by_zone.items()):
        bad_idx, errs, _ = coq_results[name]
        out.corr_errors += errs
        for i in bad_idx:
            case, res, _ = items[i]
            what = ('raised %s: %s' % (type(res['exc']).__name__, res['exc'])) if res['exc'] is not None else 'loaded'
            out.violation('corr', 'load_text_model <> `spowtd load` in zone %s on a %s case: implementation %s'
                          % (name, case['cls'], what),
                          case=dict(level='CL', case=cl_public(case)))


# ------------------------------------------------------------- large malformed inputs (oracles only)

def regen_large_case(r, zone_cache):
    """A record of 1000-4100 grid steps whose only ET hole sits on / beside a multiple of a chunk size
    (gen_load.gen_et_hole_large), written on the clock of a zone in which every instant reads back."""
    rng = C.rng_for(r['seed'], PROP, 'large', r['stream'], r['k'])
    for _ in range(60):
        name = rng.choice(CL_ZONES)
        z = zone_cache(name)
        c = G.gen_et_hole_large(rng, r['idx'])
        ts = sorted(t for key in ('rain', 'et', 'wl') for t, _ in c[key])
        if not any(ts[0] - 86400 <= t <= ts[-1] + 86400 for t in z.times):
            ok = representable(z, ts[0]) and representable(z, ts[-1])     # one offset throughout
        else:
            ok = all(representable(z, t) for t in ts)
        if ok:
            c['tz'] = name
            c['regen'] = r
            return c
    raise RuntimeError('no representable large case found')


def large_stage(seed, tier, out, zc):
    for r in c10.large_recipes(seed, tier, prop=PROP):
        if r['stream'] != 'et_hole':
            continue
        if tier == 'quick' and any(r['idx'] % c == 1 for c in (1000, 1024, 4096)):
            continue              # quick: the multiples and one below (C10 runs one above as well)
        c = regen_large_case(r, zc)
        c10.large_profile(c, out, tag='CL:large:')
        check_cl([c], out, 'large', zc, coq=False)


# ------------------------------------------------------------- environment stage
#
# The conversion must not depend on the environment of the PROCESS: its local time zone (TZ), `python -O`,
# DEBUG logging, the current directory, string hashing.  (a) function level: every (zone, text) of the FL plan,
# plus texts around the transitions of the PROCESS zone, through generate_timestamped_rows in a child process
# under each TZ (and -O); (b) command level: `spowtd load` of a few CL cases in a child process under every variant
# of envcheck.workflow_env_variants(); results must equal those of the default in-process run.

STAMP_CHILD = (
    'import sys, json, pytz\n'
    'import spowtd.load as L\n'
    'plan = json.load(sys.stdin)\n'
    'res = []\n'
    'for zone, texts in plan:\n'
    '    tz = pytz.timezone(zone)\n'
    '    col = []\n'
    '    for t in texts:\n'
    '        try:\n'
    '            rows = list(L.generate_timestamped_rows([[t, "x"]], tz))\n'
    '            col.append(["ok", rows[0][0]])\n'
    '        except Exception as e:\n'
    '            col.append(["err", type(e).__name__])\n'
    '    res.append(col)\n'
    'json.dump(res, sys.stdout)\n')


def stamp_child(plan, variant):
    """plan: [(zone name, [text])] -> per text ['ok', epoch] / ['err', exception type], computed in a child
    interpreter of the tree under test under `variant` (envcheck shape: env, opt)."""
    import subprocess
    from harness import envcheck as E
    env = {k: v for k, v in os.environ.items() if k in ('PATH', 'HOME', 'LANG', 'LC_ALL', 'TMPDIR', 'LD_LIBRARY_PATH')}
    env.update(PYTHONPATH=C.REPO, PYTHONDONTWRITEBYTECODE='1')
    env.update(variant.get('env') or {})
    cmd = [E.PYTHON] + (['-O'] if variant.get('opt') else []) + ['-c', STAMP_CHILD]
    p = subprocess.run(cmd, env=env, input=json.dumps(plan), stdout=subprocess.PIPE, stderr=subprocess.PIPE,
                       text=True, timeout=600)
    if p.returncode != 0:
        raise RuntimeError('stamp child failed under %s: %s' % (variant.get('name'), p.stderr[-1500:]))
    return json.loads(p.stdout)


def process_zone_texts(zc, declared, process_zones, per_zone):
    """Texts, on the clock of each declared zone, of instants around the latest transitions of the PROCESS zones
    (where a conversion that goes through the local time of the process is off by that zone's DST hour)."""
    out = []
    for name in declared:
        z = zc(name)
        texts = []
        for pz in process_zones:
            times = [t for t in zc(pz).times if LO_LIM < t < HI_LIM][-per_zone:]
            for t in times:
                for d in (-3600, -1, 0, 1, 3599, 3600, 7200):
                    if representable(z, t + d):
                        texts.append(z.render(t + d))
        out.append((name, texts))
    return out


def env_variants(quick):
    from harness import envcheck as E
    return [v for v in E.workflow_env_variants() if v['name'] != 'default']


def check_env_fl(plan, out, variants):
    """plan: [(zone name, [text])]; the default is the in-process conversion."""
    import pytz
    import concurrent.futures as cf
    base = [[impl_stamp(pytz.timezone(zn), t) for t in texts] for zn, texts in plan]
    with cf.ThreadPoolExecutor(max_workers=4) as ex:
        results = list(ex.map(lambda v: stamp_child(plan, v), variants))
    for v, res in zip(variants, results):
        nbad = 0
        for (zn, texts), col0, col in zip(plan, base, res):
            for text, r0, r in zip(texts, col0, col):
                out.evaluations += 1
                out.count('ENV:FL:' + v['name'])
                same = (r0[0] == r[0] and (r0[1] == r[1] if r0[0] == 'ok' else type(r0[1]).__name__ == r[1]))
                if same:
                    if r0[0] == 'ok':
                        out.nontriv(('env', v['name'], zn, text))
                    continue
                nbad += 1
                if nbad > 3:
                    out.count('ENV:FL:further_differences_under_' + v['name'])
                    continue
                got = ('epoch %d' % r[1]) if r[0] == 'ok' else r[1]
                ref = ('epoch %d' % r0[1]) if r0[0] == 'ok' else type(r0[1]).__name__
                out.violation('oracle', 'the timestamp %r in zone %s is converted to %s when the process runs under '
                              '%s, to %s in the default process (the stored instant must be the one whose rendering '
                              'in the declared zone is the text, whatever the environment)'
                              % (text, zn, got, env_text(v), ref),
                              case=dict(level='ENV-FL', zone=zn, text=text, variant=v['name']))


def env_text(v):
    bits = ['%s=%s' % kv for kv in sorted((v.get('env') or {}).items())]
    if v.get('opt'):
        bits.append('python -O')
    if v.get('verbose'):
        bits.append('-vvv')
    if v.get('cwd'):
        bits.append('another current directory')
    return ', '.join(bits) or 'a plain child process'


def check_env_cl(cases, out, zone_cache, variants_of):
    """Each case: `spowtd load` in-process (default), then in a child process per variant into a fresh data
    file; exit status and the logical dump of the load tables must be the same."""
    from harness import envcheck as E
    import concurrent.futures as cf
    for case in cases:
        z = zone_cache(case['tz'])
        d = D.scratch(PROP, 'env_db')
        res = run_cl(case, z, d)
        out.evaluations += 1
        paths = {n: os.path.join(d, n + '.txt') for n in ('precipitation', 'evapotranspiration', 'water_level')}
        variants = variants_of(case)

        def child(v):
            db = os.path.join(d, 'child_%s.sqlite3' % v['name'])
            r = E.run_cli_variant(['load', db, '-p', paths['precipitation'], '-e', paths['evapotranspiration'],
                                   '-z', paths['water_level'], '--timezone', case['tz']], v)
            return r, (D.dump(db, c10.LOAD_TABLES) if os.path.exists(db) else {})
        with cf.ThreadPoolExecutor(max_workers=8) as ex:
            results = list(ex.map(child, variants))
        for v, (r, tables) in zip(variants, results):
            out.evaluations += 1
            out.count('ENV:CL:' + v['name'])
            out.count('ENV:CL:default_run_' + ('refused' if res['exc'] is not None else 'loaded'))
            pub = dict(level='ENV-CL', case=cl_public(case), variant=v['name'])
            if (res['exc'] is None) != (r.rc == 0):
                out.violation('oracle', '`spowtd load` %s under %s but %s in the default process [zone %s]: %s'
                              % ('fails' if r.rc else 'succeeds', env_text(v),
                                 'succeeds' if res['exc'] is None else 'is refused (%s)' % type(res['exc']).__name__,
                                 case['tz'], E.last_error_line(r)[:300]), case=pub)
                continue
            if res['exc'] is not None:
                filled = [n for n, rows in tables.items() if rows]
                if filled:
                    out.violation('oracle', 'load was refused under %s but left rows in %s' % (env_text(v), filled),
                                  case=pub)
                continue
            diffs = E.diff_dumps(res['tables'], tables)
            if diffs:
                out.violation('oracle', 'the tables written by `spowtd load` under %s differ from those of the '
                              'default process [zone %s]: %s' % (env_text(v), case['tz'], '; '.join(diffs[:3])), case=pub)
            else:
                out.nontriv(('envcl', v['name'], c10.digest(case)))


def env_stage(seed, tier, out, zc, fl_plan):
    quick = tier == 'quick'
    variants = env_variants(quick)
    tzv = [v for v in variants if 'TZ' in (v.get('env') or {})] + [v for v in variants if v.get('opt')]
    rng = C.rng_for(seed, PROP, 'env')
    pzones = [v['env']['TZ'] for v in tzv if 'TZ' in (v.get('env') or {})]
    plan = [(z.name, list(texts)) for z, texts in fl_plan]
    if quick:
        plan = [(zn, texts if len(texts) <= 40 else rng.sample(texts, 40)) for zn, texts in plan]
    plan += process_zone_texts(zc, ['UTC', 'Africa/Lagos', 'Etc/GMT-7', 'America/New_York', 'Europe/Berlin'] + pzones,
                               pzones, 2 if quick else 8)
    check_env_fl(plan, out, tzv)
    # command level
    cases = [gen_cl_span_case(rng, zc, 'span1'), gen_cl_case(rng, zc, rng.choice(['et_missing', 'nonuniform_inside']))]
    if not quick:
        cases += [gen_cl_span_case(rng, zc, k) for k in ('span2', 'year', 'fold')] + \
                 [gen_cl_case(rng, zc, k) for k in ('same', 'et_missing', 'nonuniform_inside', 'bad_text', 'duplicate',
                                                    'finer_gappy', 'little_overlap')]
    for c in cases:
        c['pre'] = None

    tz_only = [v for v in variants if 'TZ' in (v.get('env') or {})]
    opt_only = [v for v in variants if v.get('opt')]
    # quick: every variant on the valid record laid over a transition; one process zone and -O (the assert
    # statements are gone) on a malformed one
    wanted = {id(c): variants for c in cases}
    if quick:
        wanted[id(cases[1])] = [rng.choice(tz_only)] + opt_only
    variants_of = lambda case: wanted[id(case)]                              # noqa: E731
    check_env_cl(cases, out, zc, variants_of)


# ------------------------------------------------------------- entry points

def make_zone_cache():
    cache = {}

    def get(name):
        if name not in cache:
            cache[name] = Zone(name)
        return cache[name]
    return get


def run(ctx, out):
    C.import_spowtd()
    seed, tier = ctx['seed'], ctx['tier']
    rng = C.rng_for(seed, PROP)
    zc = make_zone_cache()
    if tier == 'quick':
        names = list(FIXED_ZONES)
        pool = [n for n in distinct_zone_names() if n not in names]
        rng.shuffle(pool)
        names += pool[:14]
        plan = [(zc(n), zone_texts(rng, zc(n), 4, 8, 3, 2)) for n in names]
        ncl = 90
    else:
        names = distinct_zone_names()
        plan = [(zc(n), zone_texts(rng, zc(n), None, 200, 20, 6)) for n in names]
        ncl = 600
    out.count('FL:zones', len(plan))
    check_fl(plan, out, 'fl')
    check_noncanonical(plan, out, rng, 3 if tier == 'quick' else 10)
    cases = [gen_cl_case(rng, zc) for _ in range(ncl)]
    # further streams, each from its own random source (the streams above are unchanged)
    quick = tier == 'quick'
    rng_ff = C.rng_for(seed, PROP, 'files')
    ff_names = list(FILE_ZONES) + [n for n in names if n not in FILE_ZONES][:(4 if quick else 10 ** 6)]
    zone_files = []
    for a, n in enumerate(ff_names):
        z = zc(n)
        kinds = [FILE_KINDS[(a + b) % len(FILE_KINDS)] for b in range(3 if quick else 12)]
        files = [f for f in (gen_fl_file(rng_ff, z, k) for k in kinds) if f is not None]
        if files:
            zone_files.append((z, files))
    check_fl_files(zone_files, out, 'ff')
    rng_x = C.rng_for(seed, PROP, 'cl_malformed_et_and_edges')
    nx = 15 if quick else 140
    cases += [gen_cl_case(rng_x, zc, CL_EXTRA_CLASSES[k % len(CL_EXTRA_CLASSES)]) for k in range(nx)]
    rng_s = C.rng_for(seed, PROP, 'cl_spans')
    ns = 18 if quick else 180
    cases += [gen_cl_span_case(rng_s, zc, CL_SPAN_KINDS[k % len(CL_SPAN_KINDS)]) for k in range(ns)]
    check_cl(cases, out, 'cl', zc)
    large_stage(seed, tier, out, zc)
    env_stage(seed, tier, out, zc, plan)
    out.rule = ('FL: for each zone, texts rendered from instants around transitions (+-{0,1s,1h,1d}), the local '
                'readings at both sides of each transition, LMT-era and random instants, plus malformed texts, '
                'through generate_timestamped_rows. CL: gen_load cases written in a non-UTC zone through `spowtd '
                'load`. Non-trivial: FL texts within a day of a transition or ambiguous; CL loads accepted with '
                'all instants rendering back, or refused for one of the listed malformations; distinct by '
                '(zone, text) / file digest. FF: whole files (records uniform in UTC over 0, 1, 2, 3, 4 consecutive '
                'transitions, about a year, finely through a repeated / a skipped hour; any row order) through ONE '
                'call of generate_timestamped_rows, every row judged like an FL text; non-trivial: rows of files '
                'whose two ends share an offset that does not hold in between. CL also: such records as the three '
                'input files (dst_* classes), ET records starting late / ending early / with holes, and a '
                'non-uniform rainfall step closed exactly at the last (first) water-level timestamp. LARGE-INPUT '
                'STAGE (oracle only, not sent to Coq: reading the literals dominates): records of 1000-4100 grid '
                'steps whose only ET hole sits on / one beside a multiple of 1000, 1024, 4096 must be refused '
                '(CL:large:* counts). ENVIRONMENT STAGE: the FL texts plus texts around the transitions of the '
                'PROCESS zone through generate_timestamped_rows in a child process under TZ=Asia/Tokyo / '
                'America/St_Johns / Europe/Berlin and under python -O, and `spowtd load` of valid and malformed CL '
                'cases in a child process under every variant of envcheck (TZ x 3, -O, -vvv, another current '
                'directory, PYTHONHASHSEED=random): epochs / exit status / tables must equal the default run '
                '(ENV:* counts).')
    out.samples = [dict(level='FL', zone=plan[3][0].name, texts=plan[3][1][:4])]
    out.assumptions += [
        'pytz localize (the search among the offsets in force a day before / after) is an oracle, compared on '
        'every run with the ideal model on the sampled zones x datetimes (existing, ambiguous and non-existent '
        'local times alike); it is not verified',
        'zone tables are read from the TZif files bundled with pytz by the harness parser, as pytz reads them '
        '(32-bit block, offsets rounded to minutes); deviations of that table from the full IANA data are '
        'measured against stdlib zoneinfo and reported as pytz_table_deviation:* counts',
        'only the canonical text form YYYY-MM-DD HH:MM:SS is modelled (strptime also accepts one-digit fields and '
        'runs of blanks: those spellings are compared by the oracle with the canonical spelling, not with the model)',
        'the integer-seconds ValueError of generate_timestamped_rows is unreachable for whole-second offsets '
        'and is not modelled']


def replay(case, out):
    C.import_spowtd()
    zc = make_zone_cache()
    if case['level'] == 'FL':
        check_fl([(zc(case['zone']), [case['text']])], out, 'replay')
    elif case['level'] == 'FF':
        check_fl_files([(zc(case['zone']), [dict(kind='replay', texts=case['texts'])])], out, 'replay')
    elif case['level'] == 'NC':
        import pytz
        tz = pytz.timezone(case['zone'])
        ref, r = impl_stamp(tz, case['text']), impl_stamp(tz, case['variant'])
        out.evaluations += 1
        if r[0] == 'ok' and (ref[0] != 'ok' or r[1] != ref[1]):
            out.violation('oracle', 'the spelling %r of the timestamp %r in zone %s is stored as %r, the canonical '
                          'spelling as %r' % (case['variant'], case['text'], case['zone'], r[1], ref[1:]), case=case)
    elif case['level'] == 'ENV-FL':
        from harness import envcheck as E
        check_env_fl([(case['zone'], [case['text']])], out, [E.variant_by_name(case['variant'])])
    elif case['level'] == 'ENV-CL':
        from harness import envcheck as E
        c = case['case']
        if c.get('regen'):
            c = regen_large_case(c['regen'], zc)
        check_env_cl([c], out, zc, lambda _c: [E.variant_by_name(case['variant'])])
    else:
        c = case['case']
        check_cl([c], out, 'replay', zc, coq=not c.get('regen'))
