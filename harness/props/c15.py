"""C15 — spline transmissivity = minimum + integral of a conductivity whose
logarithm is piecewise linear.

Correspondence (function level): transmissivity.SplineTransmissivity on
(knot set, level) cases; for every case Coq proves, with the `interval`
tactic, |T_closed knots Tmin z - v_impl| <= 1e-6 |v_impl| + 1e-9 where
T_closed (Model/Transm.v) is the closed form that Properties/C15.v proves equal
to minimum + integral, and v_impl is the float returned by the implementation
(an exact dyadic constant).  Constructor refusals against Model construct.

Oracle (independent of the model): the property's wording evaluated on the
implementation's values - equality with the minimum at/below the lowest knot,
minimum + Gauss-Legendre quadrature of exp(np.interp(.., ln K)) (no FITPACK, no
QUADPACK, no closed form), no exception at or below the highest knot,
monotonicity and the Lipschitz bounds Kmin dz <= dT <= Kmax dz over the sorted
levels (continuity across knots uses levels one ulp apart), array = scalar.
"""
import math
import warnings

import numpy as np

from harness import common as C
from harness import gen_hydraulic as H

PROP = 'C15'
MODULES = 'Model.Transm Model.TransmEval'
MODELS = ['Model/Transm.vo', 'Model/TransmEval.vo']   # what the generated case files import
REL, ABS = 1e-6, 1e-9


# ------------------------------------------------------------- implementation

def build(zk, K, Tmin):
    import spowtd.transmissivity as tm
    try:
        with warnings.catch_warnings():
            warnings.simplefilter('ignore')
            return ('ok', tm.SplineTransmissivity(list(zk), list(K), Tmin))
    except Exception as e:  # pylint: disable=broad-except
        return ('err', C.err_of(e))


def call(T, arg):
    try:
        with warnings.catch_warnings():
            warnings.simplefilter('ignore')
            return ('ok', T(arg))
    except Exception as e:  # pylint: disable=broad-except
        return ('err', C.err_of(e))


def as_form(z, form):
    if form == 'np':
        return np.float64(z)
    if form == 'int' and float(z).is_integer():
        return int(z)
    return float(z)


# ------------------------------------------------------------- oracle

def ref_value(zk, K, Tmin, z):
    """Minimum + integral of exp(linear interpolant of ln K), by Gauss-Legendre
    quadrature split at the knots (constant conductivity outside the knots)."""
    if z <= zk[0]:
        return Tmin
    lk = np.log(np.asarray(K, dtype=float))
    zk_a = np.asarray(zk, dtype=float)
    return Tmin + H.piecewise_integral(lambda x: np.exp(np.interp(x, zk_a, lk)), zk[0], z, zk)


def close(a, b, rel=REL, ab=ABS):
    return abs(a - b) <= rel * max(abs(a), abs(b)) + ab


# ------------------------------------------------------------- cases

def gen_case(rng, k, nlev):
    shape = H.K_SHAPES[k % len(H.K_SHAPES)]
    zk = H.gen_knots(rng, rng.choice([5, 6, 8]) if shape == 'spiky' else None)
    if shape == 'spiky' and len(zk) >= 4:
        # pairs of knots about a millimetre apart inside a range of a few hundred
        zk = sorted(zk)
        for i in range(1, len(zk) - 1, 2):
            zk[i] = round(zk[i + 1] - rng.choice([0.942, 1.092, 1.5, 0.5]), 3) if zk[i + 1] - zk[i - 1] > 3 else zk[i]
        assert all(b > a for a, b in zip(zk, zk[1:])), zk
    K = H.gen_conductivities(rng, len(zk), shape)
    Tmin = H.round_sig(H.loguniform(rng, 1e-4, 1e5), rng.choice([2, 4]))
    z0, zn = zk[0], zk[-1]
    levels = H.levels_for(rng, zk, nlev)
    if shape == 'spiky':
        # shortly past each narrow segment, and an even scan: where an integrator that steps over a peak is wrong
        extra = [round(zk[i + 1] + d, 3) for i in range(1, len(zk) - 1, 2) for d in (0.12, 1.0, 3.0)]
        extra += [round(z0 + (zn - z0) * j / 13.0, 3) for j in range(1, 13)]
        levels = sorted(set(levels + [z for z in extra if z0 < z < zn]))
    above = [math.nextafter(zn, math.inf), zn + 1e-3 * (zn - z0), zn + 0.02 * (zn - z0), zn + 0.7 * (zn - z0) + 1.0]
    rng.shuffle(above)
    return dict(cls=shape, zk=zk, K=K, Tmin=Tmin, levels=levels, above=above[:2],
                form=rng.choice(['float', 'np', 'int']))


SHIPPED = dict(cls='shipped', zk=[-291.7, -5.167, 168.3, 1000.0], K=[5.356e-3, 1.002, 6577.0, 8.430e+3],
               Tmin=7.442,
               levels=[-350.0, -291.7, -288.88888888888886, -166.66666666666666, -5.167, 16.666666666666657,
                       138.88888888888889, 168.3, 200.0, 999.0, 1000.0],
               above=[1000.0000000000001, 1001.0, 1005.0], form='float')


# Witness of the defect repaired by /repo 2f87964 (quad stepped over the narrow conductivity peak at -102.9..-101.9:
# 0.48 % off at -102.83): kept as a fixed case so that the defect is reported again if it ever returns.
SPIKY_WITNESS = dict(cls='spiky-witness', zk=[-219.833, -218.891, -102.954, -101.862, -42.072],
                     K=[1404.21, 0.003746, 560.6, 0.0261, 942.34], Tmin=73.0,
                     levels=[-219.0, -150.0, -102.954, -102.834, -102.5, -101.862, -101.0, -90.0, -61.0, -42.072],
                     above=[-42.0], form='float')


def malformed_cases(rng, count):
    out = []
    for k in range(count):
        kind = k % 6
        zk = H.gen_knots(rng, rng.choice([2, 3, 4]))
        K = H.gen_conductivities(rng, len(zk), 'random')
        if kind == 0:      # two equal abscissae
            zk[-1] = zk[-2]
        elif kind == 1:    # decreasing
            zk = zk[::-1]
        elif kind == 2:    # zero conductivity (log = -inf)
            K[rng.randrange(len(K))] = 0.0
        elif kind == 3:    # negative conductivity (log = nan)
            K[rng.randrange(len(K))] = -K[0]
        elif kind == 4:    # single knot
            zk, K = zk[:1], K[:1]
        else:              # no knot
            zk, K = [], []
        out.append(dict(cls='malformed%d' % kind, zk=zk, K=K, Tmin=1.0))
    return out


def check_cases(cases, out, label):
    goals, meta = [], []
    for ci, c in enumerate(cases):
        zk, K, Tmin = c['zk'], c['K'], c['Tmin']
        jcase = dict(level='FL', **{k: c[k] for k in ('cls', 'zk', 'K', 'Tmin', 'levels', 'above', 'form')})
        out.count('knots:' + c['cls'])
        out.count('n_knots=%d' % len(zk))
        st, T = build(zk, K, Tmin)
        if st == 'err':
            out.evaluations += 1
            out.violation('oracle', 'SplineTransmissivity refuses (%s) a strictly increasing knot set with positive '
                          'conductivities: knots=%s K=%s' % (T, zk, K), case=jcase)
            continue
        z0, zn = zk[0], zk[-1]
        kmin, kmax = min(K), max(K)
        knots_lit = H.cRpairs(zk, K)
        vals = {}
        returned_above = set()
        for z in c['levels'] + c['above']:
            out.evaluations += 1
            arg = as_form(z, c['form'])
            st, v = call(T, arg)
            where = ('below' if z < z0 else 'at-lowest' if z == z0 else 'at-highest' if z == zn else
                     'above' if z > zn else 'at-knot' if z in zk else 'inside')
            out.count('level:' + where)
            msg_in = 'knots=%s K=%s Tmin=%r level=%r' % (zk, K, Tmin, z)
            if st == 'err':
                if z <= zn:
                    out.violation('oracle', 'transmissivity raised %s at a level at or below the highest knot: %s'
                                  % (v, msg_in), case=jcase)
                elif v != 'ENotImpl':
                    out.violation('corr', 'model allows only NotImplementedError above the highest knot, code raised '
                                  '%s: %s' % (v, msg_in), case=jcase)
                else:
                    out.count('above:refused')
                continue
            v = float(v)
            if z > zn:
                # outside the property's quantifier ("for water levels up to the highest knot"): QUADPACK
                # evaluates the integrand only at interior nodes, so a level slightly above the highest knot may
                # never trigger the NotImplementedError of conductivity(); whatever is returned is not judged.
                out.count('above:value')
                returned_above.add(z)
                continue
            vals[z] = v
            if not math.isfinite(v):
                out.violation('oracle', 'transmissivity is not finite (%r): %s' % (v, msg_in), case=jcase)
                continue
            # oracle: the property's wording
            if z <= z0 and v != Tmin:
                out.violation('oracle', 'transmissivity %r differs from the minimum at/below the lowest knot: %s'
                              % (v, msg_in), case=jcase)
            want = ref_value(zk, K, Tmin, z)
            if not close(v, want):
                out.violation('oracle', 'transmissivity %r differs from minimum + integral of the log-linear '
                              'conductivity (%r, Gauss-Legendre): %s' % (v, want, msg_in), case=jcase)
            if z0 < z <= zn and len(zk) >= 3 and z > zk[1]:
                out.nontriv(('v', tuple(zk), tuple(K), Tmin, z))
            goals.append(('Rabs (T_closed %s %s %s - %s) <= %s'
                          % (knots_lit, H.cR(Tmin), H.cR(z), H.cR(v), H.tol_expr(v, REL, ABS)),
                          'T_closed_eval', H.INTERVAL))
            meta.append((ci, z, v, want))
        # monotone, Lipschitz (continuity) over the sorted levels
        zs = sorted(vals)
        for a, b in zip(zs[:-1], zs[1:]):
            da = vals[b] - vals[a]
            slack = 2 * REL * max(abs(vals[a]), abs(vals[b])) + 2 * ABS  # both values carry the tolerance
            if da < -slack:
                out.violation('oracle', 'transmissivity decreases from level %r (%r) to level %r (%r): knots=%s K=%s'
                              % (a, vals[a], b, vals[b], zk, K), case=jcase)
            if da > kmax * (b - a) + slack or (a >= z0 and da < kmin * (b - a) - slack):
                out.violation('oracle', 'increment of transmissivity between levels %r and %r is %r, outside '
                              '[Kmin dz, Kmax dz] = [%r, %r] (continuity / integral of a conductivity between the '
                              'knot values): knots=%s K=%s' % (a, b, da, kmin * (b - a), kmax * (b - a), zk, K),
                              case=jcase)
        # array = scalar
        ok_levels = [z for z in c['levels'] if z in vals]
        for ctor, name in ((np.array, 'ndarray'), (list, 'list')):
            st, arr = call(T, ctor(ok_levels))
            out.count('array:' + name)
            if st == 'err' or [float(x) for x in arr] != [vals[z] for z in ok_levels]:
                out.violation('oracle', 'array argument (%s) gives %s, scalar calls give %s: knots=%s K=%s levels=%s'
                              % (name, arr, [vals[z] for z in ok_levels], zk, K, ok_levels), case=jcase)
            elif not (isinstance(arr, np.ndarray) and arr.dtype == np.float64):
                out.violation('oracle', 'array path does not return a float64 array', case=jcase)
        # integer-typed arguments: a list of Python ints and an integer-dtype ndarray (whole-number levels of the
        # knot range) must give the float values the scalar calls give
        lo_i, hi_i = math.ceil(z0 - 2), math.floor(zn)
        if hi_i - lo_i >= 1:
            ints = sorted({lo_i, hi_i, (lo_i + hi_i) // 2, lo_i + 1})
            ints = [i for i in ints if lo_i <= i <= hi_i]
            want_i = []
            for i in ints:
                st_i, v_i = call(T, float(i))
                want_i.append(float(v_i) if st_i == 'ok' else None)
            if None not in want_i:
                for ctor, name in ((lambda l: np.array(l, dtype='int64'), 'int64-ndarray'), (list, 'list-of-int')):
                    st, arr = call(T, ctor(ints))
                    out.evaluations += 1
                    out.count('array:' + name)
                    if st == 'err' or [float(x) for x in arr] != want_i:
                        out.violation('oracle', 'integer-typed array argument (%s) gives %s, scalar calls at the same '
                                      'levels give %s: knots=%s K=%s Tmin=%r levels=%s'
                                      % (name, arr, want_i, zk, K, Tmin, ints), case=jcase)
        refused = [z for z in c['above'] if z not in vals and z not in returned_above]
        if refused:
            st, arr = call(T, np.array(ok_levels + refused[:1]))
            if (st, arr) != ('err', 'ENotImpl'):
                out.violation('corr', 'array holding a refused level %r returns %s %s (model: first exception wins)'
                              % (refused[0], st, arr), case=jcase)
    status, errs, secs = H.run_goals(PROP, label, MODULES, goals)
    out.corr_errors += errs
    out.notes.append('%s: %d interval goals in %.1fs' % (label, len(goals), secs))
    for (ci, z, v, want), s in zip(meta, status):
        if s == 'OK':
            continue
        c = cases[ci]
        jcase = dict(level='FL', **{k: c[k] for k in ('cls', 'zk', 'K', 'Tmin', 'levels', 'above', 'form')})
        if s == 'MISMATCH':
            out.violation('corr', 'Coq cannot enclose T_closed within 1e-6 rel + 1e-9 of the implementation value '
                          '%r at level %r (independent quadrature gives %r): knots=%s K=%s Tmin=%r'
                          % (v, z, want, c['zk'], c['K'], c['Tmin']), case=jcase)
        elif s == 'EVALFAIL':
            out.corr_errors.append(('%s goal (knots=%s, level=%r)' % (label, c['zk'], z),
                                    'T_closed_eval could not decide the comparisons'))


def check_history(rng, count, out):
    """Many transmissivity functions built, used and discarded one after the other in one process, all evaluated
    at the SAME levels: each must return its own minimum + integral (state kept between objects - a cache keyed by
    object identity or by level - shows up here and nowhere else)."""
    import gc
    levels = [-60.0, -20.0, 0.0, 35.0, 70.0]
    for n in range(count):
        zk = [-100.0, rng.choice([-40.0, -30.0, -10.0]), rng.choice([10.0, 25.0, 50.0]), 100.0]
        K = H.gen_conductivities(rng, len(zk), 'random')
        Tmin = H.round_sig(H.loguniform(rng, 1e-3, 1e3), 3)
        st, T = build(zk, K, Tmin)
        if st != 'ok':
            continue
        jcase = dict(level='history', n=n)
        for z in levels:
            out.evaluations += 1
            st, v = call(T, z)
            want = ref_value(zk, K, Tmin, z)
            if st != 'ok' or not close(float(v), want):
                out.violation('oracle', 'function number %d built in this process returns %r at level %r; its own minimum '
                              '+ integral is %r (knots=%s K=%s Tmin=%r): values depend on functions built before'
                              % (n, v, z, want, zk, K, Tmin), case=jcase, )
                break
        out.count('history:functions')
        del T
        gc.collect()


def check_malformed(cases, out, label):
    goals, meta = [], []
    for c in cases:
        out.evaluations += 1
        out.count('knots:' + c['cls'])
        st, T = build(c['zk'], c['K'], c['Tmin'])
        got = 'Ok %s' % H.cRpairs(c['zk'], c['K']) if st == 'ok' else 'Err %s' % T
        if st == 'ok':
            out.violation('oracle', 'constructor accepts a knot set outside the quantified domain: knots=%s K=%s'
                          % (c['zk'], c['K']), case=dict(level='malformed', **c))
        goals.append(('construct %s = %s' % (H.cRpairs(c['zk'], c['K']), got), 'construct_eval', 'reflexivity'))
        meta.append((c, got))
    status, errs, _ = H.run_goals(PROP, label, MODULES, goals, per_file=20)
    out.corr_errors += errs
    for (c, got), s in zip(meta, status):
        if s != 'OK':
            out.violation('corr', 'model construct <> SplineTransmissivity constructor (%s) on knots=%s K=%s'
                          % (got, c['zk'], c['K']), case=dict(level='malformed', **c))


def run(ctx, out):
    C.import_spowtd()
    seed, tier = ctx['seed'], ctx['tier']
    rng = C.rng_for(seed, PROP)
    nsets, nlev = (14, 7) if tier == 'quick' else (110, 9)
    cases = [SHIPPED, SPIKY_WITNESS] + [gen_case(rng, k, nlev) for k in range(nsets)]
    cases += [gen_case(rng, H.K_SHAPES.index('spiky'), nlev) for _ in range(3 if tier == 'quick' else 12)]
    check_cases(cases, out, 'fl')
    check_malformed(malformed_cases(rng, 12 if tier == 'quick' else 60), out, 'malformed')
    check_history(C.rng_for(seed, PROP, 'history'), 40 if tier == 'quick' else 300, out)
    out.rule = ('(knot set, level) pairs through SplineTransmissivity: 2-8 knots with spacings 0.5-500 mm, '
                'conductivities 1e-4..1e5 in 7 shapes (random, rising, falling, equal adjacent pair, at the bounds, '
                'sawtooth, factors near 1); levels below / at / one ulp above the lowest knot, at and one ulp beside '
                'every knot, inside segments, one ulp below and at the highest knot, above it; scalar (float, '
                'np.float64, int) and array (ndarray, list). Non-trivial: a level strictly above the second knot '
                'and at or below the highest knot of a set with >= 3 knots (at least two segments contribute); '
                'distinct by (knots, K, Tmin, level).')
    out.samples = [dict(knots=c['zk'], K=c['K'], Tmin=c['Tmin'], levels=c['levels'][:4]) for c in cases[:3]]
    out.assumptions += [
        'scipy.integrate.quad (QUADPACK) is an oracle: "evaluates the integrand strictly inside the interval and '
        'returns the integral"; tested on every run by comparing its result with the certified closed form '
        '(1e-6 relative + 1e-9) and with an independent Gauss-Legendre quadrature',
        'FITPACK order-1 spline through the points = the polygon through the points (tested by the same comparison)',
        'inputs are floats; the model is over the reals on the exact dyadic values of those floats; the float '
        'arithmetic of the implementation is covered by the tolerance, not modelled',
        'Coq Interval library (certified enclosures of exp, ln)']


def replay(case, out):
    C.import_spowtd()
    if case.get('level') == 'history':
        check_history(C.rng_for(0, PROP, 'history'), 60, out)
    elif case.get('level') == 'malformed':
        check_malformed([case], out, 'replay')
    else:
        check_cases([case], out, 'replay')
