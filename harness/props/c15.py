"""C15 — spline transmissivity = minimum + integral of a conductivity whose
logarithm is piecewise linear.

Correspondence (function level): transmissivity.SplineTransmissivity on
(knot set, level) cases; for every case Coq proves, with the `interval`
tactic, |T_closed knots Tmin z - v_impl| <= 1e-6 |v_impl| + 1e-9 where
T_closed (Model/Transm.v) is the closed form that Properties/C15.v proves equal
to minimum + integral, and v_impl is the float returned by the implementation
(an exact dyadic constant).  Constructor refusals against Model construct.

Oracle (independent of the model): the property's wording evaluated on the
implementation's values - equality with the minimum at/below the lowest knot,
minimum + Gauss-Legendre quadrature of exp(np.interp(.., ln K)) (no FITPACK, no
QUADPACK, no closed form), no exception at or below the highest knot,
monotonicity and the Lipschitz bounds Kmin dz <= dT <= Kmax dz over the sorted
levels (continuity across knots uses levels one ulp apart), array = scalar.

Ways a function comes into being (case field `via`): 'class' - SplineTransmissivity(...) directly; 'factory' -
create_transmissivity_function on a parameters dictionary of floats; 'yaml' - the factory on what yaml.safe_load
gives for a parameter text (whole numbers arrive as Python ints, `1e-05` as a string: the latter may be refused,
never answered wrongly); 'simulate' - the callable that `spowtd simulate recession DB FILE` hands to
compute_recession_curve (captured from outside).  Conductivities inside, at and outside the PEST bounds
[1e-4, 1e5]; knot sets with a knot at exactly 0.0 (as the lowest, the second, a middle or the highest knot) and
the levels 0.0 / -0.0; every array call keeps its array: it is compared bit-for-bit with a pristine copy
afterwards, handed over a second time, also read-only and as non-contiguous views.
Wave 5: adjacent knots whose conductivities differ by rounding only (near_cases: same oracle, two levels of each
through Coq); ONE call with 1024-5000 levels against the scalar calls (check_long, oracle only); a new value given to
minimum_transmissivity_m2_d on a live object (check_reassign: the unchanged code reads it at every call).
"""
import math
import os
import warnings

import numpy as np
import yaml

from harness import common as C
from harness import gen_hydraulic as H

PROP = 'C15'
MODULES = 'Model.Transm Model.TransmEval'
MODELS = ['Model/Transm.vo', 'Model/TransmEval.vo']   # what the generated case files import
REL, ABS = 1e-6, 1e-9


# ------------------------------------------------------------- implementation

def build(zk, K, Tmin):
    import spowtd.transmissivity as tm
    try:
        with warnings.catch_warnings():
            warnings.simplefilter('ignore')
            return ('ok', tm.SplineTransmissivity(list(zk), list(K), Tmin))
    except Exception as e:  # pylint: disable=broad-except
        return ('err', C.err_of(e))


SY_SECTION = ('specific_yield:\n  type: spline\n  zeta_knots_mm: [-291.75, -183.125, -15.75, 10.625, 38.75, 168.25]\n'
              '  sy_knots: [0.1358, 0.1671, 0.2541, 0.2907, 0.2892, 0.6857]\n')


def param_text(c):
    """The parameter file of a case: the numbers in the texts the case prescribes."""
    t = c['texts']
    return ('%stransmissivity:\n  type: spline\n  zeta_knots_mm: [%s]\n  K_knots_km_d: [%s]\n'
            '  minimum_transmissivity_m2_d: %s\n' % (SY_SECTION, ', '.join(t['zk']), ', '.join(t['K']), t['Tmin']))


_CMD = {}


def cmd_dataset():
    """One dataset with an assembled recession curve and a curvature, built through the real CLI (which dataset
    is irrelevant here: the command is only asked for the transmissivity callable it builds)."""
    if _CMD.get('repo') != C.REPO:
        from harness import curves_common as CC
        _CMD.clear()
        for n in range(6):
            plan = CC.make_plan(C.rng_for(0, PROP, 'cmd-dataset', n), varying_et=True)
            plan['curvature'] = 1.5
            r = CC.build_from_plan(PROP, plan, steps=('recession', 'curvature'), name='cmd_db')
            if r['status'] == 'ok' and r.get('db'):
                _CMD.update(db=r['db'], dir=r['dir'], repo=C.REPO)
                break
        else:
            raise RuntimeError('no dataset could be assembled for the command path')
    return _CMD['db'], _CMD['dir']


def through_simulate(text):
    """The transmissivity callable `spowtd simulate recession` builds from the parameter file."""
    import spowtd.simulate_recession as sr
    from harness import dataset as D
    db, d = cmd_dataset()
    pfile, ofile = os.path.join(d, 'parameters.yml'), os.path.join(d, 'out.yml')
    with open(pfile, 'w') as f:
        f.write(text)
    got = []
    orig = sr.compute_recession_curve

    def wrapper(specific_yield, transmissivity_m2_d, zeta_grid_mm, mean_elapsed_time_d, curvature_km, et_mm_d):
        got.append(transmissivity_m2_d)
        return np.zeros(np.shape(zeta_grid_mm), dtype=float)
    sr.compute_recession_curve = wrapper
    try:
        _, exc, _ = D.cli(['simulate', 'recession', db, pfile, '-o', ofile])
    finally:
        sr.compute_recession_curve = orig
    if exc is not None:
        raise exc
    if len(got) != 1:
        raise RuntimeError('compute_recession_curve called %d times' % len(got))
    return got[0]


def build_case(c):
    """The transmissivity function of a case, brought into being the way the case says."""
    import spowtd.transmissivity as tm
    via = c.get('via', 'class')
    if via == 'class':
        return build(c['zk'], c['K'], c['Tmin'])
    try:
        with warnings.catch_warnings():
            warnings.simplefilter('ignore')
            if via == 'factory':
                return ('ok', tm.create_transmissivity_function(dict(
                    type='spline', zeta_knots_mm=list(c['zk']), K_knots_km_d=list(c['K']),
                    minimum_transmissivity_m2_d=c['Tmin'])))
            if via == 'yaml':
                return ('ok', tm.create_transmissivity_function(yaml.safe_load(param_text(c))['transmissivity']))
            return ('ok', through_simulate(param_text(c)))
    except Exception as e:  # pylint: disable=broad-except
        return ('err', C.err_of(e))


def call(T, arg):
    try:
        with warnings.catch_warnings():
            warnings.simplefilter('ignore')
            return ('ok', T(arg))
    except Exception as e:  # pylint: disable=broad-except
        return ('err', C.err_of(e))


def as_form(z, form):
    if form == 'np':
        return np.float64(z)
    if form == 'int' and float(z).is_integer():
        return int(z)
    return float(z)


# ------------------------------------------------------------- oracle

def ref_value(zk, K, Tmin, z):
    """Minimum + integral of exp(linear interpolant of ln K), by Gauss-Legendre
    quadrature split at the knots (constant conductivity outside the knots)."""
    if z <= zk[0]:
        return Tmin
    lk = np.log(np.asarray(K, dtype=float))
    zk_a = np.asarray(zk, dtype=float)
    return Tmin + H.piecewise_integral(lambda x: np.exp(np.interp(x, zk_a, lk)), zk[0], z, zk)


def close(a, b, rel=REL, ab=ABS):
    return abs(a - b) <= rel * max(abs(a), abs(b)) + ab


# ------------------------------------------------------------- cases

def gen_case(rng, k, nlev, outside=False):
    shape = H.K_SHAPES[k % len(H.K_SHAPES)]
    zk = H.gen_knots(rng, rng.choice([5, 6, 8]) if shape == 'spiky' else None)
    if shape == 'spiky' and len(zk) >= 4:
        # pairs of knots about a millimetre apart inside a range of a few hundred
        zk = sorted(zk)
        for i in range(1, len(zk) - 1, 2):
            zk[i] = round(zk[i + 1] - rng.choice([0.942, 1.092, 1.5, 0.5]), 3) if zk[i + 1] - zk[i - 1] > 3 else zk[i]
        assert all(b > a for a, b in zip(zk, zk[1:])), zk
    K = H.gen_conductivities(rng, len(zk), shape, outside=outside)
    Tmin = H.round_sig(H.loguniform(rng, 1e-4, 1e5), rng.choice([2, 4]))
    z0, zn = zk[0], zk[-1]
    levels = H.levels_for(rng, zk, nlev)
    if shape == 'spiky':
        # shortly past each narrow segment, and an even scan: where an integrator that steps over a peak is wrong
        extra = [round(zk[i + 1] + d, 3) for i in range(1, len(zk) - 1, 2) for d in (0.12, 1.0, 3.0)]
        extra += [round(z0 + (zn - z0) * j / 13.0, 3) for j in range(1, 13)]
        levels = sorted(set(levels + [z for z in extra if z0 < z < zn]))
    above = [math.nextafter(zn, math.inf), zn + 1e-3 * (zn - z0), zn + 0.02 * (zn - z0), zn + 0.7 * (zn - z0) + 1.0]
    rng.shuffle(above)
    return dict(cls=shape, zk=zk, K=K, Tmin=Tmin, levels=levels, above=above[:2],
                form=rng.choice(['float', 'np', 'int']))


PEST_BOUNDS = (1e-4, 1e5)


def gen_extra_case(rng, k, nlev):
    """A function that comes into being through the factory / a parameter text / the simulate command, with
    conductivities inside, at and (3 cases of 4) outside the PEST bounds, the numbers written the ways a parameter
    file may write them (whole numbers without a dot -> Python ints)."""
    via = ('factory', 'yaml', 'simulate')[k % 3]
    c = gen_case(rng, k, nlev, outside=(k % 4 != 3))
    c['cls'] += '/' + via
    if rng.random() < 0.5:      # one conductivity exactly at a bound
        c['K'][rng.randrange(len(c['K']))] = rng.choice(PEST_BOUNDS)
    if rng.random() < 0.5:      # whole numbers where that keeps the knot set strictly increasing
        zr = [float(round(z)) for z in c['zk']]
        if all(b > a for a, b in zip(zr, zr[1:])):
            moved = dict(zip(c['zk'], zr))
            c['levels'] = sorted(set(moved.get(z, z) for z in c['levels'] if zr[0] - 200 < moved.get(z, z) <= zr[-1]))
            c['above'] = [z for z in c['above'] if z > zr[-1]] or [zr[-1] + 1.0]
            c['zk'] = zr
        c['K'] = [float(round(x)) if x >= 1 else x for x in c['K']]
        c['Tmin'] = float(round(c['Tmin'])) if c['Tmin'] >= 1 else c['Tmin']
    c['via'] = via
    c['coq_max'] = 1
    if via != 'factory':
        style = lambda x: H.yaml_number_text(x, rng.choice(H.YAML_STYLES))   # noqa: E731
        t = dict(zk=[style(z) for z in c['zk']], K=[style(x) for x in c['K']], Tmin=style(c['Tmin']))
        for key in ('zk', 'K'):     # `1e-05` is a string for YAML 1.1: kept for the dedicated cases below
            t[key] = [x if H.yaml_type(x) != 'str' else H.yaml_number_text(float(x), 'dump') for x in t[key]]
        if H.yaml_type(t['Tmin']) == 'str':
            t['Tmin'] = H.yaml_number_text(float(t['Tmin']), 'dump')
        c['texts'] = t
    return c


def gen_str_case(rng, k, nlev):
    """A parameter text with one number written like `1e-05` (no dot: yaml.safe_load returns the string)."""
    c = gen_case(rng, k, nlev, outside=True)
    via = ('yaml', 'simulate')[k % 2]
    c['cls'] += '/' + via + '/str'
    c['via'], c['coq_max'], c['str_typed'] = via, 1, True
    t = dict(zk=[H.yaml_number_text(z, 'dump') for z in c['zk']], K=[H.yaml_number_text(x, 'dump') for x in c['K']],
             Tmin=H.yaml_number_text(c['Tmin'], 'dump'))
    j = rng.randrange(len(c['K']))
    if k % 3 == 2:
        c['Tmin'] = float(rng.choice(['1e-05', '2e-06', '1e+16']))
        t['Tmin'] = repr(c['Tmin'])
        assert H.yaml_type(t['Tmin']) == 'str'
    else:
        c['K'][j] = float(rng.choice(['1e-05', '3e-06', '1e-07', '2e-05']))
        t['K'][j] = repr(c['K'][j])
        assert H.yaml_type(t['K'][j]) == 'str'
    c['texts'] = t
    return c


def gen_zero_case(rng, k, nlev):
    """A knot at exactly 0.0 mm (the peat surface) - as the second knot (the only interior knot below the levels
    of the segment above it), the lowest, a middle or the highest knot - and the levels 0.0 and -0.0; for the
    spiky shapes a long segment below the knot at 0.0 and a narrow steep one above it."""
    shape = ('spiky_low', 'spiky', 'spiky_low', 'random', 'spiky_low', 'sawtooth', 'spiky_low', 'bounds')[k % 8]
    n = rng.choice([4, 5, 6])
    pos = (1, 1, 0, 1, n - 1, 2, 1, 1)[k % 8]
    spiky = shape.startswith('spiky')
    gaps = []
    for i in range(n - 1):
        if spiky and i % 2:
            gaps.append(rng.choice([0.942, 1.092, 1.5, 0.5, 1.0]))
        elif spiky:
            gaps.append(round(H.loguniform(rng, 100.0, 3000.0), 3))
        else:
            gaps.append(round(H.loguniform(rng, 0.5, 500.0), 3))
    zk = [0.0] * n
    for i in range(pos + 1, n):
        zk[i] = round(zk[i - 1] + gaps[i - 1], 3)
    for i in range(pos - 1, -1, -1):
        zk[i] = round(zk[i + 1] - gaps[i], 3)
    assert zk[pos] == 0.0 and all(b > a for a, b in zip(zk, zk[1:])), zk
    K = H.gen_conductivities(rng, n, shape, outside=rng.random() < 0.5)
    Tmin = H.round_sig(H.loguniform(rng, 1e-4, 1e5), rng.choice([2, 4]))
    z0, zn = zk[0], zk[-1]
    levels = H.levels_for(rng, zk, nlev) + [0.0]
    if spiky:
        for i in range(1, n - 1, 2):
            levels += [round(zk[i] + gaps[i] * f, 4) for f in (0.25, 0.5, 0.75)] + [zk[i + 1]]
            levels += [round(zk[i + 1] + d, 3) for d in (0.12, 1.0, 3.0)]
        levels += [round(z0 + (zn - z0) * j / 9.0, 3) for j in range(1, 9)]
    levels = sorted(set(z for z in levels if z <= zn)) + ([-0.0] if z0 <= 0.0 else [])
    above = [math.nextafter(zn, math.inf), zn + 1e-3 * (zn - z0), zn + 0.02 * (zn - z0), zn + 0.7 * (zn - z0) + 1.0]
    rng.shuffle(above)
    return dict(cls='zero-knot@%d/%s' % (pos if pos < n - 1 else -1, shape), zk=zk, K=K, Tmin=Tmin, levels=levels,
                above=above[:2], form=rng.choice(['float', 'np', 'int']), via=('class', 'factory')[k % 2], coq_max=1)


CASE_KEYS = ('cls', 'zk', 'K', 'Tmin', 'levels', 'above', 'form')
OPT_KEYS = ('via', 'texts', 'str_typed', 'coq_max', 'coq_levels')


def jcase_of(c):
    return dict(level='FL', **{k: c[k] for k in CASE_KEYS}, **{k: c[k] for k in OPT_KEYS if k in c})


def k_class(x):
    lo, hi = PEST_BOUNDS
    return 'below-bounds' if x < lo else 'above-bounds' if x > hi else 'at-bounds' if x in (lo, hi) else 'inside'


SHIPPED = dict(cls='shipped', zk=[-291.7, -5.167, 168.3, 1000.0], K=[5.356e-3, 1.002, 6577.0, 8.430e+3],
               Tmin=7.442,
               levels=[-350.0, -291.7, -288.88888888888886, -166.66666666666666, -5.167, 16.666666666666657,
                       138.88888888888889, 168.3, 200.0, 999.0, 1000.0],
               above=[1000.0000000000001, 1001.0, 1005.0], form='float')


# Witness of the defect repaired by /repo 2f87964 (quad stepped over the narrow conductivity peak at -102.9..-101.9:
# 0.48 % off at -102.83): kept as a fixed case so that the defect is reported again if it ever returns.
SPIKY_WITNESS = dict(cls='spiky-witness', zk=[-219.833, -218.891, -102.954, -101.862, -42.072],
                     K=[1404.21, 0.003746, 560.6, 0.0261, 942.34], Tmin=73.0,
                     levels=[-219.0, -150.0, -102.954, -102.834, -102.5, -101.862, -101.0, -90.0, -61.0, -42.072],
                     above=[-42.0], form='float')


def malformed_cases(rng, count):
    out = []
    for k in range(count):
        kind = k % 6
        zk = H.gen_knots(rng, rng.choice([2, 3, 4]))
        K = H.gen_conductivities(rng, len(zk), 'random')
        if kind == 0:      # two equal abscissae
            zk[-1] = zk[-2]
        elif kind == 1:    # decreasing
            zk = zk[::-1]
        elif kind == 2:    # zero conductivity (log = -inf)
            K[rng.randrange(len(K))] = 0.0
        elif kind == 3:    # negative conductivity (log = nan)
            K[rng.randrange(len(K))] = -K[0]
        elif kind == 4:    # single knot
            zk, K = zk[:1], K[:1]
        else:              # no knot
            zk, K = [], []
        out.append(dict(cls='malformed%d' % kind, zk=zk, K=K, Tmin=1.0))
    return out


def check_cases(cases, out, label):
    goals, meta = [], []
    for ci, c in enumerate(cases):
        zk, K, Tmin = c['zk'], c['K'], c['Tmin']
        jcase = jcase_of(c)
        via = c.get('via', 'class')
        out.count('knots:' + c['cls'])
        out.count('n_knots=%d' % len(zk))
        out.count('via:' + via)
        for x in K:
            out.count('K:' + k_class(x))
        if 0.0 in zk:
            out.count('knot-at-0.0:index=%s' % ('last' if zk[-1] == 0.0 else zk.index(0.0)))
        if 'texts' in c:
            for x in c['texts']['zk'] + c['texts']['K'] + [c['texts']['Tmin']]:
                out.count('yaml-type:' + H.yaml_type(x))
        st, T = build_case(c)
        if st == 'err':
            out.evaluations += 1
            if c.get('str_typed'):
                # a number the YAML loader hands over as a string: a refusal is not a wrong answer
                out.count('str-typed:refused:' + T)
                continue
            out.violation('oracle', 'a spline transmissivity (made through: %s) is refused (%s) for a strictly '
                          'increasing knot set with positive conductivities: knots=%s K=%s%s'
                          % (via, T, zk, K, ('; parameter file:\n' + param_text(c)) if 'texts' in c else ''),
                          case=jcase)
            continue
        if c.get('str_typed'):
            out.count('str-typed:accepted')
        lv, cm = c['levels'], c.get('coq_max')
        # Coq encloses every level of the original classes and an even share of the levels of the added ones (the
        # oracle judges all of them)
        coq_levels = set(lv) if cm is None else {lv[(2 * i + 1) * len(lv) // (2 * cm)] for i in range(cm)} | {zk[-1]}
        if c.get('coq_levels') is not None:
            coq_levels = set(c['coq_levels'])
        z0, zn = zk[0], zk[-1]
        kmin, kmax = min(K), max(K)
        knots_lit = H.cRpairs(zk, K)
        vals = {}
        returned_above = set()
        for z in c['levels'] + c['above']:
            out.evaluations += 1
            arg = as_form(z, c['form'])
            st, v = call(T, arg)
            where = ('below' if z < z0 else 'at-lowest' if z == z0 else 'at-highest' if z == zn else
                     'above' if z > zn else 'at-knot' if z in zk else 'inside')
            out.count('level:' + where)
            msg_in = 'knots=%s K=%s Tmin=%r level=%r%s' % (zk, K, Tmin, z, '' if via == 'class' else
                                                            ' (function made through: %s)' % via)
            if st == 'err' and c.get('str_typed') and v == 'EType':
                out.count('str-typed:refused-at-call')      # a string handed over by the YAML loader: refused, not answered
                continue
            if st == 'err':
                if z <= zn:
                    out.violation('oracle', 'transmissivity raised %s at a level at or below the highest knot: %s'
                                  % (v, msg_in), case=jcase)
                elif v != 'ENotImpl':
                    out.violation('corr', 'model allows only NotImplementedError above the highest knot, code raised '
                                  '%s: %s' % (v, msg_in), case=jcase)
                else:
                    out.count('above:refused')
                continue
            v = float(v)
            if z > zn:
                # outside the property's quantifier ("for water levels up to the highest knot"): QUADPACK
                # evaluates the integrand only at interior nodes, so a level slightly above the highest knot may
                # never trigger the NotImplementedError of conductivity(); whatever is returned is not judged.
                out.count('above:value')
                returned_above.add(z)
                continue
            vals[z] = v
            if not math.isfinite(v):
                out.violation('oracle', 'transmissivity is not finite (%r): %s' % (v, msg_in), case=jcase)
                continue
            # oracle: the property's wording
            if z <= z0 and v != Tmin:
                out.violation('oracle', 'transmissivity %r differs from the minimum at/below the lowest knot: %s'
                              % (v, msg_in), case=jcase)
            want = ref_value(zk, K, Tmin, z)
            if not close(v, want):
                out.violation('oracle', 'transmissivity %r differs from minimum + integral of the log-linear '
                              'conductivity (%r, Gauss-Legendre): %s' % (v, want, msg_in), case=jcase)
            if z0 < z <= zn and len(zk) >= 3 and z > zk[1]:
                out.nontriv(('v', tuple(zk), tuple(K), Tmin, z))
            if z not in coq_levels:
                continue
            goals.append(('Rabs (T_closed %s %s %s - %s) <= %s'
                          % (knots_lit, H.cR(Tmin), H.cR(z), H.cR(v), H.tol_expr(v, REL, ABS)),
                          'T_closed_eval', H.INTERVAL))
            meta.append((ci, z, v, want))
        # monotone, Lipschitz (continuity) over the sorted levels
        zs = sorted(vals)
        for a, b in zip(zs[:-1], zs[1:]):
            da = vals[b] - vals[a]
            slack = 2 * REL * max(abs(vals[a]), abs(vals[b])) + 2 * ABS  # both values carry the tolerance
            if da < -slack:
                out.violation('oracle', 'transmissivity decreases from level %r (%r) to level %r (%r): knots=%s K=%s'
                              % (a, vals[a], b, vals[b], zk, K), case=jcase)
            if da > kmax * (b - a) + slack or (a >= z0 and da < kmin * (b - a) - slack):
                out.violation('oracle', 'increment of transmissivity between levels %r and %r is %r, outside '
                              '[Kmin dz, Kmax dz] = [%r, %r] (continuity / integral of a conductivity between the '
                              'knot values): knots=%s K=%s' % (a, b, da, kmin * (b - a), kmax * (b - a), zk, K),
                              case=jcase)
        # array = scalar
        ok_levels = [z for z in c['levels'] if z in vals]
        for ctor, name in ((np.array, 'ndarray'), (list, 'list')):
            st, arr = call(T, ctor(ok_levels))
            out.count('array:' + name)
            if st == 'err' or [float(x) for x in arr] != [vals[z] for z in ok_levels]:
                out.violation('oracle', 'array argument (%s) gives %s, scalar calls give %s: knots=%s K=%s levels=%s'
                              % (name, arr, [vals[z] for z in ok_levels], zk, K, ok_levels), case=jcase)
            elif not (isinstance(arr, np.ndarray) and arr.dtype == np.float64):
                out.violation('oracle', 'array path does not return a float64 array', case=jcase)
        # the caller keeps its array: unchanged afterwards (bit for bit), and the same answer the second time; also
        # for an array that may not be written to and for non-contiguous views
        for mode in H.ARRAY_MODES:
            results, modified = H.call_twice(T, ok_levels, mode)
            out.evaluations += len(results)
            out.count('array-kept:' + mode)
            if modified:
                out.violation('oracle', 'the caller\'s levels were modified: the float64 array (%s) handed to the '
                              'transmissivity function differs from its pristine copy afterwards: knots=%s K=%s levels=%s'
                              % (mode, zk, K, ok_levels), case=jcase)
            for nth, (st, arr) in enumerate(results, 1):
                if st == 'err' or [float(x) for x in arr] != [vals[z] for z in ok_levels]:
                    out.violation('oracle', 'call number %d with the same float64 array (%s) gives %s, scalar calls at '
                                  'these levels give %s: knots=%s K=%s levels=%s'
                                  % (nth, mode, arr, [vals[z] for z in ok_levels], zk, K, ok_levels), case=jcase)
                    break
        # integer-typed arguments: a list of Python ints and an integer-dtype ndarray (whole-number levels of the
        # knot range) must give the float values the scalar calls give
        lo_i, hi_i = math.ceil(z0 - 2), math.floor(zn)
        if hi_i - lo_i >= 1:
            ints = sorted({lo_i, hi_i, (lo_i + hi_i) // 2, lo_i + 1})
            ints = [i for i in ints if lo_i <= i <= hi_i]
            want_i = []
            for i in ints:
                st_i, v_i = call(T, float(i))
                want_i.append(float(v_i) if st_i == 'ok' else None)
            if None not in want_i:
                for ctor, name in ((lambda l: np.array(l, dtype='int64'), 'int64-ndarray'), (list, 'list-of-int')):
                    st, arr = call(T, ctor(ints))
                    out.evaluations += 1
                    out.count('array:' + name)
                    if st == 'err' or [float(x) for x in arr] != want_i:
                        out.violation('oracle', 'integer-typed array argument (%s) gives %s, scalar calls at the same '
                                      'levels give %s: knots=%s K=%s Tmin=%r levels=%s'
                                      % (name, arr, want_i, zk, K, Tmin, ints), case=jcase)
        refused = [z for z in c['above'] if z not in vals and z not in returned_above]
        if refused:
            st, arr = call(T, np.array(ok_levels + refused[:1]))
            if (st, arr) != ('err', 'ENotImpl'):
                out.violation('corr', 'array holding a refused level %r returns %s %s (model: first exception wins)'
                              % (refused[0], st, arr), case=jcase)
    status, errs, secs = H.run_goals(PROP, label, MODULES, goals, per_file=max(8, -(-len(goals) // 32)))
    out.corr_errors += errs
    out.notes.append('%s: %d interval goals in %.1fs' % (label, len(goals), secs))
    for (ci, z, v, want), s in zip(meta, status):
        if s == 'OK':
            continue
        c = cases[ci]
        jcase = jcase_of(c)
        if s == 'MISMATCH':
            out.violation('corr', 'Coq cannot enclose T_closed within 1e-6 rel + 1e-9 of the implementation value '
                          '%r at level %r (independent quadrature gives %r): knots=%s K=%s Tmin=%r'
                          % (v, z, want, c['zk'], c['K'], c['Tmin']), case=jcase)
        elif s == 'EVALFAIL':
            out.corr_errors.append(('%s goal (knots=%s, level=%r)' % (label, c['zk'], z),
                                    'T_closed_eval could not decide the comparisons'))


def check_history(rng, count, out):
    """Many transmissivity functions built, used and discarded one after the other in one process, all evaluated
    at the SAME levels: each must return its own minimum + integral (state kept between objects - a cache keyed by
    object identity or by level - shows up here and nowhere else)."""
    import gc
    levels = [-60.0, -20.0, 0.0, 35.0, 70.0]
    for n in range(count):
        zk = [-100.0, rng.choice([-40.0, -30.0, -10.0]), rng.choice([10.0, 25.0, 50.0]), 100.0]
        K = H.gen_conductivities(rng, len(zk), 'random')
        Tmin = H.round_sig(H.loguniform(rng, 1e-3, 1e3), 3)
        st, T = build(zk, K, Tmin)
        if st != 'ok':
            continue
        jcase = dict(level='history', n=n)
        for z in levels:
            out.evaluations += 1
            st, v = call(T, z)
            want = ref_value(zk, K, Tmin, z)
            if st != 'ok' or not close(float(v), want):
                out.violation('oracle', 'function number %d built in this process returns %r at level %r; its own minimum '
                              '+ integral is %r (knots=%s K=%s Tmin=%r): values depend on functions built before'
                              % (n, v, z, want, zk, K, Tmin), case=jcase, )
                break
        out.count('history:functions')
        del T
        gc.collect()


# ------------------------------------------------------------- neighbouring conductivities (wave 5)

def near_cases(seed, tier):
    """Two ADJACENT knots whose conductivities differ by rounding only (a decimal next to the same number as float
    arithmetic produces it, 1-3 ulps apart, ratios 1 +- 1e-15 .. 1e-6): the logarithmic slope of that segment is a
    quotient of two tiny differences.  Levels one ulp below, at and one ulp above the upper knot of the pair, inside
    the segment above it, at the highest knot; the pair's segment is mostly the thick, conductive one (so that it
    carries a visible share of the transmissivity).  Through Coq: the upper knot of the pair and the highest knot."""
    cases = []
    up, dn = (lambda x: math.nextafter(x, math.inf)), (lambda x: math.nextafter(x, -math.inf))
    for k in range(len(H.NEAR_KINDS) * (1 if tier == 'quick' else 4)):
        rng = C.rng_for(seed, PROP, 'near', k)
        kind = H.NEAR_KINDS[k % len(H.NEAR_KINDS)]
        n = rng.choice([2, 3, 4, 5, 6])
        i = rng.randrange(0, n - 1)
        while True:
            zk = H.gen_knots(rng, n)
            if k % 3 == 2 or zk[i + 1] - zk[i] >= 5.0:
                break
        Ka, Kb = H.rounding_neighbour(rng, kind)
        if k % 4 == 3:
            K = H.gen_conductivities(rng, n, 'random')
        else:
            K = [H.round_sig(H.loguniform(rng, 1e-4, max(1e-3, 0.1 * min(Ka, Kb))), 3) for _ in range(n)]
        K[i], K[i + 1] = Ka, Kb
        Tmin = H.round_sig(H.loguniform(rng, 1e-4, 1e2), rng.choice([2, 4]))
        z0, zn, u = zk[0], zk[-1], zk[i + 1]
        levels = H.levels_for(rng, zk, 7)
        levels += [dn(u), u, zn, dn(zn), 0.5 * (zk[i] + u), zk[i], up(zk[i])]
        if u < zn:
            levels += [up(u), 0.5 * (u + zk[i + 2]), u + 1e-3 * (zk[i + 2] - u)]
        levels = [z for j, z in enumerate(levels) if z <= zn and z not in levels[:j]]
        above = [up(zn), zn + 1e-3 * (zn - z0), zn + 0.7 * (zn - z0) + 1.0]
        rng.shuffle(above)
        cases.append(dict(cls='near-equal/' + kind, zk=zk, K=K, Tmin=Tmin, levels=levels, above=above[:2],
                          form=rng.choice(['float', 'np']), via=('class', 'factory')[k % 2],
                          coq_levels=sorted({u, zn})))
    return cases


# ------------------------------------------------------------- one long array of levels (wave 5, oracle only)

def long_cases(seed, tier):
    """ONE call with an array (ndarray / list / tuple / generator-free iterable) of 1024-5000 levels drawn from a pool
    of ~100 distinct levels of the knot range (at, beside and between the knots, below the lowest knot), sizes at and
    past 1024 / 2048 / 4096 and not a multiple of a block size, shuffled / ascending / descending / a slow wave;
    unless sorted, levels with a large transmissivity sit around indices 1000, 1024, 2048, 3072, 4096."""
    cases = []
    bands = [0, 1, 2] if tier == 'quick' else [0, 1, 2, 3, 0, 1, 2, 0, 1]
    for k, band in enumerate(bands):
        rng = C.rng_for(seed, PROP, 'long', k)
        c = gen_case(rng, k + seed, 9)
        zk = c['zk']
        z0, zn = zk[0], zk[-1]
        pool = set(H.levels_for(rng, zk, 60)) | {z0 + (zn - z0) * j / 31.0 for j in range(32)}
        pool |= {z0 - 1.0, z0 - 250.0}
        pool = sorted(z for z in pool if z <= zn)
        high = [zn, math.nextafter(zn, -math.inf), 0.5 * (zk[-2] + zn), zk[-2] if len(zk) > 2 else 0.5 * (z0 + zn)]
        order = H.LONG_ORDERS[(seed + k) % len(H.LONG_ORDERS)]
        cases.append(dict(level='long', cls='long/' + c['cls'], zk=zk, K=c['K'], Tmin=c['Tmin'], order=order,
                          form=('ndarray', 'list', 'ndarray', 'tuple')[(seed + k) % 4],
                          levels=H.long_array_from_pool(rng, pool, H.long_size(rng, band), order, high)))
    return cases


def check_long(cases, out):
    for c in cases:
        zk, K, Tmin, lv = c['zk'], c['K'], c['Tmin'], c['levels']
        n = len(lv)
        tail = 'knots=%s K=%s Tmin=%r' % (zk, K, Tmin)
        st, T = build(zk, K, Tmin)
        if st == 'err':
            out.violation('oracle', 'a spline transmissivity is refused (%s): %s' % (T, tail), case=c)
            continue
        out.count('long:n>%d:%s:%s' % (max(b for b in (0,) + H.BLOCK_BOUNDARIES if n > b or b == 0), c['order'], c['form']))
        vals, ok = {}, True
        for z in sorted(set(lv)):
            out.evaluations += 1
            st, v = call(T, float(z))
            want = ref_value(zk, K, Tmin, z)
            if st == 'err' or not close(float(v), want):
                out.violation('oracle', 'transmissivity at level %r: %s %r, minimum + integral of the log-linear '
                              'conductivity is %r: %s' % (z, st, v, want, tail), case=dict(c, levels=[z]))
                ok = False
                break
            vals[z] = float(v)
        if not ok:
            continue
        arg = {'ndarray': np.array, 'list': list, 'tuple': tuple}[c['form']](lv)
        pristine = arg.tobytes() if isinstance(arg, np.ndarray) else repr(arg)
        st, arr = call(T, arg)
        out.evaluations += n
        if (arg.tobytes() if isinstance(arg, np.ndarray) else repr(arg)) != pristine:
            out.violation('oracle', 'the caller\'s levels (one %s of %d levels) were modified by the call: %s'
                          % (c['form'], n, tail), case=c)
            continue
        if st == 'err' or np.shape(arr) != (n,):
            out.violation('oracle', 'ONE call with a %s of %d levels at or below the highest knot (%s): %s' % (
                c['form'], n, c['order'], ('refused (%s)' % arr) if st == 'err' else 'answer of shape %r' % (np.shape(arr),))
                + ': ' + tail, case=c)
            continue
        got = [float(x) for x in arr]
        bad = [i for i in range(n) if got[i] != vals[lv[i]]]
        if bad:
            i = bad[0]
            out.violation('oracle', 'ONE call with a %s of %d levels (%s): element %d, level %r, is %r; the scalar call at '
                          'that level gives %r (%d elements differ, at indices %r): %s'
                          % (c['form'], n, c['order'], i, lv[i], got[i], vals[lv[i]], len(bad), bad[:8], tail), case=c)
            continue
        if not (isinstance(arr, np.ndarray) and arr.dtype == np.float64):
            out.violation('oracle', 'array path does not return a float64 array', case=c)
        if c['order'] in ('ascending', 'descending'):
            seq = got if c['order'] == 'ascending' else got[::-1]
            for i, (a, b) in enumerate(zip(seq, seq[1:])):
                if b < a - (2 * REL * max(abs(a), abs(b)) + 2 * ABS):
                    out.violation('oracle', 'the values of a sorted array of %d levels are not monotone at element %d '
                                  '(%r then %r): %s' % (n, i, a, b, tail), case=c)
                    break
        out.nontriv(('long', tuple(zk), n, c['order']))


# ------------------------------------------------------------- an attribute given a new value on a live object (wave 5)

def reassign_cases(seed, tier):
    """SplineTransmissivity reads minimum_transmissivity_m2_d (a documented attribute, in __slots__) at every call:
    a function whose minimum is given a new value (a calibration loop) is the function with that minimum."""
    cases = []
    for k in range(6 if tier == 'quick' else 40):
        rng = C.rng_for(seed, PROP, 'reassign', k)
        c = gen_case(rng, k, 7)
        news = [H.round_sig(c['Tmin'] * rng.choice([10.0, 0.1, 3.0]), 3), H.round_sig(H.loguniform(rng, 1e-4, 1e5), 3),
                c['Tmin']]
        cases.append(dict(level='reassign', zk=c['zk'], K=c['K'], Tmin=c['Tmin'], news=news, levels=c['levels']))
    return cases


def check_reassign(cases, out):
    for c in cases:
        zk, K = c['zk'], c['K']
        st, T = build(zk, K, c['Tmin'])
        if st == 'err':
            continue
        cur, history = c['Tmin'], []
        for new in [None] + list(c['news']):
            if new is not None:
                try:
                    T.minimum_transmissivity_m2_d = new
                except AttributeError:
                    out.count('reassign:refused')      # a function that cannot be given a new minimum answers nothing wrongly
                    break
                history.append(new)
                cur = new
                out.count('reassign:minimum_transmissivity_m2_d')
            st2, fresh = build(zk, K, cur)
            who = ('spline transmissivity built with minimum %r%s (knots=%s K=%s)'
                   % (c['Tmin'], ''.join(', then minimum_transmissivity_m2_d = %r' % h for h in history), zk, K))
            ok = True
            for z in c['levels']:
                out.evaluations += 1
                a, b = call(T, float(z)), call(fresh, float(z))
                want = ref_value(zk, K, cur, z)
                if a[0] == 'err' or not close(float(a[1]), want) or a != b:
                    out.violation('oracle', '%s gives %s %r at level %r; its attributes say minimum %r: minimum + integral '
                                  'is %r, a function freshly built with these attributes gives %s %r'
                                  % (who, a[0], a[1], z, cur, want, b[0], b[1]), case=c)
                    ok = False
                    break
            if ok:
                a, b = call(T, np.array(c['levels'], dtype=float)), call(fresh, np.array(c['levels'], dtype=float))
                out.evaluations += 1
                if a[0] == 'err' or b[0] == 'err' or [float(x) for x in a[1]] != [float(x) for x in b[1]]:
                    out.violation('oracle', '%s: array call gives %s %s, a function freshly built with the same attributes '
                                  'gives %s %s' % (who, a[0], a[1], b[0], b[1]), case=c)
                    ok = False
            if not ok:
                break


def check_malformed(cases, out, label):
    goals, meta = [], []
    for c in cases:
        out.evaluations += 1
        out.count('knots:' + c['cls'])
        st, T = build(c['zk'], c['K'], c['Tmin'])
        got = 'Ok %s' % H.cRpairs(c['zk'], c['K']) if st == 'ok' else 'Err %s' % T
        if st == 'ok':
            out.violation('oracle', 'constructor accepts a knot set outside the quantified domain: knots=%s K=%s'
                          % (c['zk'], c['K']), case=dict(level='malformed', **c))
        goals.append(('construct %s = %s' % (H.cRpairs(c['zk'], c['K']), got), 'construct_eval', 'reflexivity'))
        meta.append((c, got))
    status, errs, _ = H.run_goals(PROP, label, MODULES, goals, per_file=20)
    out.corr_errors += errs
    for (c, got), s in zip(meta, status):
        if s != 'OK':
            out.violation('corr', 'model construct <> SplineTransmissivity constructor (%s) on knots=%s K=%s'
                          % (got, c['zk'], c['K']), case=dict(level='malformed', **c))


def run(ctx, out):
    C.import_spowtd()
    seed, tier = ctx['seed'], ctx['tier']
    rng = C.rng_for(seed, PROP)
    nsets, nlev = (14, 7) if tier == 'quick' else (110, 9)
    cases = [SHIPPED, SPIKY_WITNESS] + [gen_case(rng, k, nlev) for k in range(nsets)]
    cases += [gen_case(rng, H.K_SHAPES.index('spiky'), nlev) for _ in range(3 if tier == 'quick' else 12)]
    # added classes, each from its own stream (the cases above are what they were)
    rx, rz, rs = (C.rng_for(seed, PROP, tag) for tag in ('made-through', 'zero-knot', 'yaml-str'))
    cases += [gen_extra_case(rx, k, nlev) for k in range(9 if tier == 'quick' else 48)]
    cases += [gen_zero_case(rz, k, nlev) for k in range(8 if tier == 'quick' else 48)]
    cases += [gen_str_case(rs, k, nlev) for k in range(3 if tier == 'quick' else 12)]
    cases += near_cases(seed, tier)
    check_cases(cases, out, 'fl')
    check_long(long_cases(seed, tier), out)
    check_reassign(reassign_cases(seed, tier), out)
    check_malformed(malformed_cases(rng, 12 if tier == 'quick' else 60), out, 'malformed')
    check_history(C.rng_for(seed, PROP, 'history'), 40 if tier == 'quick' else 300, out)
    out.rule = ('(knot set, level) pairs through SplineTransmissivity: 2-8 knots with spacings 0.5-500 mm, '
                'conductivities 1e-4..1e5 in 7 shapes (random, rising, falling, equal adjacent pair, at the bounds, '
                'sawtooth, factors near 1); levels below / at / one ulp above the lowest knot, at and one ulp beside '
                'every knot, inside segments, one ulp below and at the highest knot, above it; scalar (float, '
                'np.float64, int) and array (ndarray, list). Non-trivial: a level strictly above the second knot '
                'and at or below the highest knot of a set with >= 3 knots (at least two segments contribute); '
                'distinct by (knots, K, Tmin, level). Added classes (own random streams; every level through the '
                'oracle, a middle level and the highest knot of each through Coq): functions made through '
                'create_transmissivity_function, through yaml.safe_load of a parameter text (numbers written as '
                'yaml.safe_dump / repr / without a dot -> Python int / PEST notation) and through `spowtd simulate '
                'recession` (callable captured at compute_recession_curve), with conductivities 1e-7..1e8, i.e. '
                'inside, at and outside the PEST bounds [1e-4, 1e5]; knot sets with a knot at exactly 0.0 (lowest, '
                'second, middle, highest) incl. a long quiet segment below it and a narrow steep one above it, '
                'levels 0.0 and -0.0; one number of the text written like 1e-05 (a string for YAML 1.1: refusal '
                'or the right value). Every float64 array handed over is kept, compared bit-for-bit afterwards '
                'and handed over a second time (writable, read-only, strided, reversed view). Wave 5 (own random '
                'streams): two ADJACENT knots whose conductivities differ by rounding only (0.3 next to 0.1 * 3, 1-3 '
                'ulps, ratios 1 +- 1e-15 .. 1e-6; mostly on the thick conductive segment) with levels one ulp below / '
                'at / one ulp above the upper knot of the pair - every level through the oracle (value, monotone, '
                'increments), the upper knot of the pair and the highest knot through Coq; ONE call with an ndarray / '
                'list / tuple of 1024-5000 levels (exactly 1024, and sizes past 1024 / 2048 / 4096 that are no multiple '
                'of a block size; shuffled / ascending / descending / a slow wave; large values planted around indices '
                '1000, 1024, 2048, 3072, 4096) compared element by element with the scalar calls - ORACLE ONLY, '
                'nothing of that size is sent to Coq; minimum_transmissivity_m2_d (read at every call by the unchanged '
                'code) given new values on a live object: afterwards the function equals a freshly built one with the '
                'same attributes and its own minimum + integral.')
    out.samples = [dict(knots=c['zk'], K=c['K'], Tmin=c['Tmin'], levels=c['levels'][:4]) for c in cases[:3]]
    out.assumptions += [
        'scipy.integrate.quad (QUADPACK) is an oracle: "evaluates the integrand strictly inside the interval and '
        'returns the integral"; tested on every run by comparing its result with the certified closed form '
        '(1e-6 relative + 1e-9) and with an independent Gauss-Legendre quadrature',
        'FITPACK order-1 spline through the points = the polygon through the points (tested by the same comparison)',
        'inputs are floats; the model is over the reals on the exact dyadic values of those floats; the float '
        'arithmetic of the implementation is covered by the tolerance, not modelled',
        'Coq Interval library (certified enclosures of exp, ln)']


def replay(case, out):
    C.import_spowtd()
    if case.get('level') == 'history':
        check_history(C.rng_for(0, PROP, 'history'), 60, out)
    elif case.get('level') == 'malformed':
        check_malformed([case], out, 'replay')
    elif case.get('level') == 'long':
        check_long([case], out)
    elif case.get('level') == 'reassign':
        check_reassign([case], out)
    else:
        check_cases([{k: v for k, v in case.items() if k not in ('coq_max', 'coq_levels')}], out, 'replay')    # every level through Coq
