"""C05 — alignment offsets minimise the squared spread.

FL: fit_offsets.find_offsets(head_mapping) on generated connected overlap graphs,
compared inside Coq with the exact-rational model (Model/FitOffsets.v) within a
tolerance; oracle with exact fractions: residual sums of the implementation's
offsets vanish (within tolerance) and no random perturbation lowers the spread.
CL: the tables written by `spowtd rise` / `spowtd recession` satisfy the same
zero-residual-sum condition.
"""
import copy
from fractions import Fraction

import numpy as np

from harness import common as C
from harness import gen_offsets as GO

PROP = 'C05'
MODELS = ['Model/FitOffsets.vo']   # .vo files the generated case files import
PRE = 'From Spowtd Require Import Model.FitOffsets.\n'


def hm_lit(hm):
    return C.clist(['(%s, %s)' % (C.cZ(h), C.clist(['(%s%%nat, %s)' % (C.cnat(s), C.cQ(t)) for s, t in seq]))
                    for h, seq in hm.items()])


def impl_find_offsets(hm):
    import spowtd.fit_offsets as fo
    try:
        ids, offs = fo.find_offsets(copy.deepcopy(hm))
        return ('ok', [int(i) for i in ids], [float(v) for v in offs])
    except Exception as e:  # pylint: disable=broad-except
        return ('err', C.err_of(e), repr(e))


def scale_of(hm):
    return 1.0 + max([abs(t) for seq in hm.values() for _, t in seq] + [0.0])


def check_fl(cases, out, label):
    strs, meta = [], []
    for hm, truth in cases:
        out.evaluations += 1
        out.count('FL:' + truth.get('shape', '?'))
        case = dict(level='FL', hm={str(h): seq for h, seq in hm.items()})
        res = impl_find_offsets(hm)
        tol = 1e-9 * scale_of(hm)
        multi = {h: seq for h, seq in hm.items() if len(seq) >= 2}
        if res[0] == 'err':
            if multi and len(GO.components(multi)) == 1:
                out.violation('oracle', 'find_offsets raised %s on a connected overlap graph: %s' % (res[2], hm), case=case)
            impl = '(Err %s)' % res[1]
            out.count('FL-error-' + res[1])
        else:
            ids, offs = res[1], res[2]
            x = {s: Fraction(v) for s, v in zip(ids, offs)}
            total, resid = GO.spread(hm, x)
            worst = max([abs(r) for r in resid.values()] + [Fraction(0)])
            nrows = sum(len(seq) for seq in multi.values())
            if worst > Fraction(tol) * 100 * max(1, nrows):
                out.violation('oracle', 'residuals of interval(s) do not sum to zero: max |sum| = %.3g for offsets %s '
                              'on mapping %s' % (float(worst), offs, hm), case=case)
            else:
                rng = C.rng_for(len(strs), PROP, 'perturb')
                for _ in range(6):
                    y = {s: v + Fraction(rng.randrange(-64, 65), 64) * (1 if rng.random() < 0.7 else 0) for s, v in x.items()}
                    ty, _ = GO.spread(hm, y)
                    if ty < total - Fraction(tol) * Fraction(tol):
                        out.violation('oracle', 'a perturbation lowers the squared spread: %.12g -> %.12g on %s'
                                      % (float(total), float(ty), hm), case=case)
                        break
            if offs and offs[-1] != 0.0:
                out.violation('oracle', 'reference interval (largest id) does not have offset 0: %s' % offs, case=case)
            if len(ids) >= 3 and any(len(seq) >= 3 for seq in hm.values()):
                out.nontriv(('fl', str(sorted(hm.items()))))
            impl = '(Ok (%s, %s))' % (C.clist([C.cnat(i) + '%nat' for i in ids]), C.cQs(offs))
        strs.append('(%s, %s, %s)' % (hm_lit(hm), C.cQ(tol), impl))
        meta.append(case)
    bad, errs, _ = C.run_case_shards(
        PROP, label, PRE, 'head_mapping * Q * res (list nat * list Q)',
        'fun c => match c with (hm, tol, impl) => match find_offsets hm, impl with '
        '| Ok (ids, offs), Ok (iids, ioffs) => list_eqb Nat.eqb ids iids && close_enough tol offs ioffs '
        '| Err a, Err b => err_eqb a b | _, _ => false end end', strs, shard=150)
    out.corr_errors += errs
    for i in bad:
        out.violation('corr', 'model find_offsets <> fit_offsets.find_offsets (beyond tolerance) on %s'
                      % str(meta[i])[:800], case=meta[i])


def check_cl(out, seed, n):
    """Tables written by rise / recession satisfy the zero-residual-sum condition."""
    from harness import curves_common as CC
    for k in range(n):
        r = CC.build_dataset(PROP, C.rng_for(seed, PROP, 'cl', k), steps=('rise', 'recession'))
        out.evaluations += 1
        out.count('CL:' + r['status'])
        if r['status'] != 'ok':
            continue
        case = dict(level='CL', plan=r['plan'])
        for kind in ('rising', 'recession'):
            offs, zeta = r[kind + '_interval'], r[kind + '_interval_zeta']
            if not offs:
                continue
            hm = {}
            for start, zn, t in zeta:
                hm.setdefault(zn, []).append((start, t))
            x = {s: Fraction(v) for s, v in offs.items()}
            if set(x) != {s for seq in hm.values() for s, _ in seq}:
                out.violation('oracle', '%s: intervals with offsets %s differ from intervals with crossings' % (kind, sorted(x)), case=case)
                continue
            total, resid = GO.spread(hm, x)
            scale = 1.0 + max(abs(t) for _, _, t in zeta)
            worst = max([abs(v) for v in resid.values()] + [Fraction(0)])
            if worst > Fraction(1e-7 * scale) * max(1, len(zeta)):
                out.violation('oracle', '%s tables: residuals of an interval against the master curve do not sum to zero '
                              '(max |sum| %.3g, %d intervals, %d rows)' % (kind, float(worst), len(x), len(zeta)), case=case)
            if len(x) >= 3:
                out.nontriv(('cl', kind, str(sorted(x))))


def run(ctx, out):
    C.import_spowtd()
    seed, tier = ctx['seed'], ctx['tier']
    rng = C.rng_for(seed, PROP)
    nfl, ncl = (450, 12) if tier == 'quick' else (4500, 120)
    cases = [GO.gen_head_mapping(rng) for _ in range(nfl)]
    cases += [({}, dict(shape='empty')), ({3: [(0, 1.0)]}, dict(shape='single')),
              ({3: [(0, 1.0), (1, 2.5)]}, dict(shape='two'))]
    check_fl(cases, out, 'fl')
    try:
        check_cl(out, seed, ncl)
    except ImportError:
        out.notes.append('CL part unavailable (curves_common missing)')
    out.rule = ('FL: generated connected overlap graphs (chain / star / random, 2-8 intervals, levels crossed by 1..8 '
                'intervals, dyadic crossing values with noise) through find_offsets; CL: synthetic datasets through '
                'the CLI up to rise/recession. Non-trivial: >= 3 intervals and a level crossed by >= 3 of them; '
                'distinct by mapping.')
    out.samples = [dict(level='FL', mapping={str(h): s for h, s in cases[0][0].items()})]
    out.assumptions += ['numpy.linalg.solve in binary64 agrees with the exact solution within 1e-9*(1+max|t|) on the '
                        'generated well-conditioned systems (tested, not proved)',
                        'completeness of Gauss-Jordan elimination in the model is not proved (a failure would show as a '
                        'correspondence disagreement)']


def replay(case, out):
    C.import_spowtd()
    if case['level'] == 'FL':
        hm = {int(h): [(int(s), float(t)) for s, t in seq] for h, seq in case['hm'].items()}
        check_fl([(hm, dict(shape='replay'))], out, 'replay')
    else:
        from harness import curves_common as CC
        r = CC.build_from_plan(PROP, case['plan'], steps=('rise', 'recession'))
        out.notes.append('replayed CL plan: %s' % r['status'])
        check_cl_one = None  # CL replays re-run the whole CL oracle on that plan
        _ = check_cl_one
