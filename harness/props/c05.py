"""C05 — alignment offsets minimise the squared spread.

FL: fit_offsets.find_offsets(head_mapping) on generated connected overlap graphs,
compared inside Coq with the exact-rational model (Model/FitOffsets.v) within a
tolerance; oracle with exact fractions: residual sums of the implementation's
offsets vanish (within tolerance) and no random perturbation lowers the spread.
CL: the tables written by `spowtd rise` / `spowtd recession` satisfy the same
zero-residual-sum condition.
"""
import copy
import math
import os
from fractions import Fraction

os.environ.setdefault('OPENBLAS_NUM_THREADS', '1')   # (before numpy is loaded: a busy machine makes threaded BLAS 100x slower on the large cases)
import numpy as np  # noqa: E402

from harness import common as C
from harness import gen_offsets as GO

PROP = 'C05'
MODELS = ['Model/FitOffsets.vo']   # .vo files the generated case files import
PRE = 'From Spowtd Require Import Model.FitOffsets.\n'


def hm_lit(hm):
    return C.clist(['(%s, %s)' % (C.cZ(h), C.clist(['(%s%%nat, %s)' % (C.cnat(s), C.cQ(t)) for s, t in seq]))
                    for h, seq in hm.items()])


def impl_find_offsets(hm):
    import spowtd.fit_offsets as fo
    try:
        ids, offs = fo.find_offsets(copy.deepcopy(hm))
        return ('ok', [int(i) for i in ids], [float(v) for v in offs])
    except Exception as e:  # pylint: disable=broad-except
        return ('err', C.err_of(e), repr(e))


def scale_of(hm):
    return 1.0 + max([abs(t) for seq in hm.values() for _, t in seq] + [0.0])


def check_fl(cases, out, label):
    strs, meta = [], []
    for hm, truth in cases:
        out.evaluations += 1
        out.count('FL:' + truth.get('shape', '?'))
        case = dict(level='FL', hm={str(h): seq for h, seq in hm.items()})
        res = impl_find_offsets(hm)
        tol = 1e-9 * scale_of(hm)
        multi = {h: seq for h, seq in hm.items() if len(seq) >= 2}
        if res[0] == 'err':
            if multi and len(GO.components(multi)) == 1:
                out.violation('oracle', 'find_offsets raised %s on a connected overlap graph: %s' % (res[2], hm), case=case)
            impl = '(Err %s)' % res[1]
            out.count('FL-error-' + res[1])
        else:
            ids, offs = res[1], res[2]
            x = {s: Fraction(v) for s, v in zip(ids, offs)}
            total, resid = GO.spread(hm, x)
            worst = max([abs(r) for r in resid.values()] + [Fraction(0)])
            nrows = sum(len(seq) for seq in multi.values())
            if worst > Fraction(tol) * 100 * max(1, nrows):
                out.violation('oracle', 'residuals of interval(s) do not sum to zero: max |sum| = %.3g for offsets %s '
                              'on mapping %s' % (float(worst), offs, hm), case=case)
            else:
                rng = C.rng_for(len(strs), PROP, 'perturb')
                for _ in range(6):
                    y = {s: v + Fraction(rng.randrange(-64, 65), 64) * (1 if rng.random() < 0.7 else 0) for s, v in x.items()}
                    ty, _ = GO.spread(hm, y)
                    if ty < total - Fraction(tol) * Fraction(tol):
                        out.violation('oracle', 'a perturbation lowers the squared spread: %.12g -> %.12g on %s'
                                      % (float(total), float(ty), hm), case=case)
                        break
            if offs and offs[-1] != 0.0:
                out.violation('oracle', 'reference interval (largest id) does not have offset 0: %s' % offs, case=case)
            if len(ids) >= 3 and any(len(seq) >= 3 for seq in hm.values()):
                out.nontriv(('fl', str(sorted(hm.items()))))
            impl = '(Ok (%s, %s))' % (C.clist([C.cnat(i) + '%nat' for i in ids]), C.cQs(offs))
        strs.append('(%s, %s, %s)' % (hm_lit(hm), C.cQ(tol), impl))
        meta.append(case)
    bad, errs, _ = C.run_case_shards(
        PROP, label, PRE, 'head_mapping * Q * res (list nat * list Q)',
        'fun c => match c with (hm, tol, impl) => match find_offsets hm, impl with '
        '| Ok (ids, offs), Ok (iids, ioffs) => list_eqb Nat.eqb ids iids && close_enough tol offs ioffs '
        '| Err a, Err b => err_eqb a b | _, _ => false end end', strs, shard=150)
    out.corr_errors += errs
    for i in bad:
        out.violation('corr', 'model find_offsets <> fit_offsets.find_offsets (beyond tolerance) on %s'
                      % str(meta[i])[:800], case=meta[i])


def bucket(x):
    """Decade label of a positive number (for the histograms of the evidence)."""
    return '1e%d' % math.floor(math.log10(x)) if x > 0 else '0'


def check_large(cases, out):
    """LARGE-INPUT STAGE, oracle only (these mappings are NOT sent to Coq: reading thousands of literals dominates).
    Mappings past the sizes at which software chunks its work (more than 4096 / 8192 equations, the count not a
    multiple of 1000, 1024, 4096, 8192, 10000) and ill-conditioned connected ones (staircase of single-level links
    + long intervals, sigma_min/sigma_max of the design matrix measured and recorded).  Judged with exact fractions
    on the offsets find_offsets returns: (1) every interval's residuals against the master curve sum to zero within
    1e-9 * magnitude * sqrt(equations); (2) the spread is not larger than the spread of an independent minimiser
    (gen_offsets.independent_offsets: projector form of the stationarity conditions, another interval grounded);
    (3) noise-free plants: the offsets are the planted constants up to the common shift."""
    for hm, truth in cases:
        out.evaluations += 1
        neq = GO.n_equations(hm)
        out.count('FL-large:' + truth.get('shape', '?'))
        out.count('FL-large: %d000-%d999 equations' % (neq // 1000, neq // 1000))
        if neq > 4096 and all(neq % b for b in GO.BLOCKS):
            out.count('FL-large: > 4096 equations, no multiple of 1000/1024/4096/8192/10000')
        case = dict(level='FLL', hm={str(h): seq for h, seq in hm.items()}, shape=truth.get('shape'),
                    planted={str(k): v for k, v in truth['planted'].items()} if truth.get('planted') else None)
        ratio = GO.singular_ratio(hm)
        out.count('FL-large: sigma_min/sigma_max of the design matrix in [%s, 10x)' % bucket(ratio))
        what = '%d equations, %d intervals, sigma_min/sigma_max %.3g (%s)' % (
            neq, len({s for seq in hm.values() for s, _ in seq}), ratio, truth.get('shape'))
        res = impl_find_offsets(hm)
        if res[0] == 'err':
            out.violation('oracle', 'find_offsets raised %s on a connected overlap graph: %s' % (res[2], what), case=case)
            continue
        ids, offs = res[1], res[2]
        scale = scale_of(hm)
        x = {s: Fraction(v) for s, v in zip(ids, offs)}
        if set(x) != {s for seq in hm.values() if len(seq) >= 2 for s, _ in seq}:
            out.violation('oracle', 'find_offsets returns offsets for %d intervals, %d cross a shared level: %s'
                          % (len(x), len({s for seq in hm.values() if len(seq) >= 2 for s, _ in seq}), what), case=case)
            continue
        total, resid = GO.spread(hm, x)
        wi = max(resid, key=lambda s_: abs(resid[s_]))
        tol_r = 1e-9 * scale * math.sqrt(neq)
        bad = False
        if abs(resid[wi]) > tol_r:
            bad = True
            out.violation('oracle', 'the residuals of interval %d against the master curve sum to %.6g, not 0 (tolerance %.3g): %s'
                          % (wi, float(resid[wi]), tol_r, what), case=case)
        y = GO.independent_offsets(hm)
        ty, _ = GO.spread(hm, {s: Fraction(v) for s, v in y.items()})
        if total - ty > Fraction(1e-9) * ty + Fraction((1e-9 * scale) ** 2 * neq):
            bad = True
            out.violation('oracle', 'the offsets do not minimise the squared spread: %.12g with the returned offsets, %.12g with '
                          'independently computed ones: %s' % (float(total), float(ty), what), case=case)
        if offs and offs[-1] != 0.0:
            out.violation('oracle', 'reference interval (largest id) does not have offset 0: %r' % offs[-1], case=case)
        planted = truth.get('planted')
        if planted:
            ref = ids[-1]
            pos = {s_: i for i, s_ in enumerate(ids)}
            dev = {s_: abs((offs[pos[s_]] - offs[pos[ref]]) - (planted[s_] - planted[ref])) for s_ in ids}
            worst = max(dev, key=dev.get)
            if dev[worst] > 1e-6 * scale:
                bad = True
                out.violation('oracle', 'noise-free plant: interval %d is placed %.6g away from where its planted constant puts '
                              'it relative to the reference (all pieces lie on one curve): %s' % (worst, dev[worst], what), case=case)
        if not bad and len(ids) >= 3:
            out.nontriv(('fll', truth.get('shape'), neq, len(ids)))


def check_series(cols, out, label):
    """FL through fit_offsets.get_series_time_offsets: what it RETURNS (indices, offsets, mapping) must satisfy
    the property - every interval that has crossings has an offset, residual sums vanish, no perturbation lowers
    the spread (exact fractions) - on interval collections that include exact ties of the initial level among the
    top intervals.  Correspondence: the exact model of find_offsets on the returned mapping gives the returned
    offsets up to the common shift."""
    from harness.props import c08 as P8
    strs, meta = [], []
    for n_case, (series, grid, _planted) in enumerate(cols):
        out.evaluations += 1
        firsts = sorted((float(H[0]) for _, H in series), reverse=True)
        tied = len(firsts) >= 2 and firsts[0] == firsts[1]
        out.count('FLS:%s' % ('tie for the highest initial level' if tied else 'no tie at the top'))
        case = dict(level='FLS', grid=grid, series=[[t.tolist(), H.tolist()] for t, H in series])
        res = P8.run_impl(series, grid)
        if res[0] == 'err':
            out.count('FLS-error-' + res[1])
            body, _ = P8.main_body(series, grid)
            if body is not None and len(body) >= 2:
                out.violation('oracle', 'get_series_time_offsets raised %s although %d intervals overlap' % (res[2], len(body)), case=case)
            continue
        _, idx, offs, hm = res
        in_map = {s for seq in hm.values() for s, _ in seq}
        if len(idx) != len(offs) or len(set(idx)) != len(idx) or set(idx) != in_map:
            out.violation('oracle', 'get_series_time_offsets: intervals with offsets %s (%d offsets) differ from the intervals '
                          'with crossings %s' % (sorted(idx), len(offs), sorted(in_map)), case=case)
            continue
        x = {s: Fraction(v) for s, v in zip(idx, offs)}
        tol = 1e-9 * scale_of(hm)
        total, resid = GO.spread(hm, x)
        worst = max([abs(r) for r in resid.values()] + [Fraction(0)])
        nrows = sum(len(seq) for seq in hm.values() if len(seq) >= 2)
        if worst > Fraction(tol) * 100 * max(1, nrows):
            wi = max(resid, key=lambda s_: abs(resid[s_]))
            out.violation('oracle', 'get_series_time_offsets: the residuals of interval %d against the master curve sum to '
                          '%.6g, not 0 (offsets %s for intervals %s%s)' % (wi, float(resid[wi]), offs, idx,
                                                                           '; two intervals start from the same highest level' if tied else ''),
                          case=case)
        else:
            rng = C.rng_for(n_case, PROP, 'perturb-series')
            for _ in range(4):
                y = {s: v + Fraction(rng.randrange(-64, 65), 64) * (1 if rng.random() < 0.7 else 0) for s, v in x.items()}
                ty, _ = GO.spread(hm, y)
                if ty < total - Fraction(tol) * Fraction(tol):
                    out.violation('oracle', 'get_series_time_offsets: a perturbation of the returned offsets lowers the squared '
                                  'spread: %.12g -> %.12g' % (float(total), float(ty)), case=case)
                    break
        if tied and len(idx) >= 3 and sum(1 for s in idx if float(series[s][1][0]) == firsts[0]) >= 2:
            out.nontriv(('fls', str(case['series'])[:400]))
        if n_case % 2 and len(cols) > 1:
            continue                # (the exact model is slow on epoch-sized crossing values: every second case; C08 runs its own correspondence on get_series_time_offsets)
        ids = sorted(idx)
        rel = [float(x[s] - x[ids[-1]]) for s in ids]
        strs.append('(%s, %s, %s)' % (hm_lit(hm), C.cQ(1e-7 * scale_of(hm)), C.cQs(rel)))
        meta.append(case)
    bad, errs, _ = C.run_case_shards(
        PROP, label, PRE + 'Close Scope Q_scope.\n', 'head_mapping * Q * list Q',
        'fun c => match c with (hm, tol, rel) => match find_offsets hm with '
        '| Ok (_, offs) => close_enough tol offs rel | Err _ => false end end', strs, shard=6)
    out.corr_errors += errs
    for i in bad:
        out.violation('corr', 'model find_offsets on the returned mapping <> offsets returned by get_series_time_offsets '
                      '(up to the common shift)', case=meta[i])


def check_cl(out, seed, n):
    """Tables written by rise / recession satisfy the zero-residual-sum condition."""
    from harness import curves_common as CC
    # every third plan: two recessions start from exactly the same highest level (a tie for the reference interval),
    # with noise on the later samples (without it the tied pieces are congruent and have the same offset)
    plans = [CC.make_plan(C.rng_for(seed, PROP, 'cl', k), tie_top=(k % 3 == 1), noise=(k % 3 == 1)) for k in range(n)]
    # records whose highest level is positive and off the grid lines, the top grid level crossed by >= 2 rises and
    # >= 2 recessions (the last level of discrete_zeta carries part of the master curve); own random streams
    plans += [CC.make_plan(C.rng_for(seed, PROP, 'cl-top', k), top_cell=True, noise=(k % 2 == 0),
                           grid_step=CC.GRID_STEPS[k % len(CC.GRID_STEPS)]) for k in range(max(4, n // 3))]
    check_cl_plans(plans, out)


def check_cl_plans(plans, out):
    from harness import curves_common as CC
    for plan in plans:
        r = CC.build_from_plan(PROP, plan, steps=('rise', 'recession'))
        out.evaluations += 1
        out.count('CL:' + r['status'])
        out.count('CL:two recessions from the same highest level=%s' % bool(plan.get('tie_top')))
        if plan.get('top_cell'):
            out.count('CL:highest level positive and off the grid lines, top grid level crossed by >= 2 rises and >= 2 recessions')
        if r['status'] != 'ok':
            continue
        case = dict(level='CL', plan=r['plan'])
        # the master curve the residuals are taken against is the one the views show: it must be the level means
        # of (offset + crossing) over the rows of the tables, at every level the aligned intervals cross
        for msg in CC.view_table_complaints(r):
            out.violation('oracle', 'master curve (view) <> tables written by rise/recession: ' + msg, case=case)
        for kind in ('rising', 'recession'):
            offs, zeta = r[kind + '_interval'], r[kind + '_interval_zeta']
            if not offs:
                continue
            hm = {}
            for start, zn, t in zeta:
                hm.setdefault(zn, []).append((start, t))
            x = {s: Fraction(v) for s, v in offs.items()}
            if set(x) != {s for seq in hm.values() for s, _ in seq}:
                out.violation('oracle', '%s: intervals with offsets %s differ from intervals with crossings' % (kind, sorted(x)), case=case)
                continue
            total, resid = GO.spread(hm, x)
            scale = 1.0 + max(abs(t) for _, _, t in zeta)
            worst = max([abs(v) for v in resid.values()] + [Fraction(0)])
            if worst > Fraction(1e-7 * scale) * max(1, len(zeta)):
                out.violation('oracle', '%s tables: residuals of an interval against the master curve do not sum to zero '
                              '(max |sum| %.3g, %d intervals, %d rows)' % (kind, float(worst), len(x), len(zeta)), case=case)
            if len(x) >= 3:
                out.nontriv(('cl', kind, str(sorted(x))))


def run(ctx, out):
    C.import_spowtd()
    seed, tier = ctx['seed'], ctx['tier']
    rng = C.rng_for(seed, PROP)
    nfl, ncl = (450, 12) if tier == 'quick' else (4500, 120)
    cases = [GO.gen_head_mapping(rng) for _ in range(nfl)]
    cases += [({}, dict(shape='empty')), ({3: [(0, 1.0)]}, dict(shape='single')),
              ({3: [(0, 1.0), (1, 2.5)]}, dict(shape='two'))]
    check_fl(cases, out, 'fl')
    # large-input stage (oracle only, own random streams): one ragged large noisy mapping, one noise-free and one
    # noisy ill-conditioned staircase; thorough: more sizes, among them > 8192 and > 10000 equations
    big = []
    for k in range(1 if tier == 'quick' else 6):
        rl = C.rng_for(seed, PROP, 'large', k)
        big.append(GO.gen_large_mapping(rl) if k < 2 else GO.gen_large_mapping(rl, min_eq=[8200, 10001, 12300, 16400][k - 2],
                                                                               max_eq=[9999, 12200, 16300, 20000][k - 2]))
        big.append(GO.gen_chain_long(C.rng_for(seed, PROP, 'chain', k), noise=False))
        big.append(GO.gen_chain_long(C.rng_for(seed, PROP, 'chain-noisy', k), noise=True))
    check_large(big, out)
    from harness.props import c08 as P8
    rngs = C.rng_for(seed, PROP, 'series')
    check_series([P8.gen_collection(rngs, tie=(k % 3 != 2)) for k in range(60 if tier == 'quick' else 600)], out, 'fls')
    try:
        check_cl(out, seed, ncl)
    except ImportError:
        out.notes.append('CL part unavailable (curves_common missing)')
    out.rule = ('FL: generated connected overlap graphs (chain / star / random, 2-8 intervals, levels crossed by 1..8 '
                'intervals, dyadic crossing values with noise) through find_offsets; FL-large (oracle only, not sent to Coq: '
                'residual sums, spread against an independent minimiser, planted constants): a noisy mapping of 60-160 intervals '
                'with 5000-9000 equations (no multiple of 1000/1024/4096/8192/10000) and two staircases of 600-900 single-level '
                'links hanging from 2-4 intervals sharing 1200-2000 levels (sigma_min/sigma_max 3e-5..5e-5, recorded); FLS: interval collections (pieces of '
                'one decreasing curve, 2/3 of them with two or three intervals starting from exactly the same highest '
                'level) through get_series_time_offsets, the returned (indices, offsets, mapping) checked; CL: synthetic '
                'datasets through the CLI up to rise/recession (1/3 with two recessions starting from exactly the same '
                'highest level; plus records whose highest level is positive and off the grid lines with the top grid '
                'level crossed by >= 2 rises and >= 2 recessions; the master-curve views compared with the tables). Non-trivial: FL >= 3 intervals and a level crossed by >= 3 of them; FLS a tie for the '
                'highest initial level among >= 3 included intervals; CL >= 3 intervals; distinct by mapping / series / intervals.')
    out.samples = [dict(level='FL', mapping={str(h): s for h, s in cases[0][0].items()})]
    out.assumptions += ['numpy.linalg.solve in binary64 agrees with the exact solution within 1e-9*(1+max|t|) on the '
                        'generated well-conditioned systems (tested, not proved)',
                        'completeness of the model\'s exact solver is proved (C05_find_offsets_complete: dict with distinct '
                        'intervals per level, connected overlap graph); nothing is proved about the conditioning or the '
                        'pivoting of the floating-point LAPACK solve: an ill-conditioned connected system on which numpy '
                        'fails or drifts beyond the tolerance shows as a correspondence disagreement, not as a theorem']


def replay(case, out):
    C.import_spowtd()
    if case['level'] == 'FL':
        hm = {int(h): [(int(s), float(t)) for s, t in seq] for h, seq in case['hm'].items()}
        check_fl([(hm, dict(shape='replay'))], out, 'replay')
    elif case['level'] == 'FLL':
        hm = {int(h): [(int(s), float(t)) for s, t in seq] for h, seq in case['hm'].items()}
        planted = {int(k): v for k, v in case['planted'].items()} if case.get('planted') else None
        check_large([(hm, dict(shape=case.get('shape') or 'replay', planted=planted))], out)
    elif case['level'] == 'FLS':
        series = [(np.array(t), np.array(H)) for t, H in case['series']]
        check_series([(series, case['grid'], 0)], out, 'replay')
    else:
        check_cl_plans([case['plan']], out)      # CL replays re-run the whole CL oracle on that plan
