"""C10 — loaded series reproduce the source data on one uniform time grid.

Correspondence (command level): three text files are written, the real CLI
`spowtd load` is run in-process, the SQLite file is dumped logically and the
tables time_grid, grid_time, rainfall_intensity, evapotranspiration,
water_level and the three staging tables are compared, inside Coq, with
`load_model` (coq/Model/Load.v) evaluated on the same rows: epochs, labels,
structure, copied values and error kinds exactly, interpolated water levels
within 2^-50 * max(|za|,|zb|) of the exact rational value (exactly at source
instants).

Oracle (independent of the model): the property's own wording evaluated by
brute force, with exact fractions, on the implementation's tables.
"""
import bisect
import hashlib
import json
import os
from fractions import Fraction

from harness import common as C
from harness import dataset as D
from harness import gen_load as G

PROP = 'C10'
MODELS = ['Model/LoadCheck.vo']   # imported by the generated case files, not by Properties/C10.v
PRE = 'From Spowtd Require Import Model.LoadCheck.\nFrom Coq Require Import String PrimFloat.\n'
CASE_TYPE = 'load_case'
CHECK_FN = 'load_case_ok'
LOAD_TABLES = ['time_grid', 'grid_time', 'rainfall_intensity', 'evapotranspiration', 'water_level',
               'rainfall_intensity_staging', 'evapotranspiration_staging', 'water_level_staging']
TOL = Fraction(1, 2 ** 50)


# ------------------------------------------------------------- running the implementation

FILLER = D.Dataset(rain=[(1000000 + 600 * k, '0.5') for k in range(4)],
                   et=[(1000000 + 600 * k, '0.1') for k in range(5)],
                   wl=[(1000000 + 600 * k, '-10.0') for k in range(4)])


def load_cmd(db, paths, tz):
    return D.cli(['load', db, '-p', paths['precipitation'], '-e', paths['evapotranspiration'],
                  '-z', paths['water_level'], '--timezone', tz])


_ZONES = {}


def zone_of(name):
    """The zone reader of the C11 check (TZif tables as pytz reads them, and the stdlib reading of the same file)."""
    if name not in _ZONES:
        from harness.props import c11          # (c11 imports this module: import late)
        _ZONES[name] = c11.Zone(name)
    return _ZONES[name]


def fmt_for(tz):
    """How epochs are written into the files: UTC text, or the reading of the instant on the clock of the declared
    zone (cases in a daylight-saving zone: the generator has made sure that every instant reads back uniquely)."""
    return D.fmt_utc if tz == 'UTC' else zone_of(tz).render


def run_load(case, d, fmt_time=None):
    """Write the files, prepare the database as `pre` asks, run `spowtd load`.
    Returns dict(exc, tables, before)."""
    if fmt_time is None:
        fmt_time = fmt_for(case.get('tz', 'UTC'))
    ds = D.Dataset([tuple(r) for r in case['rain']], [tuple(r) for r in case['et']],
                   [tuple(r) for r in case['wl']], case.get('tz', 'UTC'), fmt_time)
    paths = ds.write(d)
    db = os.path.join(d, 'data.sqlite3')
    if os.path.exists(db):
        os.remove(db)
    before = None
    if case.get('pre') == 'ok':
        fp = FILLER.write(os.path.join(d, 'pre'))
        rc0, exc0, _ = load_cmd(db, fp, 'UTC')
        if exc0 is not None:
            return dict(rc=rc0, exc=exc0, tables={}, before=None, filler_failed=True)
        before = D.dump(db, LOAD_TABLES)
    elif case.get('pre') == 'failed':
        # what a refused load leaves behind: the schema, no rows
        import sqlite3
        import spowtd.load as load_mod
        con = sqlite3.connect(db)
        try:
            with open(load_mod.SCHEMA_PATH, 'rt') as f:
                con.executescript(f.read())
        finally:
            con.close()
        before = D.dump(db, LOAD_TABLES)
    rc, exc, _ = load_cmd(db, paths, ds.tz)
    tables = D.dump(db, LOAD_TABLES) if os.path.exists(db) else {}
    return dict(rc=rc, exc=exc, tables=tables, before=before)


# ------------------------------------------------------------- Coq case text

def cstr(s):
    return C.cstring(s) + '%string'


def crows(rows, base):
    return C.clist(['(%s, %s)' % (C.cZ(t - base), C.cfloat(v)) for t, v in rows])


def csteprows(rows, base):
    return C.clist(['(%s, %s, %s)' % (C.cZ(a - base), C.cZ(b - base), C.cfloat(v)) for a, b, v in rows])


def sqlite_read(texts):
    """The doubles SQLite itself stores when these decimal texts are bound to a
    `double precision` column (the conversion `load` relies on: it passes the
    CSV fields as text).  SQLite 3.40.1's conversion is not always correctly
    rounded (measured: '-1229.86192767' is read one ulp low), so the source
    value of a row is defined through SQLite's reading; `reading_error_ulps`
    measures how far that is from Python's correctly rounded float()."""
    import sqlite3
    con = sqlite3.connect(':memory:')
    try:
        con.execute('CREATE TABLE t (i integer NOT NULL PRIMARY KEY, v double precision NOT NULL)')
        con.executemany('INSERT INTO t (i, v) VALUES (?, ?)', list(enumerate(texts)))
        return [r[0] for r in con.execute('SELECT v FROM t ORDER BY i')]
    finally:
        con.close()


def reading_error_ulps(text, x):
    import math
    y = float(text)
    if x == y:
        return 0
    return abs(x - y) / math.ulp(y)


def src_rows(rows):
    """(epoch, source value): the double SQLite reads from the decimal text."""
    vals = sqlite_read([v for _, v in rows])
    return [(int(t), x) for (t, _), x in zip(rows, vals)]


def tables_problem(tb):
    """Structural sanity of a dump before it is turned into a Coq term."""
    if len(tb.get('time_grid', [])) != 1:
        return 'time_grid has %d rows' % len(tb.get('time_grid', []))
    for name in ('rainfall_intensity', 'evapotranspiration', 'water_level', 'rainfall_intensity_staging',
                 'evapotranspiration_staging', 'water_level_staging'):
        for r in tb.get(name, []):
            if not isinstance(r[-1], float) or r[-1] != r[-1] or abs(r[-1]) == float('inf'):
                return '%s holds a non-finite or non-REAL value %r' % (name, r[-1])
            if not all(isinstance(x, int) for x in r[:-1]):
                return '%s holds a non-integer epoch %r' % (name, r)
    for r in tb.get('grid_time', []):
        if not isinstance(r[0], int) or not (r[1] is None or isinstance(r[1], int)):
            return 'grid_time row %r' % (r,)
    return None


def expect_str(res, base):
    if res['exc'] is not None:
        return '(Err %s)' % C.err_of(res['exc'])
    tb = res['tables']
    (step, tz, _valid), = tb['time_grid']
    return ('(Ok (%s, %s, %s, %s, %s, %s, %s, %s, %s))'
            % (C.cZ(step), cstr(tz),
               C.clist(['(%s, %s)' % (C.cZ(e - base), C.copt(l, C.cZ)) for e, l in tb['grid_time']]),
               csteprows(tb['rainfall_intensity'], base), csteprows(tb['evapotranspiration'], base),
               crows(tb['water_level'], base), crows(tb['rainfall_intensity_staging'], base),
               crows(tb['evapotranspiration_staging'], base), crows(tb['water_level_staging'], base)))


def case_str(case, res):
    """Epochs travel as offsets from one base epoch, values as binary64 literals
    (decoded exactly into Z / Q by Model/LoadCheck.v)."""
    ts = [int(t) for name in ('rain', 'et', 'wl') for t, _ in case[name]]
    base = min(ts) if ts else 0
    return '(%s, %s, %s, %s, %s, %s, %s)' % (
        C.cZ(base), C.cbool(bool(case.get('pre'))), cstr(case.get('tz', 'UTC')),
        crows(src_rows(case['rain']), base), crows(src_rows(case['et']), base),
        crows(src_rows(case['wl']), base), expect_str(res, base))


# ------------------------------------------------------------- what the input looks like (measured)

def source_gaps(wl_times):
    """Gaps of the source record: adjacent samples further apart than the smallest step."""
    steps = [b - a for a, b in zip(wl_times, wl_times[1:])]
    if not steps:
        return []
    m = min(steps)
    return [(a, b) for a, b in zip(wl_times, wl_times[1:]) if b - a > m]


def malformations(case):
    """The ways in which the input is malformed, judged from the files alone."""
    bad = []
    if case.get('pre'):
        bad.append('populated')
    for name in ('rain', 'et', 'wl'):
        ts = [t for t, _ in case[name]]
        if len(ts) != len(set(ts)):
            bad.append('duplicate')
    rain_t = sorted({t for t, _ in case['rain']})
    wl_t = sorted({t for t, _ in case['wl']})
    grid = G.span_grid(rain_t, wl_t)
    if len(grid) < 2:
        bad.append('little_overlap')
    else:
        d = {b - a for a, b in zip(grid, grid[1:])}
        if len(d) != 1:
            bad.append('nonuniform')
        else:
            et_t = {t for t, _ in case['et']}
            if any(g not in et_t for g in grid):
                bad.append('et_missing_step')
            elif grid[-1] + d.pop() not in et_t:
                bad.append('et_missing_closing')
    return bad


def malformation_profile(case):
    """Where the malformation sits, measured on the files (evidence only)."""
    tags = set()
    rain_t = sorted({t for t, _ in case['rain']})
    wl_t = sorted({t for t, _ in case['wl']})
    grid = G.span_grid(rain_t, wl_t)
    if len(grid) < 2:
        return tags
    d = [b - a for a, b in zip(grid, grid[1:])]
    if len(set(d)) != 1:
        if len(d) >= 2 and len(set(d[:-1])) == 1:
            tags.add('nonuniform:only_the_last_step_is_odd')
            if grid[-1] == wl_t[-1]:
                tags.add('nonuniform:odd_last_step_closed_exactly_at_last_water_level_timestamp')
        if len(d) >= 2 and len(set(d[1:])) == 1:
            tags.add('nonuniform:only_the_first_step_is_odd')
            if grid[0] == wl_t[0]:
                tags.add('nonuniform:odd_first_step_opened_exactly_at_first_water_level_timestamp')
        return tags
    if grid[-1] == wl_t[-1]:
        tags.add('last_rain_instant_in_span_is_last_water_level_timestamp')
    if grid[0] == wl_t[0]:
        tags.add('first_rain_instant_in_span_is_first_water_level_timestamp')
    if any(t == wl_t[-1] + 1 for t in rain_t) or any(t == wl_t[0] - 1 for t in rain_t):
        tags.add('rain_record_one_second_outside_span')
    et_t = {t for t, _ in case['et']}
    has = [g in et_t for g in grid]
    if all(has):
        return tags
    n_missing = has.count(False)
    tags.add('et_missing:%s_steps' % ('1' if n_missing == 1 else 'all' if n_missing == len(grid) else 'several'))
    if not has[0]:
        tags.add('et_missing:leading_steps')
    if not has[-1]:
        tags.add('et_missing:trailing_steps')
    if any(not x for x in has[1:-1]) and has[0] and has[-1]:
        tags.add('et_missing:interior_only')
    have = [g for g, x in zip(grid, has) if x]
    if len(have) >= 2 and len({b - a for a, b in zip(have, have[1:])}) == 1:
        tags.add('et_missing:remaining_et_instants_uniform')      # a grid built from ET would look regular
    if et_t and min(et_t) > grid[0]:
        tags.add('et_missing:record_starts_after_first_grid_instant')
    if et_t and max(et_t) < grid[-1]:
        tags.add('et_missing:record_ends_before_last_grid_step')
    return tags


def features(case):
    f = set()
    bad = malformations(case)
    if bad:
        return {'malformed:' + b for b in bad}
    rain_t = sorted(t for t, _ in case['rain'])
    wl_t = sorted(t for t, _ in case['wl'])
    wl_set = set(wl_t)
    grid = G.span_grid(rain_t, wl_t)
    step = grid[1] - grid[0]
    closing = grid[-1] + step
    gaps = source_gaps(wl_t)
    f.add('gaps=%d' % min(len(gaps), 5))
    if gaps:
        if gaps[0][0] == wl_t[0]:
            f.add('gap_at_start')
        if gaps[-1][1] == wl_t[-1]:
            f.add('gap_at_end')
        for a, b in gaps:
            inside = [g for g in grid + [closing] if a < g < b]
            f.add('gap_without_grid_instant' if not inside else 'gap_with_grid_instant')
            if a in grid or b in grid:
                f.add('grid_instant_on_gap_edge')
        if any(a < closing < b for a, b in gaps):
            f.add('closing_in_gap')
        if any(a < grid[0] < b for a, b in gaps):
            f.add('first_instant_in_gap')
    if any(g not in wl_set and not any(a < g < b for a, b in gaps) for g in grid):
        f.add('interp_off_sample')
    if any(g in wl_set for g in grid):
        f.add('interp_on_sample')
    f.add('closing_within_span' if closing <= wl_t[-1] else 'closing_after_span')
    if rain_t[0] < wl_t[0]:
        f.add('rain_starts_first')
    elif rain_t[0] > wl_t[0]:
        f.add('wl_starts_first')
    else:
        f.add('start_together')
    if rain_t[-1] > wl_t[-1]:
        f.add('rain_ends_last')
    elif rain_t[-1] < wl_t[-1]:
        f.add('wl_ends_last')
    else:
        f.add('end_together')
    for name in ('rain', 'et', 'wl'):
        ts = [t for t, _ in case[name]]
        if ts != sorted(ts):
            f.add('unsorted_rows')
    d = {b - a for a, b in zip(rain_t, rain_t[1:])}
    if len(d) > 1:
        f.add('rain_irregular_outside_span')
    return f


QUOTA_FEATURES = ['gap_without_grid_instant', 'gap_with_grid_instant', 'gap_at_start', 'gap_at_end',
                  'grid_instant_on_gap_edge', 'closing_in_gap', 'first_instant_in_gap', 'interp_off_sample',
                  'interp_on_sample', 'closing_within_span', 'closing_after_span', 'rain_starts_first',
                  'wl_starts_first', 'start_together', 'rain_ends_last', 'wl_ends_last', 'end_together',
                  'unsorted_rows', 'rain_irregular_outside_span', 'gaps=0', 'gaps=1', 'gaps=2', 'gaps=3', 'gaps=4',
                  'malformed:nonuniform', 'malformed:et_missing_step', 'malformed:et_missing_closing',
                  'malformed:duplicate', 'malformed:populated', 'malformed:little_overlap']


def generate(rng, n):
    """Round-robin over the classes until n cases exist and every measured
    feature has its quota (or the cap 2n is reached)."""
    classes = G.VALID_CLASSES * 2 + G.MALFORMED_CLASSES
    quota = max(3, n // 40)
    have = {q: 0 for q in QUOTA_FEATURES}
    cases = []
    k = 0
    while True:
        cls = classes[k % len(classes)]
        k += 1
        c = G.gen_case(rng, cls)
        fs = features(c)
        if len(cases) >= n:
            # only cases that help an unmet quota are still taken
            if not any(q in fs and have[q] < quota for q in QUOTA_FEATURES):
                if k > 6 * n:
                    break
                continue
        for q in fs:
            if q in have:
                have[q] += 1
        c['features'] = sorted(fs)
        cases.append(c)
        if len(cases) >= n and all(v >= quota for v in have.values()):
            break
        if len(cases) >= 2 * n:
            break
    short = {q: v for q, v in have.items() if v < quota}
    return cases, quota, short


# ------------------------------------------------------------- the property, by brute force

def oracle(case, res, out):
    """The wording of C10 on the implementation's tables (exact fractions)."""
    pub = dict(level='CL', case=public(case))

    def bad(msg):
        out.violation('oracle', msg + ' [class %s]' % case.get('cls'), case=pub)

    tb = res['tables']
    rain, et, wl = dict(src_rows(case['rain'])), dict(src_rows(case['et'])), dict(src_rows(case['wl']))
    wl_t = sorted(wl)
    (step, _tz, _), = tb['time_grid']
    grid = sorted(e for e, _ in tb['grid_time'])
    labels = dict(tb['grid_time'])
    # the time grid
    want_starts = sorted(e for e in rain if wl_t[0] <= e <= wl_t[-1])
    if grid[:-1] != want_starts:
        bad('grid instants before the closing one are not the rainfall timestamps within the span of the '
            'water-level record: extra %s, missing %s'
            % (sorted(set(grid[:-1]) - set(want_starts))[:3], sorted(set(want_starts) - set(grid[:-1]))[:3]))
        return
    if len(grid) < 2 or step <= 0 or any(b - a != step for a, b in zip(grid, grid[1:])):
        bad('time grid %s... is not uniformly spaced by the recorded step %s (closing instant included)'
            % (grid[:4], step))
        return
    closing = grid[-1]
    # rainfall and ET on every grid step
    for name, table, src in (('rainfall', 'rainfall_intensity', rain), ('evapotranspiration', 'evapotranspiration', et)):
        want = [(g, g + step, src.get(g)) for g in grid[:-1]]
        got = sorted(tb[table])
        if got != want:
            diff = [(a, b) for a, b in zip(got, want) if a != b][:2]
            bad('%s rows differ from the source values on the grid steps: %d rows for %d steps, first '
                'differences (stored, source) %s' % (name, len(got), len(want), diff))
    # the staged series are the source rows
    for name, table, src in (('rainfall', 'rainfall_intensity_staging', rain),
                             ('evapotranspiration', 'evapotranspiration_staging', et),
                             ('water level', 'water_level_staging', wl)):
        got, want = sorted(tb[table]), sorted(src.items())
        if got != want:
            gd, wd = dict(got), dict(want)
            bad('the staged %s series is not the source series: %d rows stored for %d source rows; source rows '
                'not stored (first 3) %s, stored rows that are not source rows (first 3) %s'
                % (name, len(got), len(want), [r for r in want if gd.get(r[0]) != r[1]][:3],
                   [r for r in got if wd.get(r[0]) != r[1]][:3]))
    # water level
    gaps = source_gaps(wl_t)
    gap_starts = [a for a, _ in gaps]

    def gap_around(g):
        """The gap (a, b) with a < g < b, if any (gaps are disjoint and sorted)."""
        j = bisect.bisect_left(gap_starts, g) - 1
        return gaps[j] if j >= 0 and g < gaps[j][1] else None
    level = dict(tb['water_level'])
    for g in grid:
        in_gap = gap_around(g) is not None
        if in_gap and g in level:
            bad('a water level is stored at %d, strictly inside the gap %s of the source record'
                % (g, gap_around(g)))
        if in_gap and labels[g] is not None:
            bad('grid instant %d inside a gap of the source record carries label %s' % (g, labels[g]))
        if not in_gap and labels[g] is None:
            bad('grid instant %d is not inside a gap but carries no stretch label' % g)
        if not in_gap and g != closing and g not in level:
            bad('no water level at grid instant %d although source samples bracket it without a gap' % g)
    for g, v in sorted(level.items()):
        if g not in labels:
            bad('water level stored at %d which is not a grid instant' % g)
            continue
        j = bisect.bisect_right(wl_t, g) - 1
        if j < 0 or (wl_t[j] != g and j + 1 >= len(wl_t)):
            bad('water level stored at %d outside the span of the source record' % g)
            continue
        ta = wl_t[j]
        if ta == g:
            if v != wl[ta]:
                bad('water level at source instant %d is %r, source value %r' % (g, v, wl[ta]))
            continue
        tb_ = wl_t[j + 1]
        za, zb = Fraction(wl[ta]), Fraction(wl[tb_])
        exact = za + (g - ta) * (zb - za) / (tb_ - ta)
        if abs(Fraction(v) - exact) > TOL * max(abs(za), abs(zb)):
            bad('water level at %d is %r; linear interpolation between (%d, %r) and (%d, %r) gives %r'
                % (g, v, ta, wl[ta], tb_, wl[tb_], float(exact)))
    # labels: equal within a stretch, distinct across gaps
    lab = [(g, labels[g]) for g in grid if labels[g] is not None]
    if len(lab) > 400:
        # the same two requirements without the quadratic loop: two labelled instants (none of them strictly
        # inside a gap, reported above otherwise) are separated by a gap iff different numbers of gaps end at or
        # before them; so stretch number -> label must be a function, and an injective one
        gap_ends = [b for _, b in gaps]
        by_stretch, by_label = {}, {}
        for g, l in lab:
            if gap_around(g) is not None:
                continue
            k = bisect.bisect_right(gap_ends, g)
            g0, l0 = by_stretch.setdefault(k, (g, l))
            if l0 != l:
                bad('grid instants %d and %d are not separated by a gap but carry labels %s and %s' % (g0, g, l0, l))
                break
            g1, k1 = by_label.setdefault(l, (g, k))
            if k1 != k:
                bad('grid instants %d and %d lie on both sides of a gap but share label %s' % (g1, g, l))
                break
        lab = []
    for i, (g1, l1) in enumerate(lab):
        for g2, l2 in lab[i + 1:]:
            separated = any(g1 <= a and b <= g2 for a, b in gaps)
            if separated and l1 == l2:
                bad('grid instants %d and %d lie on both sides of a gap but share label %s' % (g1, g2, l1))
                break
            if not separated and l1 != l2:
                bad('grid instants %d and %d are not separated by a gap but carry labels %s and %s'
                    % (g1, g2, l1, l2))
                break


def oracle_refused(case, res, out):
    """After a refusal the data file must hold no data of this input (C11's
    clause, observed here too because the same runs show it)."""
    pub = dict(level='CL', case=public(case))
    if case.get('pre'):
        if res['tables'] != res['before']:
            out.violation('oracle', 'a refused load into a populated database changed its tables', case=pub)
    else:
        filled = [n for n, rows in res['tables'].items() if rows]
        if filled:
            out.violation('oracle', 'load was refused (%s) but left rows in %s'
                          % (type(res['exc']).__name__, filled), case=pub)


def public(case):
    if case.get('regen'):
        # a large generated input: the replay file carries the recipe, not a hundred thousand rows
        return dict(cls=case.get('cls'), regen=case['regen'])
    return {k: case[k] for k in ('cls', 'tz', 'pre', 'rain', 'et', 'wl') if k in case}


def digest(case):
    return hashlib.sha256(json.dumps(public(case), sort_keys=True).encode()).hexdigest()[:16]


# ------------------------------------------------------------- the check

def check_cases(cases, out, label, prop=PROP, coq=True):
    """coq=False: the large-input stage, judged by the oracles only."""
    strs, kept = [], []
    for case in cases:
        if case.get('regen') and 'rain' not in case:
            case = regen_case(case['regen'])
        d = D.scratch(prop, 'cl_db')
        res = run_load(case, d)
        out.evaluations += 1
        if res.get('filler_failed'):
            out.violation('oracle', 'load refused a plain well-formed dataset (4 aligned 10-minute samples): %s: %s'
                          % (type(res['exc']).__name__, res['exc']),
                          case=dict(level='CL', case=dict(cls='filler', tz='UTC', pre=None,
                                                          rain=[list(r) for r in FILLER.rain],
                                                          et=[list(r) for r in FILLER.et],
                                                          wl=[list(r) for r in FILLER.wl])))
            continue
        out.count('class:' + case.get('cls', '?'))
        for f in case.get('features', sorted(features(case))):
            out.count(f)
        for f in sorted(malformation_profile(case)):
            out.count('profile:' + f)
        pub = dict(level='CL', case=public(case))
        bad = malformations(case)
        for name in ('rain', 'et', 'wl'):
            for (_, txt), (_, x) in zip(case[name], src_rows(case[name])):
                e = reading_error_ulps(txt, x)
                if e:
                    out.count('sqlite_reading_not_correctly_rounded')
                if e > 1:
                    out.violation('oracle', 'SQLite reads %r as %r, more than one ulp from %r'
                                  % (txt, x, float(txt)), case=pub)
        if res['exc'] is None:
            out.count('outcome:loaded')
            prob = tables_problem(res['tables'])
            if prob:
                out.violation('oracle', 'load succeeded but %s' % prob, case=pub)
                continue
            if [b for b in bad if b != 'et_missing_closing']:
                out.violation('oracle', 'load accepted an input that is malformed (%s)' % ', '.join(bad), case=pub)
            else:
                oracle(case, res, out)
                fs = set(case.get('features', []))
                if fs & {'interp_off_sample', 'gaps=1', 'gaps=2', 'gaps=3', 'gaps=4', 'gaps=5'}:
                    out.nontriv(digest(case))
        else:
            out.count('outcome:refused:%s' % C.err_of(res['exc']))
            if not bad:
                out.violation('oracle', 'load refused (%s: %s) a well-formed input: uniform rainfall steps within '
                              'the span of the water-level record, ET at every grid instant and the closing one, no '
                              'duplicate timestamp, an empty data file [class %s]'
                              % (type(res['exc']).__name__, str(res['exc'])[:200], case.get('cls')), case=pub)
            oracle_refused(case, res, out)
        if not coq or case.get('regen'):
            continue
        strs.append(case_str(case, res))
        kept.append((case, res))
    if not strs:
        return
    bad_idx, errs, _ = C.run_case_shards(prop, label, PRE, CASE_TYPE, CHECK_FN, strs, shard=25)
    out.corr_errors += errs
    for i in bad_idx:
        case, res = kept[i]
        what = ('raised %s: %s' % (type(res['exc']).__name__, res['exc'])) if res['exc'] is not None \
            else 'loaded (tables differ from the model, or the model refuses)'
        out.violation('corr', 'load_model <> `spowtd load` on a %s case: implementation %s'
                      % (case.get('cls'), what), case=dict(level='CL', case=public(case)))


def extra_streams(seed, n_et, n_edge, prop=PROP):
    """Malformed streams with their own random sources (the main stream is
    unchanged by them): evapotranspiration records that start late, end early,
    have holes, are coarser than or off the grid; a non-uniform rainfall step
    at an end of the span, closed exactly at the last (first) water-level
    timestamp, and its near misses."""
    out = []
    rng = C.rng_for(seed, prop, 'et_malformed')
    for k in range(n_et):
        out.append(G.gen_case(rng, G.ET_MALFORMED_CLASSES[k % len(G.ET_MALFORMED_CLASSES)]))
    rng = C.rng_for(seed, prop, 'nonuniform_edge')
    for k in range(n_edge):
        out.append(G.gen_case(rng, G.NONUNIFORM_EDGE_CLASSES[0 if k % 3 else 1]))
    return out


# ------------------------------------------------------------- records over a change of the zone's UTC offset

DST_ZONES = ['Europe/Berlin', 'America/New_York', 'Australia/Sydney', 'America/St_Johns', 'Australia/Lord_Howe',
             'America/Sao_Paulo', 'Europe/Dublin', 'Pacific/Apia', 'Asia/Tehran', 'Africa/Casablanca']


def dst_profile(case):
    """Measured on the files: the UTC offset in force at the FIRST ROW of each file (in file order) and at its
    earliest row, and over the whole file."""
    z = zone_of(case['tz'])
    tags = []
    first = {k: z.info_at(case[k][0][0])[0] for k in ('rain', 'et', 'wl')}
    early = {k: z.info_at(min(t for t, _ in case[k]))[0] for k in ('rain', 'et', 'wl')}
    if len(set(first.values())) > 1:
        tags.append('first_rows_of_the_files_have_different_offsets')
    if len(set(early.values())) > 1:
        tags.append('files_begin_on_different_sides_of_a_transition')
        tags.append('begins_alone_on_its_side:' + '+'.join(
            k for k in ('rain', 'et', 'wl') if list(early.values()).count(early[k]) == 1))
    for k in ('rain', 'et', 'wl'):
        if len({z.info_at(t)[0] for t, _ in case[k]}) > 1:
            tags.append('%s_file_spans_a_transition' % k)
    return tags


def dst_stream(seed, n, prop=PROP):
    """Well-formed triples written on the clock of a daylight-saving zone, uniform in UTC, the three files
    beginning on different sides of a change of the zone's offset (own random source)."""
    from harness.props import c11
    rng = C.rng_for(seed, prop, 'across_transition')
    out = []
    tries = 0
    while len(out) < n and tries < 60 * n:
        tries += 1
        name = DST_ZONES[len(out) % len(DST_ZONES)]
        z = zone_of(name)
        times = [t for t in z.times if c11.LO_LIM < t < c11.HI_LIM]
        if not times:
            continue
        c = G.gen_across_transition(rng, rng.choice(times))
        c['tz'] = name
        if malformations(c) or not all(c11.representable(z, t) for k in ('rain', 'et', 'wl') for t, _ in c[k]):
            continue
        out.append(c)
    return out


# ------------------------------------------------------------- large inputs (oracles only)

def regen_case(r):
    """A large case from its recipe (each has its own random source, so one case can be rebuilt alone)."""
    rng = C.rng_for(r['seed'], r.get('prop', PROP), 'large', r['stream'], r['k'])
    if r['stream'] == 'et_hole':
        c = G.gen_et_hole_large(rng, r['idx'])
    else:
        c = G.gen_long_record(rng, r['which'], r['n_rows'], r.get('holes', 0))
    c['regen'] = r
    return c


def large_recipes(seed, tier, prop=PROP):
    rng = C.rng_for(seed, prop, 'large_plan')
    rec = []
    idxs = G.round_indices() if tier == 'quick' else \
        G.round_indices(chunks=(1000, 1024, 500, 512, 999, 2000), multiples=(1, 2, 3, 4), extra=(4095, 4096, 4097, 8191, 8192, 9999, 10000))
    for k, idx in enumerate(idxs):
        rec.append(dict(stream='et_hole', seed=seed, prop=prop, k=k, idx=idx))
    # long files: past 65536 rows (and so past every smaller chunk size), never a multiple of a chunk size
    sizes = [65536 + rng.randrange(300, 9000)]
    if tier != 'quick':
        sizes += [131072 + rng.randrange(300, 9000), 65536 + rng.randrange(2, 300), 32768 + rng.randrange(2, 3000)]
    for k, n_rows in enumerate(sizes):
        while any(n_rows % c == 0 for c in G.CHUNKS):
            n_rows += 1
        rec.append(dict(stream='long', seed=seed, prop=prop, k=k, which='wl', n_rows=n_rows, holes=(k + 2) % 3))
    if tier != 'quick':
        rec.append(dict(stream='long', seed=seed, prop=prop, k=100, which='rain',
                        n_rows=65536 + rng.randrange(300, 5000), holes=1))
    return rec


def large_profile(case, out, tag='large:'):
    for key in ('rain', 'et', 'wl'):
        n = len(case[key])
        past = [c for c in G.CHUNKS if n > c]
        out.count('%s%s_rows_past:%s' % (tag, key, max(past) if past else '<1000'))
    if case.get('hole_index') is not None:
        i = case['hole_index']
        near = [(c, i % c if i % c <= c // 2 else i % c - c) for c in (1000, 1024, 4096) if min(i % c, c - i % c) <= 1]
        for c, d in near:
            out.count('%sthe_only_ET_hole_sits_at_grid_index=multiple_of_%d%+d' % (tag, c, d))
        out.count('%shole_index_%s_index_in_the_file' % (tag, '=' if not case.get('lead') else '<>'))


def run(ctx, out):
    C.import_spowtd()
    seed, tier = ctx['seed'], ctx['tier']
    rng = C.rng_for(seed, PROP)
    n = 200 if tier == 'quick' else 2000
    cases, quota, short = generate(rng, n)
    cases += extra_streams(seed, 36 if tier == 'quick' else 300, 24 if tier == 'quick' else 200)
    dst = dst_stream(seed, 30 if tier == 'quick' else 300)
    for c in dst:
        for tag in dst_profile(c):
            out.count('dst:' + tag)
    cases += dst
    check_cases(cases, out, 'cl')
    for r in large_recipes(seed, tier):
        c = regen_case(r)
        large_profile(c, out)
        check_cases([c], out, 'large', coq=False)
    out.notes.append('generator quota per measured feature: %d; shortfalls: %s' % (quota, short or 'none'))
    out.rule = ('CL: generated triples of input files through the real `spowtd load`; every table the load '
                'fills is compared with load_model inside Coq. Non-trivial: an accepted load with at least one '
                'water level interpolated off a source instant or at least one gap in the source record; '
                'distinct by the digest of the three files. Features in input_distribution are measured on '
                'the generated files, not assumed from the generator class. Two further malformed streams (own '
                'random sources): ET records starting late / ending early / with holes / coarser / off the grid, '
                'and a non-uniform rainfall step closed exactly at the last (first) water-level timestamp with '
                'near misses of one second (profile:* counts, measured on the files). A stream of well-formed triples '
                'written on the clock of a daylight-saving zone, uniform in UTC, whose three files begin on '
                'different sides of a change of the offset (dst:* counts, measured). LARGE-INPUT STAGE, judged by '
                'the oracle ONLY (not sent to Coq: reading the literals dominates): a water-level file of more than '
                '65536 rows logged finer than the rainfall step, with genuine gaps across the chunk boundary, and '
                'records of 1000-4100 grid steps whose only ET hole sits on / one beside a multiple of 1000, 1024, '
                '4096 (large:* counts); replay files of these carry the recipe, not the rows.')
    out.samples = [public(c) for c in cases[:2]]
    out.assumptions += [
        'reading of decimal text into binary64 (Python float() = SQLite for <= 15 significant digits) is an '
        'oracle; values are embedded in Q exactly after that reading',
        'np.interp floating-point rounding is not modelled: interpolated values are compared with the exact '
        'rational value within 2^-50 * max(|za|,|zb|) inside Coq',
        'SQLite / csv / argparse are exercised, not modelled']


def replay(case, out):
    C.import_spowtd()
    c = case['case']
    check_cases([c], out, 'replay', coq=not c.get('regen'))
