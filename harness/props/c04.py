"""C04 — interstorm intervals and per-step flags.

Correspondence: (FL) classify.get_mystery_jump_mask and
classify.get_true_interval_masks against Model/Mystery.v, Model/Runs.v;
(CL) load + classify through the real CLI, tables grid_time_flags and
zeta_interval(interstorm) against Model/Flags.v evaluated on the loaded data.
Oracle: the property's own definitions evaluated by brute force in Python on
the implementation's tables.
"""
import itertools
import sqlite3

import numpy as np

from harness import classify_common as K
from harness import common as C
from harness import dataset as D
from harness import gen_classify as G

PROP = 'C04'
MODELS = ['Model/Flags.vo']   # .vo files the generated case files import
PRE = 'From Spowtd Require Import Model.Flags.\n'


# ------------------------------------------------------------- implementation

def impl_mystery(jump, rain):
    import spowtd.classify as cl
    try:
        r = cl.get_mystery_jump_mask(np.array(jump, dtype=bool), np.array(rain, dtype=bool))
        return ('ok', [bool(b) for b in r])
    except Exception as e:  # pylint: disable=broad-except
        return ('err', C.err_of(e))


def impl_runs(vec):
    import spowtd.classify as cl
    try:
        masks = list(cl.get_true_interval_masks(np.array(vec, dtype=bool)))
        out = []
        for m in masks:
            idx = np.nonzero(m)[0]
            out.append((int(idx[0]), int(idx[-1]) + 1))
        return ('ok', out)
    except Exception as e:  # pylint: disable=broad-except
        return ('err', C.err_of(e))


# ------------------------------------------------------------- definitions (oracle)

def def_mystery(jump, rain):
    """not mystery_i iff exists r<=i: rain_r and all j in (r,i]: not rain_j and not jump_j"""
    n = len(rain)
    out = []
    for i in range(n):
        dry = any(rain[r] and all((not rain[j]) and (not jump[j]) for j in range(r + 1, i + 1))
                  for r in range(i + 1))
        out.append(not dry)
    return out


def def_interstorm(jump, rain):
    n = len(rain)
    return [(not rain[i]) and any(rain[r] and all((not rain[j]) and (not jump[j])
                                                  for j in range(r + 1, i + 1)) for r in range(i))
            for i in range(n)]


def def_runs(vec):
    n = len(vec)
    out = []
    for s in range(n):
        for e in range(s + 1, n + 1):
            if all(vec[s:e]) and (s == 0 or not vec[s - 1]) and (e == n or not vec[e]):
                out.append((s, e))
    return out


# ------------------------------------------------------------- FL cases

def gen_bool_pairs(rng, count):
    cases = []
    for k in range(count):
        n = rng.choice([0, 1, 2, 3, 5, 8, 13, 21, 34, 60]) if k % 7 == 0 else rng.randrange(1, 40)
        mode = k % 5
        if mode == 0:
            rain = [rng.random() < 0.5 for _ in range(n)]
            jump = [rng.random() < 0.5 for _ in range(n)]
        elif mode == 1:  # sparse rain, sparse jumps: long recessions
            rain = [rng.random() < 0.12 for _ in range(n)]
            jump = [rng.random() < 0.12 for _ in range(n)]
        elif mode == 2:  # no rain / all rain
            rain = [k % 2 == 0] * n
            jump = [rng.random() < 0.3 for _ in range(n)]
        elif mode == 3:  # blocks
            rain, jump = [], []
            while len(rain) < n:
                ln = rng.randrange(1, 6)
                r, j = rng.random() < 0.4, rng.random() < 0.3
                rain += [r] * ln
                jump += [j] + [rng.random() < 0.1 for _ in range(ln - 1)]
            rain, jump = rain[:n], jump[:n]
        else:
            rain = [rng.random() < 0.25 for _ in range(n)]
            jump = [rng.random() < 0.6 for _ in range(n)]
        cases.append((jump, rain))
    # malformed: unequal lengths
    for _ in range(max(3, count // 100)):
        cases.append(([True] * rng.randrange(0, 4), [False] * rng.randrange(4, 7)))
    return cases


def fl_mystery_case_str(jump, rain, res):
    r = '(Ok %s)' % C.cbools(res[1]) if res[0] == 'ok' else '(Err %s)' % res[1]
    return '(%s, %s, %s)' % (C.cbools(jump), C.cbools(rain), r)


def check_fl_mystery(cases, out, label):
    strs, results = [], []
    for jump, rain in cases:
        res = impl_mystery(jump, rain)
        results.append(res)
        strs.append(fl_mystery_case_str(jump, rain, res))
        out.evaluations += 1
        out.count('FL-mystery')
        if res[0] == 'ok':
            # oracle: the definition, by brute force
            want = def_mystery(jump, rain)
            if res[1] != want:
                out.violation('oracle', 'get_mystery_jump_mask disagrees with the definition of the '
                              'unexplained-rise flag on jump=%s rain=%s: got %s want %s'
                              % (jump, rain, res[1], want),
                              case=dict(level='FL-mystery', jump=jump, rain=rain))
            if any(res[1]) and not all(res[1]) and any(rain):
                out.nontriv(('m', tuple(jump), tuple(rain)))
        elif len(jump) == len(rain):
            out.violation('oracle', 'get_mystery_jump_mask raised %s on equal-length vectors jump=%s rain=%s'
                          % (res[1], jump, rain), case=dict(level='FL-mystery', jump=jump, rain=rain))
        else:
            out.count('FL-mystery-malformed')
    bad, errs, _ = C.run_case_shards(
        PROP, label, PRE, 'list bool * list bool * res (list bool)',
        'fun c => match c with (j, r, i) => res_eqb bools_eqb (mystery_mask j r) i end', strs)
    out.corr_errors += errs
    for i in bad:
        jump, rain = cases[i]
        out.violation('corr', 'model mystery_mask <> classify.get_mystery_jump_mask on jump=%s rain=%s impl=%s'
                      % (jump, rain, results[i]), case=dict(level='FL-mystery', jump=jump, rain=rain))


def check_fl_runs(vecs, out, label):
    strs, results = [], []
    for v in vecs:
        res = impl_runs(v)
        results.append(res)
        out.evaluations += 1
        out.count('FL-runs')
        if res[0] == 'ok':
            want = def_runs(v)
            if res[1] != want:
                out.violation('oracle', 'get_true_interval_masks does not list the maximal runs of %s: got %s want %s'
                              % (v, res[1], want), case=dict(level='FL-runs', vec=v))
            if len(want) >= 2:
                out.nontriv(('r', tuple(v)))
            r = '(Ok %s)' % C.clist([C.cpair(C.cnat(a), C.cnat(b)) for a, b in res[1]])
        else:
            out.violation('oracle', 'get_true_interval_masks raised %s on %s' % (res[1], v),
                          case=dict(level='FL-runs', vec=v))
            r = '(Err %s)' % res[1]
        strs.append('(%s, %s)' % (C.cbools(v), r))
    bad, errs, _ = C.run_case_shards(
        PROP, label, PRE, 'list bool * res (list (nat * nat))',
        'fun c => res_eqb natpairs_eqb (Ok (true_runs (fst c))) (snd c) '
        '&& res_eqb natpairs_eqb (Ok (true_runs_loop (fst c))) (snd c)', strs)
    out.corr_errors += errs
    for i in bad:
        out.violation('corr', 'model true_runs <> classify.get_true_interval_masks on %s impl=%s'
                      % (vecs[i], results[i]), case=dict(level='FL-runs', vec=vecs[i]))


# ------------------------------------------------------------- CL cases

def read_classification(db):
    con = sqlite3.connect(db)
    try:
        flags = {r[0]: tuple(bool(x) for x in r[1:]) for r in con.execute(
            'SELECT start_epoch, is_jump, is_mystery_jump, is_interstorm FROM grid_time_flags')}
        inter = con.execute("SELECT start_epoch, thru_epoch FROM zeta_interval "
                            "WHERE interval_type = 'interstorm' ORDER BY start_epoch").fetchall()
    finally:
        con.close()
    return flags, inter


def cl_case(rec, d, out):
    """Run load + classify (at the verbosity rec['verb']) on a record. Returns dict with per-stretch data."""
    ds = G.to_dataset(rec)
    db, rc, exc = D.load(ds, d)
    if exc is not None:
        return dict(stage='load', exc=exc)
    rc, exc, _ = K.classify_cli(db, rec, out)
    if exc is not None:
        return dict(stage='classify', exc=exc)
    st, step = D.stretches(db)
    K.label_hole(st, out)
    flags, inter = read_classification(db)
    return dict(stage='done', stretches=st, step=step, flags=flags, inter=inter)


def check_cl(recs, out, label):
    strs, meta = [], []
    recs = [K.with_verbosity(rec, k) for k, rec in enumerate(recs)]
    for k, rec in enumerate(recs):
        d = D.scratch(PROP, 'cl_db')
        r = cl_case(rec, d, out)
        out.evaluations += 1
        out.count('CL:' + rec['cls'])
        if rec.get('fine', 1) > 1:
            out.count('CL-fine-water-level(x%d)%s' % (rec['fine'], '+island' if rec.get('island') else ''))
        case = dict(level='CL', rec=rec)
        if r['stage'] == 'load':
            out.count('CL-load-refused')
            continue
        if r['stage'] == 'classify':
            out.violation('oracle', 'classify raised %s: %s on a loaded dataset (class %s)'
                          % (type(r['exc']).__name__, r['exc'], rec['cls']), case=case)
            continue
        step = r['step']
        delta = rec['thr_j'] * (step / 3600.0)
        seen_epochs = set()
        claimed = []
        for st in r['stretches']:
            ep, rain, zeta = st['epoch'], st['rain'], st['zeta']
            if not ep:
                continue
            seen_epochs |= set(ep)
            idx = {e: i for i, e in enumerate(ep)}
            missing = [e for e in ep if e not in r['flags']]
            if missing:
                out.violation('oracle', 'no grid_time_flags row for %d samples of stretch %s'
                              % (len(missing), st['label']), case=case)
                continue
            ij = [r['flags'][e][0] for e in ep]
            im = [r['flags'][e][1] for e in ep]
            ii = [r['flags'][e][2] for e in ep]
            iv = [(idx[a], idx[b]) for a, b in r['inter'] if a in idx and b in idx]
            claimed += [(a, b) for a, b in r['inter'] if a in idx and b in idx]
            # oracle from the definitions (IEEE arithmetic as the property states it:
            # increment strictly above threshold x step)
            wet = [x > 0 for x in rain]
            jump = [False] + [(zeta[i + 1] - zeta[i]) > delta for i in range(len(zeta) - 1)]
            want_m, want_i = def_mystery(jump, wet), def_interstorm(jump, wet)
            want_iv = [(a, b - 1) for a, b in def_runs(want_i) if b - a >= 2]
            if ij != jump:
                out.violation('oracle', 'stored rise flag differs from "increment > threshold x step" '
                              'at stretch %s: stored %s expected %s' % (st['label'], ij, jump), case=case)
            if im != want_m:
                out.violation('oracle', 'stored unexplained-rise flag differs from its definition at '
                              'stretch %s: stored %s expected %s' % (st['label'], im, want_m), case=case)
            if ii != want_i:
                out.violation('oracle', 'stored interstorm flag differs from its definition at stretch '
                              '%s: stored %s expected %s' % (st['label'], ii, want_i), case=case)
            if iv != want_iv:
                out.violation('oracle', 'recorded interstorm intervals %s differ from the maximal '
                              'clean rain-free stretches %s (stretch %s)' % (iv, want_iv, st['label']),
                              case=case)
            if want_iv and any(want_m[i] and any(wet[:i]) for i in range(len(wet))):
                out.nontriv(('cl', tuple(jump), tuple(wet)))
            strs.append('(%s, %s, %s, %s, {| sf_jump := %s; sf_mystery := %s; sf_interstorm := %s; '
                        'sf_intervals := %s |})'
                        % (C.cfloat(rec['thr_j']), C.cZ(step), C.cfloats(rain), C.cfloats(zeta),
                           C.cbools(ij), C.cbools(im), C.cbools(ii),
                           C.clist([C.cpair(C.cnat(a), C.cnat(b)) for a, b in iv])))
            meta.append((k, st['label']))
        extra = [e for e in r['flags'] if e not in seen_epochs]
        if extra:
            out.violation('oracle', 'grid_time_flags has %d rows outside every gap-free stretch' % len(extra),
                          case=case)
        if len(claimed) != len(r['inter']):
            out.violation('oracle', 'an interstorm interval extends across a gap or outside the '
                          'stretches: %s' % [x for x in r['inter'] if x not in claimed], case=case)
    bad, errs, _ = C.run_case_shards(
        PROP, label, PRE, 'float * Z * list float * list float * stretch_flags',
        'fun c => match c with (thr, step, rain, z, i) => '
        'stretch_flags_eqb (classify_interstorms_stretch thr step rain z) i end', strs)
    out.corr_errors += errs
    for i in bad:
        k, lab = meta[i]
        out.violation('corr', 'model classify_interstorms_stretch <> tables written by classify '
                      '(record %d, stretch %s)' % (k, lab), case=dict(level='CL', rec=recs[k]))


def run(ctx, out):
    C.import_spowtd()
    seed, tier = ctx['seed'], ctx['tier']
    rng = C.rng_for(seed, PROP)
    nfl = 3000 if tier == 'quick' else 30000
    ncl = 120 if tier == 'quick' else 1200
    check_fl_mystery(gen_bool_pairs(rng, nfl), out, 'fl_mystery')
    vecs = [j for j, _ in gen_bool_pairs(rng, nfl // 2)] + [[], [True], [False], [True] * 5, [False] * 5,
                                                             [True, False, True], [False, True, False]]
    check_fl_runs(vecs, out, 'fl_runs')
    if tier == 'thorough':
        # exhaustive: every pair of boolean vectors of equal length <= 7, every vector <= 12
        ex = []
        for n in range(0, 8):
            for j in itertools.product([False, True], repeat=n):
                for r in itertools.product([False, True], repeat=n):
                    ex.append((list(j), list(r)))
        check_fl_mystery(ex, out, 'fl_mystery_exh')
        exv = [list(v) for n in range(0, 13) for v in itertools.product([False, True], repeat=n)]
        check_fl_runs(exv, out, 'fl_runs_exh')
        out.notes.append('exhaustive: all %d pairs of equal-length boolean vectors up to length 7 and '
                         'all %d vectors up to length 12' % (len(ex), len(exv)))
    recs = [G.gen_record(rng, G.CLASSES[k % len(G.CLASSES)]) for k in range(ncl)]
    # a third of the records with the water level logged 2-3 times per rainfall step, most of those with an
    # island of readings between two outages (data-interval numbers with a hole); own stream: the records
    # themselves are the same as without this stage
    recs = G.fine_share(recs, C.rng_for(seed, PROP, 'fine'), every=3, phase=1)
    check_cl(recs, out, 'cl')
    out.rule = ('FL: seeded boolean vector pairs (random, sparse, all/no rain, blocks, unequal lengths) '
                'through get_mystery_jump_mask / get_true_interval_masks; CL: synthetic records of 10 '
                'classes through the CLI load+classify (classify rotating no flag / -v / -vv / -vvv; a third of '
                'the records with a 2-3x finer water level series, outages and an island of readings that makes '
                'the stored data-interval numbers skip one), one case per gap-free stretch. Non-trivial: the '
                'mask has both values after some rain (FL), >= 2 runs (runs), or a stretch with a recorded '
                'interval and an unexplained rise after rain (CL); distinct by the boolean vectors.')
    out.samples = [dict(level='FL', jump=j, rain=r) for j, r in gen_bool_pairs(C.rng_for(seed, 's'), 3)[:2]]
    out.samples.append(dict(level='CL', record=recs[0]))
    out.assumptions += ['numpy boolean/array semantics and SQLite storage are exercised, not modelled',
                        'the join of classify is modelled in harness/dataset.py:stretches']


def replay(case, out):
    C.import_spowtd()
    if case['level'] == 'FL-mystery':
        check_fl_mystery([(case['jump'], case['rain'])], out, 'replay')
    elif case['level'] == 'FL-runs':
        check_fl_runs([case['vec']], out, 'replay')
    else:
        check_cl([case['rec']], out, 'replay')
