"""C04 — interstorm intervals and per-step flags.

Correspondence: (FL) classify.get_mystery_jump_mask and
classify.get_true_interval_masks against Model/Mystery.v, Model/Runs.v;
(CL) load + classify through the real CLI, tables grid_time_flags and
zeta_interval(interstorm) against Model/Flags.v evaluated on the loaded data.
Oracle: the property's own definitions evaluated by brute force in Python on
the implementation's tables.
"""
import itertools
import sqlite3

import numpy as np

from harness import classify_common as K
from harness import common as C
from harness import dataset as D
from harness import gen_classify as G

PROP = 'C04'
MODELS = ['Model/Flags.vo']   # .vo files the generated case files import
PRE = 'From Spowtd Require Import Model.Flags.\n'


# ------------------------------------------------------------- implementation

def impl_mystery(jump, rain):
    import spowtd.classify as cl
    try:
        r = cl.get_mystery_jump_mask(np.array(jump, dtype=bool), np.array(rain, dtype=bool))
        return ('ok', [bool(b) for b in r])
    except Exception as e:  # pylint: disable=broad-except
        return ('err', C.err_of(e))


def impl_runs(vec):
    import spowtd.classify as cl
    try:
        masks = list(cl.get_true_interval_masks(np.array(vec, dtype=bool)))
        out = []
        for m in masks:
            idx = np.nonzero(m)[0]
            out.append((int(idx[0]), int(idx[-1]) + 1))
        return ('ok', out)
    except Exception as e:  # pylint: disable=broad-except
        return ('err', C.err_of(e))


# ------------------------------------------------------------- definitions (oracle)

def def_mystery(jump, rain):
    """not mystery_i iff exists r<=i: rain_r and all j in (r,i]: not rain_j and not jump_j"""
    n = len(rain)
    out = []
    for i in range(n):
        dry = any(rain[r] and all((not rain[j]) and (not jump[j]) for j in range(r + 1, i + 1))
                  for r in range(i + 1))
        out.append(not dry)
    return out


def def_interstorm(jump, rain):
    n = len(rain)
    return [(not rain[i]) and any(rain[r] and all((not rain[j]) and (not jump[j])
                                                  for j in range(r + 1, i + 1)) for r in range(i))
            for i in range(n)]


def def_runs(vec):
    n = len(vec)
    out = []
    for s in range(n):
        for e in range(s + 1, n + 1):
            if all(vec[s:e]) and (s == 0 or not vec[s - 1]) and (e == n or not vec[e]):
                out.append((s, e))
    return out


def lin_ok(jump, rain):
    """ok_i := exists r <= i: rain_r and all j in (r, i]: not rain_j and not jump_j, by the recurrence
    ok_i = rain_i or (ok_{i-1} and not rain_i and not jump_i) - the definition in one pass, for vectors too long for
    the brute-force form (cross-checked against it on every short vector, `check_linear`)."""
    out, ok = [], False
    for j, r in zip(jump, rain):
        ok = bool(r) or (ok and not j)
        out.append(ok)
    return out


def lin_mystery(jump, rain):
    return [not ok for ok in lin_ok(jump, rain)]


def lin_interstorm(jump, rain):
    return [(not r) and ok for r, ok in zip(rain, lin_ok(jump, rain))]


BRUTE_MAX = 80      # brute-force definitions up to this length, the one-pass form above it


def the_mystery(jump, rain):
    return def_mystery(jump, rain) if len(rain) <= BRUTE_MAX else lin_mystery(jump, rain)


def the_interstorm(jump, rain):
    return def_interstorm(jump, rain) if len(rain) <= BRUTE_MAX else lin_interstorm(jump, rain)


def the_runs(vec):
    return def_runs(vec) if len(vec) <= BRUTE_MAX else K.runs_of(vec)


def check_linear(jump, rain, out):
    """The one-pass oracles agree with the brute-force definitions on this (short) input - else the harness is wrong."""
    if len(jump) != len(rain) or len(rain) > BRUTE_MAX:
        return
    if lin_mystery(jump, rain) != def_mystery(jump, rain) or lin_interstorm(jump, rain) != def_interstorm(jump, rain) \
            or K.runs_of(rain) != def_runs(rain):
        out.corr_errors.append('one-pass oracle differs from the brute-force definition on jump=%s rain=%s' % (jump, rain))
    out.count('one-pass-oracle-cross-checked-against-brute-force')


# ------------------------------------------------------------- FL cases

def gen_bool_pairs(rng, count):
    cases = []
    for k in range(count):
        n = rng.choice([0, 1, 2, 3, 5, 8, 13, 21, 34, 60]) if k % 7 == 0 else rng.randrange(1, 40)
        mode = k % 5
        if mode == 0:
            rain = [rng.random() < 0.5 for _ in range(n)]
            jump = [rng.random() < 0.5 for _ in range(n)]
        elif mode == 1:  # sparse rain, sparse jumps: long recessions
            rain = [rng.random() < 0.12 for _ in range(n)]
            jump = [rng.random() < 0.12 for _ in range(n)]
        elif mode == 2:  # no rain / all rain
            rain = [k % 2 == 0] * n
            jump = [rng.random() < 0.3 for _ in range(n)]
        elif mode == 3:  # blocks
            rain, jump = [], []
            while len(rain) < n:
                ln = rng.randrange(1, 6)
                r, j = rng.random() < 0.4, rng.random() < 0.3
                rain += [r] * ln
                jump += [j] + [rng.random() < 0.1 for _ in range(ln - 1)]
            rain, jump = rain[:n], jump[:n]
        else:
            rain = [rng.random() < 0.25 for _ in range(n)]
            jump = [rng.random() < 0.6 for _ in range(n)]
        cases.append((jump, rain))
    # malformed: unequal lengths
    for _ in range(max(3, count // 100)):
        cases.append(([True] * rng.randrange(0, 4), [False] * rng.randrange(4, 7)))
    return cases


def fl_mystery_case_str(jump, rain, res):
    r = '(Ok %s)' % C.cbools(res[1]) if res[0] == 'ok' else '(Err %s)' % res[1]
    return '(%s, %s, %s)' % (C.cbools(jump), C.cbools(rain), r)


def check_fl_mystery(cases, out, label):
    strs, results = [], []
    for jump, rain in cases:
        res = impl_mystery(jump, rain)
        results.append(res)
        strs.append(fl_mystery_case_str(jump, rain, res))
        out.evaluations += 1
        out.count('FL-mystery')
        if res[0] == 'ok':
            # oracle: the definition, by brute force
            want = def_mystery(jump, rain)
            check_linear(jump, rain, out)
            if res[1] != want:
                out.violation('oracle', 'get_mystery_jump_mask disagrees with the definition of the '
                              'unexplained-rise flag on jump=%s rain=%s: got %s want %s'
                              % (jump, rain, res[1], want),
                              case=dict(level='FL-mystery', jump=jump, rain=rain))
            if any(res[1]) and not all(res[1]) and any(rain):
                out.nontriv(('m', tuple(jump), tuple(rain)))
        elif len(jump) == len(rain):
            out.violation('oracle', 'get_mystery_jump_mask raised %s on equal-length vectors jump=%s rain=%s'
                          % (res[1], jump, rain), case=dict(level='FL-mystery', jump=jump, rain=rain))
        else:
            out.count('FL-mystery-malformed')
    bad, errs, _ = C.run_case_shards(
        PROP, label, PRE, 'list bool * list bool * res (list bool)',
        'fun c => match c with (j, r, i) => res_eqb bools_eqb (mystery_mask j r) i end', strs)
    out.corr_errors += errs
    for i in bad:
        jump, rain = cases[i]
        out.violation('corr', 'model mystery_mask <> classify.get_mystery_jump_mask on jump=%s rain=%s impl=%s'
                      % (jump, rain, results[i]), case=dict(level='FL-mystery', jump=jump, rain=rain))


def check_fl_runs(vecs, out, label):
    strs, results = [], []
    for v in vecs:
        res = impl_runs(v)
        results.append(res)
        out.evaluations += 1
        out.count('FL-runs')
        if res[0] == 'ok':
            want = def_runs(v)
            if res[1] != want:
                out.violation('oracle', 'get_true_interval_masks does not list the maximal runs of %s: got %s want %s'
                              % (v, res[1], want), case=dict(level='FL-runs', vec=v))
            if len(want) >= 2:
                out.nontriv(('r', tuple(v)))
            r = '(Ok %s)' % C.clist([C.cpair(C.cnat(a), C.cnat(b)) for a, b in res[1]])
        else:
            out.violation('oracle', 'get_true_interval_masks raised %s on %s' % (res[1], v),
                          case=dict(level='FL-runs', vec=v))
            r = '(Err %s)' % res[1]
        strs.append('(%s, %s)' % (C.cbools(v), r))
    bad, errs, _ = C.run_case_shards(
        PROP, label, PRE, 'list bool * res (list (nat * nat))',
        'fun c => res_eqb natpairs_eqb (Ok (true_runs (fst c))) (snd c) '
        '&& res_eqb natpairs_eqb (Ok (true_runs_loop (fst c))) (snd c)', strs)
    out.corr_errors += errs
    for i in bad:
        out.violation('corr', 'model true_runs <> classify.get_true_interval_masks on %s impl=%s'
                      % (vecs[i], results[i]), case=dict(level='FL-runs', vec=vecs[i]))


# ------------------------------------------------------------- FL, large (oracle only)

def big_vector(spec):
    """Boolean vector with spec['runs'] runs of True (lengths 1..2, or 1..9 when 'wide') separated by 1..2 False, from a
    private stream; begins / ends with True or False as the stream decides."""
    import random
    rng = random.Random(spec['rseed'])
    v = [False] * rng.randrange(0, 3)
    for _ in range(spec['runs']):
        v += [True] * (rng.choice([1, 1, 1, 2]) if not spec.get('wide') else rng.randrange(1, 10))
        v += [False] * rng.choice([1, 1, 2])
    if rng.random() < 0.5:
        while v and not v[-1]:
            v.pop()
    return v


def run_counts(rng, tier):
    """Numbers of separate runs past the sizes at which a run counter / label array could wrap or be cut."""
    quick = [G.odd_size(rng, 1030, 4090), G.odd_size(rng, 8200, 10000), rng.randrange(32769, 33400)]
    if tier == 'quick':
        return quick
    return quick + [G.odd_size(rng, 4100, 8190), G.odd_size(rng, 10001, 16380), G.odd_size(rng, 16390, 32760),
                    rng.randrange(65537, 66000), 32767, 32768, 256, 257, 65535]


def check_fl_large(specs, out):
    """get_true_interval_masks on vectors with thousands of runs (number and position of every run against a one-pass
    scan) and get_mystery_jump_mask on vectors of the same lengths (against the one-pass form of the definition).
    Oracle only: nothing is sent to Coq."""
    import random
    for spec in specs:
        v = big_vector(spec)
        out.evaluations += 1
        out.count('FL-runs-large(runs>%d)' % max(b for b in [0, 1000, 1024, 4096, 8192, 10000, 16384, 32767, 65535] if b < spec['runs']))
        case = dict(level='FL-large', spec=spec)
        res = impl_runs(v)
        want = K.runs_of(v)
        if res[0] != 'ok':
            out.violation('oracle', 'get_true_interval_masks raised %s on a vector of %d elements with %d runs of True'
                          % (res[1], len(v), len(want)), case=case)
        elif res[1] != want:
            k = next((i for i, (a, b) in enumerate(zip(res[1], want)) if a != b), min(len(res[1]), len(want)))
            out.violation('oracle', 'get_true_interval_masks on a vector of %d elements with %d runs of True: %d masks '
                          'returned; first difference at run %d: got %s, the run is %s'
                          % (len(v), len(want), len(res[1]), k, res[1][k] if k < len(res[1]) else None,
                             want[k] if k < len(want) else None), case=case)
        else:
            out.nontriv(('r-large', spec['runs'], spec['rseed']))
        rng = random.Random(spec['rseed'] + 1)
        rain = [(not x) and rng.random() < 0.3 for x in v]
        jump = [x and rng.random() < 0.4 or rng.random() < 0.02 for x in v]
        out.evaluations += 1
        out.count('FL-mystery-large')
        resm = impl_mystery(jump, rain)
        if resm[0] != 'ok':
            out.violation('oracle', 'get_mystery_jump_mask raised %s on vectors of %d elements' % (resm[1], len(v)), case=case)
        elif resm[1] != lin_mystery(jump, rain):
            k = next(i for i, (a, b) in enumerate(zip(resm[1], lin_mystery(jump, rain))) if a != b)
            out.violation('oracle', 'get_mystery_jump_mask on vectors of %d elements differs from the definition of the '
                          'unexplained-rise flag first at index %d' % (len(v), k), case=case)


# ------------------------------------------------------------- CL cases

def read_classification(db):
    con = sqlite3.connect(db)
    try:
        flags = {r[0]: tuple(bool(x) for x in r[1:]) for r in con.execute(
            'SELECT start_epoch, is_jump, is_mystery_jump, is_interstorm FROM grid_time_flags')}
        inter = con.execute("SELECT start_epoch, thru_epoch FROM zeta_interval "
                            "WHERE interval_type = 'interstorm' ORDER BY start_epoch").fetchall()
    finally:
        con.close()
    return flags, inter


def cl_case(rec, d, out):
    """Run load + classify (at the verbosity rec['verb']) on a record. Returns dict with per-stretch data."""
    ds = G.to_dataset(rec)
    db, stage, exc = K.run_commands(rec, ds, d, out)
    if rec.get('env'):
        K.env_compare(rec, ds, db, stage, exc, out, PROP, dict(level='CL', rec=rec))
    if stage != 'done':
        return dict(stage=stage, exc=exc)
    st, step = D.stretches(db)
    K.label_hole(st, out)
    flags, inter = read_classification(db)
    return dict(stage='done', stretches=st, step=step, flags=flags, inter=inter)


def check_cl(recs, out, label, coq=True):
    """coq=False: large records (compact specs), judged by the oracle alone (one-pass form of the definitions).
    Records carrying rec['env'] go through load + classify in a child process under that environment variant."""
    strs, meta = [], []
    recs = [K.with_verbosity(rec, k) for k, rec in enumerate(recs)]
    for k, rec in enumerate(recs):
        d = D.scratch(PROP, 'cl_db')
        r = cl_case(rec, d, out)
        out.evaluations += 1
        out.count('CL:' + rec['cls'])
        if rec.get('fine', 1) > 1:
            out.count('CL-fine-water-level(x%d)%s' % (rec['fine'], '+island' if rec.get('island') else ''))
        if rec.get('far'):
            out.count('CL-far-origin:' + G.far_kind(rec))
        case = dict(level='CL', rec=rec, coq=coq)
        if r['stage'] == 'load':
            out.count('CL-load-refused')
            continue
        if r['stage'] == 'classify':
            out.violation('oracle', 'classify raised %s: %s on a loaded dataset (class %s%s%s)'
                          % (type(r['exc']).__name__, str(r['exc'])[:300], rec['cls'],
                             (', origin %s' % D.fmt_utc(rec['t0'])) if rec.get('far') else '',
                             (', environment %s' % rec['env']) if rec.get('env') else ''), case=case)
            continue
        step = r['step']
        delta = rec['thr_j'] * (step / 3600.0)
        seen_epochs = set()
        claimed = []
        for st in r['stretches']:
            ep, rain, zeta = st['epoch'], st['rain'], st['zeta']
            if not ep:
                continue
            seen_epochs |= set(ep)
            idx = {e: i for i, e in enumerate(ep)}
            missing = [e for e in ep if e not in r['flags']]
            if missing:
                out.violation('oracle', 'no grid_time_flags row for %d samples of stretch %s'
                              % (len(missing), st['label']), case=case)
                continue
            ij = [r['flags'][e][0] for e in ep]
            im = [r['flags'][e][1] for e in ep]
            ii = [r['flags'][e][2] for e in ep]
            iv = [(idx[a], idx[b]) for a, b in r['inter'] if a in idx and b in idx]
            claimed += [(a, b) for a, b in r['inter'] if a in idx and b in idx]
            # oracle from the definitions (IEEE arithmetic as the property states it:
            # increment strictly above threshold x step)
            wet = [x > 0 for x in rain]
            jump = [False] + [(zeta[i + 1] - zeta[i]) > delta for i in range(len(zeta) - 1)]
            want_m, want_i = the_mystery(jump, wet), the_interstorm(jump, wet)
            want_iv = [(a, b - 1) for a, b in the_runs(want_i) if b - a >= 2]
            check_linear(jump, wet, out)
            big = len(ep) > 200
            where = lambda x, y: ''                                                # noqa: E731
            if big:
                # long record: show the neighbourhood of the first difference instead of the whole vectors
                def where(x, y):
                    k = next((i for i, (a, b) in enumerate(zip(x, y)) if a != b), min(len(x), len(y)))
                    return ' [%d samples; %d vs %d entries; first difference at index %d: stored %s expected %s]' % (
                        len(ep), len(x), len(y), k, x[max(0, k - 3):k + 4], y[max(0, k - 3):k + 4])
                out.count('CL-large:%s:samples' % rec['cls'], len(ep))
                out.count('CL-large:%s:interstorm-intervals' % rec['cls'], len(want_iv))
                out.count('CL-large:interval-or-unexplained-rise-across-a-block-edge',
                          sum(1 for p in G.block_edges(len(ep), margin=1) if (want_i[p - 1] and want_i[p]) or (want_m[p - 1] and want_m[p])))
            show = (lambda x: '...') if big else (lambda x: x)
            if ij != jump:
                out.violation('oracle', 'stored rise flag differs from "increment > threshold x step" '
                              'at stretch %s: stored %s expected %s%s' % (st['label'], show(ij), show(jump), where(ij, jump)), case=case)
            if im != want_m:
                out.violation('oracle', 'stored unexplained-rise flag differs from its definition at '
                              'stretch %s: stored %s expected %s%s' % (st['label'], show(im), show(want_m), where(im, want_m)), case=case)
            if ii != want_i:
                out.violation('oracle', 'stored interstorm flag differs from its definition at stretch '
                              '%s: stored %s expected %s%s' % (st['label'], show(ii), show(want_i), where(ii, want_i)), case=case)
            if iv != want_iv:
                out.violation('oracle', 'recorded interstorm intervals %s differ from the maximal '
                              'clean rain-free stretches %s (stretch %s)%s' % (show(iv), show(want_iv), st['label'], where(iv, want_iv)),
                              case=case)
            if want_iv and (big or any(want_m[i] and any(wet[:i]) for i in range(len(wet)))):
                out.nontriv(K.flags_key('cl', jump, wet))
            if not coq:
                continue
            strs.append('(%s, %s, %s, %s, {| sf_jump := %s; sf_mystery := %s; sf_interstorm := %s; '
                        'sf_intervals := %s |})'
                        % (C.cfloat(rec['thr_j']), C.cZ(step), C.cfloats(rain), C.cfloats(zeta),
                           C.cbools(ij), C.cbools(im), C.cbools(ii),
                           C.clist([C.cpair(C.cnat(a), C.cnat(b)) for a, b in iv])))
            meta.append((k, st['label']))
        extra = [e for e in r['flags'] if e not in seen_epochs]
        if extra:
            out.violation('oracle', 'grid_time_flags has %d rows outside every gap-free stretch' % len(extra),
                          case=case)
        if len(claimed) != len(r['inter']):
            out.violation('oracle', 'an interstorm interval extends across a gap or outside the '
                          'stretches: %s' % [x for x in r['inter'] if x not in claimed], case=case)
    bad, errs, _ = C.run_case_shards(
        PROP, label, PRE, 'float * Z * list float * list float * stretch_flags',
        'fun c => match c with (thr, step, rain, z, i) => '
        'stretch_flags_eqb (classify_interstorms_stretch thr step rain z) i end', strs)
    out.corr_errors += errs
    for i in bad:
        k, lab = meta[i]
        out.violation('corr', 'model classify_interstorms_stretch <> tables written by classify '
                      '(record %d, stretch %s)' % (k, lab), case=dict(level='CL', rec=recs[k]))


def run(ctx, out):
    C.import_spowtd()
    seed, tier = ctx['seed'], ctx['tier']
    rng = C.rng_for(seed, PROP)
    nfl = 3000 if tier == 'quick' else 30000
    ncl = 120 if tier == 'quick' else 1200
    check_fl_mystery(gen_bool_pairs(rng, nfl), out, 'fl_mystery')
    vecs = [j for j, _ in gen_bool_pairs(rng, nfl // 2)] + [[], [True], [False], [True] * 5, [False] * 5,
                                                             [True, False, True], [False, True, False]]
    check_fl_runs(vecs, out, 'fl_runs')
    if tier == 'thorough':
        # exhaustive: every pair of boolean vectors of equal length <= 7, every vector <= 12
        ex = []
        for n in range(0, 8):
            for j in itertools.product([False, True], repeat=n):
                for r in itertools.product([False, True], repeat=n):
                    ex.append((list(j), list(r)))
        check_fl_mystery(ex, out, 'fl_mystery_exh')
        exv = [list(v) for n in range(0, 13) for v in itertools.product([False, True], repeat=n)]
        check_fl_runs(exv, out, 'fl_runs_exh')
        out.notes.append('exhaustive: all %d pairs of equal-length boolean vectors up to length 7 and '
                         'all %d vectors up to length 12' % (len(ex), len(exv)))
    recs = [G.gen_record(rng, G.CLASSES[k % len(G.CLASSES)]) for k in range(ncl)]
    # a third of the records with the water level logged 2-3 times per rainfall step, most of those with an
    # island of readings between two outages (data-interval numbers with a hole); own stream: the records
    # themselves are the same as without this stage
    recs = G.fine_share(recs, C.rng_for(seed, PROP, 'fine'), every=3, phase=1)
    # every 5th record dated where epochs leave the 32-bit range (around 2038 / 2106 / 1901, centuries away); own stream
    recs = G.far_share(recs, C.rng_for(seed, PROP, 'far'))
    # environment stage: records with a recorded dry spell once more, load + classify in a child process under
    # `python -O` (twice) and two other variants of harness.envcheck; judged alike and compared with the default run
    recs_env = K.env_records(recs, C.rng_for(seed, PROP, 'env'), seed,
                             fits=lambda r: r['cls'] in ('events', 'threshold', 'gappy', 'random', 'norain') and len(r['rain']) >= 12)
    check_cl(recs + recs_env, out, 'cl')
    large_stage(seed, tier, out)
    out.rule = ('FL: seeded boolean vector pairs (random, sparse, all/no rain, blocks, unequal lengths) '
                'through get_mystery_jump_mask / get_true_interval_masks; CL: synthetic records of 10 '
                'classes through the CLI load+classify (classify rotating no flag / -v / -vv / -vvv; a third of '
                'the records with a 2-3x finer water level series, outages and an island of readings that makes '
                'the stored data-interval numbers skip one), one case per gap-free stretch; every 5th CL record dated '
                'beyond the 32-bit range of epochs; environment stage: 4 records with dry spells and rainy steps through '
                'load + classify in a child process (python -O twice, two of TZ=.. / -vvv / other directory / random hash '
                'seed), judged alike and tables compared with the default run; LARGE-INPUT stage, oracle only (nothing of '
                'it is sent to Coq: reading the literals would dominate; the one-pass form of the definitions is '
                'cross-checked against the brute-force form on every short case): get_true_interval_masks on vectors with '
                '1030-4090 / 8200-10000 / more than 32768 separate runs (thorough: more than 65536) and '
                'get_mystery_jump_mask on vectors as long; one gap-free record of 8300-20000 samples through the CLI with '
                'thousands of dry spells, dry spells laid across every sample index that is a multiple of 1000 / 1024 / '
                '4096 / 8192 / 10000 / 16384 or of one less (thorough: a record with more than 32768 recorded dry spells). '
                'Non-trivial: the '
                'mask has both values after some rain (FL), >= 2 runs (runs), or a stretch with a recorded '
                'interval and an unexplained rise after rain (CL); distinct by the boolean vectors.')
    out.samples = [dict(level='FL', jump=j, rain=r) for j, r in gen_bool_pairs(C.rng_for(seed, 's'), 3)[:2]]
    out.samples.append(dict(level='CL', record=recs[0]))
    out.assumptions += ['numpy boolean/array semantics and SQLite storage are exercised, not modelled',
                        'the join of classify is modelled in harness/dataset.py:stretches']


def large_stage(seed, tier, out):
    rng = C.rng_for(seed, PROP, 'large')
    specs = [dict(runs=r, rseed=rng.getrandbits(40), wide=(k % 4 == 1)) for k, r in enumerate(run_counts(rng, tier))]
    check_fl_large(specs, out)
    recs = [G.gen_spells_spec(rng, G.odd_size(rng, 8300, 20000), period=rng.choice([3, 4, 6]))]
    if tier != 'quick':
        # more than 32767 SEPARATE recorded dry spells in one gap-free record (light rain every third or fourth step)
        recs += [G.gen_spells_spec(rng, G.odd_size(rng, 116000, 120000), period=3, jumps=0.02),
                 G.gen_spells_spec(rng, G.odd_size(rng, 33000, 60000), period=8)]
    check_cl(recs, out, 'cl_large', coq=False)


def replay(case, out):
    C.import_spowtd()
    if case['level'] == 'FL-large':
        check_fl_large([case['spec']], out)
    elif case['level'] == 'FL-mystery':
        check_fl_mystery([(case['jump'], case['rain'])], out, 'replay')
    elif case['level'] == 'FL-runs':
        check_fl_runs([case['vec']], out, 'replay')
    else:
        check_cl([case['rec']], out, 'replay', coq=case.get('coq', True))
