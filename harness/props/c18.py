"""C18 — the simulated recession curve obeys the water-balance equation.

Correspondence:
  (FL) simulate_recession.compute_recession_curve on spline / PEATCLSM specific
       yield x spline / PEATCLSM transmissivity objects built by the real code,
       ET / curvature lattices (one of them may be 0), grids below the
       transmissivity ceiling (ascending, master-like, reversed, refined),
       against Model/SimRecession.v in two certified stages:
       (R) every call of scipy.integrate.quad made by the function is captured
           from outside (value and reported error) and Coq proves, with the
           `integral` tactic of the Interval library,
             | sum over the pieces of the cell of RInt (integrand Sy T ET kappa) - value | <= tol
           where Sy is the exact not-a-knot cubic computed inside Coq from the
           knots (Model/SplineWrapPP.v) or the order-1 interpolant of the
           PEATCLSM knots, T the closed form of Model/Transm.v (= minimum +
           integral, C15) or the PEATCLSM formula x 86400; the cell is split
           at the knots of both functions (C18_cell_split).  tol = 2 x quad's own
           error estimate + |value| x (2 delta + 1e-10), delta = the measured
           relative deviation of the transmissivity values handed to quad from
           the closed form at quad's own nodes (the inner QUADPACK integration
           of the conductivity), capped at 1e-3;
       (Q) recession_curve_gen over exact rationals with those quad values as
           a table: asserts, dt[0] = 0, cumulative sum, mean shift (1e-10);
  (CL) `spowtd simulate recession DB PARAMS [--observations] -o FILE` on
       datasets with time-varying ET assembled through the real CLI;
       compute_recession_curve is wrapped from outside (no source edit) to
       capture the arguments (ET, curvature, grid, mean, the transmissivity
       callable) and the returned vector; Model [simulate_recession] over the
       dumped tables must hand over the same arguments and produce the parsed
       table / vector; the captured call goes through stages (Q) and (R).
Oracle (independent of the model): differences of the returned curve against a
Gauss-Legendre area of an integrand built from own evaluations (exact
not-a-knot cubic by Fractions, closed-form transmissivity written here), the
mean, time increasing downward, refinement / reversal invariance, the zero-
curvature identity against compute_rise_curve, ET recomputed from the dumped
tables with Fractions (row average and time-weighted average), the layout of
the output against the view.
Command histories (CL): on two datasets out of three `set-curvature` is issued again before the simulation
(another value, the same value, zero, two more times); every command is recorded (accepted / refused, what the
dataset stores afterwards).  The curvature in force is what a fresh reader finds stored: exactly one row (the
schema's singleton), equal to the value of the last accepted command, untouched by refused ones - and that is
the curvature the simulated differences are held against.
Extremes and size (oracle only; nothing of these stages is handed to Coq, where reading the literals would
dominate): compute_recession_curve on parameter sets referred to a datum +-1e6 mm away and on grids whose steps
are 1e-3 .. 1e-6 of the magnitude of the levels (each reversed and refined); `spowtd simulate recession` in both
modes on a dataset whose master recession curve has more than 1024 levels (thorough: 1000 .. 8192;
harness.gen_pest.gen_long_curves_record): row k of the table = the k-th highest level of the master curve
recomputed from the base tables, then every oracle of the ordinary command-level cases.
"""
import io
import math
import os
import sqlite3
import warnings
from fractions import Fraction as F

import numpy as np
import yaml

from harness import common as C
from harness import dataset as D
from harness import gen_hydraulic as H
from harness import gen_spline as GS
from harness import gen_pest as GP
from harness import curves_common as CC

PROP = 'C18'
MODELS = ['Model/SimRecessionEval.vo', 'Proofs/SimRecessionTac.vo', 'Model/TransmEval.vo']
PREQ = ('From Coq Require Import QArith PrimFloat ZArith.\n'
        'From Spowtd Require Import Model.SimRecessionEval.\n')
RMODS = ('Model.Transm Model.TransmEval Model.Peatclsm Model.SplineWrapPP Model.SimRecession '
         'Proofs.SimRecessionTac')
RHEAD = 'From Coq Require Import QArith Qreals.\nOpen Scope R_scope.\n'

PEAT_PUBLISHED = dict(sd=0.162, theta_s=0.88, b=7.4, psi_s=-0.024)
_PEAT_CACHE = {}
DELTA_CAP = 2e-2     # beyond: SplineTransmissivity itself is inaccurate (C15's subject) - case set aside
DELTA_WRONG = 0.5    # beyond: not the parameter set's transmissivity in m2/d at all
MAX_INNER = 8      # cells cut into more pieces are left to the oracle and stage (Q)
REL_FLOOR = 1e-10


def fl(x):
    return float(np.asarray(x).reshape(()))


# ------------------------------------------------------------- hydraulic objects (real code)

def build_sy(spec):
    import spowtd.specific_yield as sy
    if spec['type'] == 'spline':
        return sy.create_specific_yield_function(
            dict(type='spline', zeta_knots_mm=list(spec['knots']), sy_knots=list(spec['values'])))
    key = (C.REPO, spec['sd'], spec['theta_s'], spec['b'], spec['psi_s'])
    if key not in _PEAT_CACHE:
        with warnings.catch_warnings():
            warnings.simplefilter('ignore')
            _PEAT_CACHE[key] = sy.create_specific_yield_function(
                dict(type='peatclsm', sd=spec['sd'], theta_s=spec['theta_s'], b=spec['b'], psi_s=spec['psi_s']))
    return _PEAT_CACHE[key]


def T_params(spec):
    if spec['type'] == 'spline':
        return dict(type='spline', zeta_knots_mm=[float(x) for x in spec['zk']],
                    K_knots_km_d=[float(x) for x in spec['K']], minimum_transmissivity_m2_d=float(spec['Tmin']))
    return dict(type='peatclsm', Ksmacz0=spec['Ks'], alpha=spec['alpha'], zeta_max_cm=spec['zmax'])


def build_T(spec):
    """The callable the command hands to compute_recession_curve (m2/d)."""
    import spowtd.transmissivity as tm
    T = tm.create_transmissivity_function(T_params(spec))
    if spec['type'] == 'peatclsm':
        return lambda z: T(z) * 24 * 3600
    return T


def sy_params(spec):
    if spec['type'] == 'spline':
        return dict(type='spline', zeta_knots_mm=[float(x) for x in spec['knots']],
                    sy_knots=[float(y) for y in spec['values']])
    return dict(type='peatclsm', sd=spec['sd'], theta_s=spec['theta_s'], b=spec['b'], psi_s=spec['psi_s'])


def ceiling(T_spec):
    return T_spec['zk'][-1] if T_spec['type'] == 'spline' else 10.0 * T_spec['zmax']


# ------------------------------------------------------------- own evaluations (oracle)

class Own:
    """Specific yield and transmissivity evaluated without spowtd / FITPACK /
    QUADPACK: exact not-a-knot cubic (Fractions) evaluated in floats, order-1
    interpolation of the PEATCLSM knot values, closed-form transmissivity.
    Vectorised (numpy arrays in, arrays out)."""

    def __init__(self, sy_spec, sy_obj, T_spec):
        self.T_spec = T_spec
        if sy_spec['type'] == 'spline':
            self.syk = [float(x) for x in sy_spec['knots']]
            segs = GS.notaknot_pp(self.syk, [float(y) for y in sy_spec['values']])
            self.coef = np.array([[float(c) for c in cs] for _, cs in segs])
            self.lin = None
        else:
            self.syk = [float(x) for x in sy_obj.zeta_knots_mm]
            self.lin = np.array([float(y) for y in sy_obj.sy_knots])
        self.syk_a = np.array(self.syk)
        if T_spec['type'] == 'spline':
            self.tk = [float(x) for x in T_spec['zk']]
            zk, K = np.array(self.tk), np.array([float(k) for k in T_spec['K']])
            self.zk_a, self.K_a = zk, K
            self.b = (np.log(K[1:]) - np.log(K[:-1])) / (zk[1:] - zk[:-1])
            self.flat = K[1:] == K[:-1]
            full = self._seg(np.arange(len(zk) - 1), zk[1:])
            self.cum = float(T_spec['Tmin']) + np.concatenate(([0.0], np.cumsum(full)[:-1]))
        else:
            self.tk = []

    def _seg(self, idx, x):
        x0, k0, b = self.zk_a[idx], self.K_a[idx], self.b[idx]
        safe_b = np.where(self.flat[idx], 1.0, b)
        return np.where(self.flat[idx], k0 * (x - x0), k0 * np.expm1(safe_b * (x - x0)) / safe_b)

    def sy(self, z):
        z = np.atleast_1d(np.asarray(z, dtype=float))
        x = np.clip(z, self.syk_a[0], self.syk_a[-1])
        if self.lin is not None:
            return np.interp(x, self.syk_a, self.lin)
        idx = np.clip(np.searchsorted(self.syk_a, x, side='right') - 1, 0, len(self.coef) - 1)
        t = x - self.syk_a[idx]
        c = self.coef[idx]
        return c[:, 0] + t * (c[:, 1] + t * (c[:, 2] + t * c[:, 3]))

    def T(self, z):
        z = np.atleast_1d(np.asarray(z, dtype=float))
        s = self.T_spec
        if s['type'] == 'peatclsm':
            return s['Ks'] * np.power(s['zmax'] - z / 10.0, 1 - s['alpha']) / (100 * (s['alpha'] - 1)) * 86400.0
        idx = np.clip(np.searchsorted(self.zk_a, z, side='left') - 1, 0, len(self.zk_a) - 2)
        val = self.cum[idx] + self._seg(idx, np.maximum(z, self.zk_a[0]))
        return np.where(z <= self.zk_a[0], float(s['Tmin']), val)

    def f(self, ET, kappa):
        return lambda zs: self.sy(zs) / (-ET - kappa * self.T(zs))

    def breaks(self):
        return sorted(set(self.syk) | set(self.tk))

    def integral(self, ET, kappa, a, b):
        """Gauss-Legendre between the knots of both functions, bisecting every
        piece until two levels of refinement agree to 1e-14 - or until bisecting no longer
        brings them closer although they agree to 1e-8 already: what is left then is the
        rounding of the levels themselves (at levels around 1e6 mm a node is placed to 1e-10 mm
        only, the integrand is known to about 1e-12 of its value whatever the width of the piece),
        which no refinement removes.  self.noise = the disagreement left, summed over the pieces
        (the oracle's tolerance takes it in)."""
        f = self.f(ET, kappa)
        self.noise = 0.0
        if a == b:
            return 0.0
        sign = 1.0
        if a > b:
            a, b, sign = b, a, -1.0
        pts = [a] + [x for x in self.breaks() if a < x < b] + [b]
        left_over = []

        def rec(p, q, whole, depth, parent):
            m = 0.5 * (p + q)
            left, right = H.gauss_legendre(f, p, m, 40), H.gauss_legendre(f, m, q, 40)
            err = abs(left + right - whole)
            if depth >= 14 or err <= 1e-14 * abs(whole) + 1e-300 \
                    or (depth >= 1 and err <= 1e-8 * abs(whole) and err >= 0.25 * parent):
                left_over.append(err)
                return left + right
            return rec(p, m, left, depth + 1, err) + rec(m, q, right, depth + 1, err)
        total = sign * math.fsum(rec(p, q, H.gauss_legendre(f, p, q, 40), 0, math.inf)
                                 for p, q in zip(pts[:-1], pts[1:]))
        self.noise = math.fsum(left_over)
        return total


# ------------------------------------------------------------- instrumented runs

class Capture:
    def __init__(self):
        self.cells = []     # (a, b, value, abserr, node_lo, node_hi)
        self.nodes = []     # (z, T(z)) in call order


def run_curve(sy_obj, T_call, grid, mean, kappa, ET, fn=None):
    """compute_recession_curve with scipy.integrate.quad and the transmissivity
    callable wrapped from outside. Returns (('ok', vector) | ('err', kind), Capture)."""
    import scipy.integrate as si
    import spowtd.simulate_recession as sr
    cap = Capture()
    orig = si.quad

    def wq(func, a, b, *args, **kw):
        outer = 'compute_recession_curve' in getattr(func, '__qualname__', '')
        n0 = len(cap.nodes)
        r = orig(func, a, b, *args, **kw)
        if outer:
            cap.cells.append((float(a), float(b), float(r[0]), float(r[1]), n0, len(cap.nodes)))
        return r

    def Tw(z):
        v = T_call(z)
        cap.nodes.append((float(z), float(v)))
        return v
    si.quad = wq
    try:
        with warnings.catch_warnings():
            warnings.simplefilter('ignore')
            t = (fn or sr.compute_recession_curve)(sy_obj, Tw, np.array(grid, dtype=float), mean, kappa, ET)
        res = ('ok', [float(x) for x in t])
    except Exception as e:  # pylint: disable=broad-except
        res = ('err', C.err_of(e))
    finally:
        si.quad = orig
    return res, cap


def cell_delta(own, cap, cell, kappa):
    """Largest relative deviation of the transmissivity values quad saw in this
    cell from the closed form (0 when curvature is 0: T plays no role)."""
    nodes = cap.nodes[cell[4]:cell[5]]
    if kappa == 0 or not nodes:
        return 0.0
    z = np.array([n[0] for n in nodes])
    v = np.array([n[1] for n in nodes])
    ref = own.T(z)
    if not (np.all(np.isfinite(v)) and np.all(ref > 0)):
        return math.inf
    return float(np.max(np.abs(v - ref) / ref))


def quad_defect(own, ET, kappa, cell):
    """True error of the same QUADPACK routine (same settings) on the oracle's
    closed-form integrand over this cell: QUADPACK's own estimate is not a
    bound where the integrand has a kink (ends of the spline's knot range,
    knots of the transmissivity)."""
    import scipy.integrate as si
    with warnings.catch_warnings():
        warnings.simplefilter('ignore')
        f = own.f(ET, kappa)
        q = si.quad(lambda z: float(f(z)[0]), cell[0], cell[1])[0]
    return abs(q - own.integral(ET, kappa, cell[0], cell[1]))


def cell_slack(own, cap, cell, ET, kappa):
    """(delta, defect) of one cell."""
    return cell_delta(own, cap, cell, kappa), quad_defect(own, ET, kappa, cell)


def cell_tol(cell, slack):
    """2 x quad's estimate + 4 x measured QUADPACK defect + |value| x (2 delta + 1e-10) + 1e-15,
    rounded up to a 20-bit dyadic (short literal)."""
    delta, defect = slack
    t = (F(2 * cell[3]) + F(4 * defect) + abs(F(cell[2])) * (F(2 * min(delta, DELTA_CAP)) + F(REL_FLOOR))
         + F(1, 10 ** 15))
    m, e = math.frexp(float(t))
    r = F(math.ceil(m * 2 ** 20) + 1, 2 ** 20) * F(2) ** e
    assert r >= t
    return r


# ------------------------------------------------------------- Coq sources

def cQl(xs):
    return '[' + '; '.join(C.cQ(x) for x in xs) + ']%Q'


def peat_window(knots, values, lo, hi, extra=2):
    i0 = max(0, max([i for i, x in enumerate(knots) if x <= lo] or [0]) - extra)
    i1 = min(len(knots) - 1, min([i for i, x in enumerate(knots) if x >= hi] or [len(knots) - 1]) + extra)
    if i1 - i0 < 1:
        i0, i1 = max(0, i0 - 1), min(len(knots) - 1, i1 + 1)
    return knots[i0:i1 + 1], values[i0:i1 + 1]


def cell_goal(n, sy_spec, sy_obj, T_spec, ET, kappa, cell, tol):
    """One `interval` goal: the model's integral over the cell within tol of quad's value."""
    a, b, v = cell[0], cell[1], cell[2]
    lo, hi = min(a, b), max(a, b)
    defs = []
    if sy_spec['type'] == 'spline':
        syk = [float(x) for x in sy_spec['knots']]
        defs.append('Definition syk_%d : list Q := %s.' % (n, cQl(syk)))
        defs.append('Definition syv_%d : list Q := %s.' % (n, cQl(sy_spec['values'])))
        defs.append('Definition sys_%d : list (Q * list Q) := Eval vm_compute in nak_or_nil syk_%d syv_%d.'
                    % (n, n, n))
        defs.append('Definition SY_%d : R -> R := pp_call Rops (RofQs syk_%d) (segsR sys_%d).' % (n, n, n))
        names = 'SY_%d syk_%d syv_%d sys_%d' % (n, n, n, n)
    else:
        kn, vl = peat_window([float(x) for x in sy_obj.zeta_knots_mm], [float(y) for y in sy_obj.sy_knots], lo, hi)
        syk = kn
        defs.append('Definition syk_%d : list Q := %s.' % (n, cQl(kn)))
        defs.append('Definition syv_%d : list Q := %s.' % (n, cQl(vl)))
        defs.append('Definition SY_%d : R -> R := pp_call Rops (RofQs syk_%d) '
                    '(lin_pp Rops (RofQs syk_%d) (RofQs syv_%d)).' % (n, n, n, n))
        names = 'SY_%d syk_%d syv_%d' % (n, n, n)
    if T_spec['type'] == 'spline':
        tk = [float(x) for x in T_spec['zk']]
        defs.append('Definition tk_%d : list (R * R) := %s.' % (n, H.cRpairs(tk, T_spec['K'])))
        defs.append('Definition TT_%d : R -> R := T_closed tk_%d %s.' % (n, n, H.cR(T_spec['Tmin'])))
        names += ' TT_%d tk_%d' % (n, n)
    else:
        tk = []
        defs.append('Definition TT_%d : R -> R := T_m2_d true (T_formula %s %s %s).'
                    % (n, H.cR(T_spec['Ks']), H.cR(T_spec['alpha']), H.cR(T_spec['zmax'])))
        names += ' TT_%d' % n
    defs.append('Ltac uc_%d := cbv beta iota delta [%s].' % (n, names))
    inner = sorted(x for x in set(syk) | set(tk) if lo < x < hi)
    if len(inner) > MAX_INNER:
        return None
    pts = [lo] + inner + [hi]
    if a > b:
        pts = pts[::-1]
    wbits = math.floor(math.log2(float(tol) / (4 * (len(pts) - 1))))
    stmt = ('Rabs (piece_sum quad_ideal (integrand SY_%d TT_%d %s %s) %s [%s] - %s) <= %s'
            % (n, n, H.cR(ET), H.cR(kappa), H.cR(pts[0]), '; '.join(H.cR(p) for p in pts[1:]), H.cR(v), H.cR(tol)))
    return (stmt, 'cell_reduce uc_%d (%d)%%Z' % (n, wbits), 'interval with (i_prec 70)', '\n'.join(defs) + '\n')


def q_case(cap, grid, mean, kappa, ET, res):
    cells = C.clist(['(%s, %s, %s)' % (C.cfloat(c[0]), C.cfloat(c[1]), C.cfloat(c[2])) for c in cap.cells])
    if res[0] == 'ok':
        sc = max([1.0, abs(mean)] + [abs(x) for x in res[1]])
        impl = '(Ok %s)' % C.cfloats(res[1])
    else:
        sc, impl = 1.0, '(Err %s)' % res[1]
    return '(%s, %s, %s, %s, %s, %s, %s)' % (cells, C.cfloats(grid), C.cfloat(mean), C.cfloat(kappa), C.cfloat(ET),
                                             C.cfloat(sc), impl)


# ------------------------------------------------------------- oracle on one curve

def oracle_curve(own, sy_obj, grid, mean, kappa, ET, t, cap, out, case, what):
    """The property's wording on one returned curve. Returns per-cell tolerances."""
    n = len(grid)
    if len(t) != n:
        out.violation('oracle', '%s: %d values for %d levels' % (what, len(t), n), case=case)
        return None
    if len(cap.cells) != max(0, n - 1):
        # the captured calls cannot be laid over the cells (no per-cell error estimate): the property's wording
        # first, with a flat tolerance wider than any inaccuracy of the transmissivity classes that is let pass
        scale = max([1.0, abs(mean)] + [abs(x) for x in t])
        for i in range(n - 1):
            want = own.integral(ET, kappa, grid[i], grid[i + 1])
            if not abs((t[i + 1] - t[i]) - want) <= (2 * DELTA_CAP + 0.01) * abs(want) + 1e-13 * scale + 8 * own.noise:
                out.violation('oracle', '%s: t(%r) - t(%r) = %r but the integral of Sy / (-ET - curvature T) between '
                              'these levels is %r (ET=%r, curvature=%r)' % (what, grid[i + 1], grid[i], t[i + 1] - t[i],
                                                                            want, ET, kappa), case=case)
                return None
        out.violation('corr', '%s: %d calls of quad for %d cells (the model integrates once per cell)'
                      % (what, len(cap.cells), n - 1), case=case)
        return None
    tols = []
    for cell in cap.cells:
        d, defect = cell_slack(own, cap, cell, ET, kappa)
        if d > DELTA_WRONG:
            out.violation('oracle', '%s: the transmissivity handed to the integrand deviates by %.3g (relative) '
                          'from the parameter set\'s transmissivity in m2/d at a level between %r and %r'
                          % (what, d, cell[0], cell[1]), case=case)
            return None
        if d > DELTA_CAP:
            out.count('T-inaccurate>2e-2:set-aside')
            out.notes.append('set aside (C15): transmissivity %r is off by %.3g (relative) from minimum + integral '
                             'of the conductivity at a level between %r and %r' % (case.get('T'), d, cell[0], cell[1]))
            return None
        tols.append(float(cell_tol(cell, (d, defect))))
        out.count('delta_T<=1e-%d' % min(16, max(3, int(-math.log10(d)) if d > 0 else 16)))
        rel = defect / abs(cell[2]) if cell[2] else 0.0
        out.count('quad_defect/value<=1e-%d' % min(16, max(3, int(-math.log10(rel)) if rel > 0 else 16)))
    pairs = [(i, i + 1) for i in range(n - 1)] + ([(0, n - 1), (n - 1, n // 2)] if n > 2 else [])
    scale = max([1.0, abs(mean)] + [abs(x) for x in t])
    for i, j in pairs:
        want = own.integral(ET, kappa, grid[i], grid[j])
        # + binary64 rounding of the cumulative sum and of the mean shift, + what the rounding of the levels
        # themselves leaves undecided in the integral (nil except at levels of very large magnitude)
        tol = sum(tols[min(i, j):max(i, j)]) + 1e-12 * abs(want) + 1e-13 * scale + 8 * own.noise
        if not abs((t[j] - t[i]) - want) <= tol:
            out.violation('oracle', '%s: t(%r) - t(%r) = %r but the integral of Sy / (-ET - curvature T) between '
                          'these levels is %r (ET=%r, curvature=%r)' % (what, grid[j], grid[i], t[j] - t[i], want,
                                                                        ET, kappa), case=case)
            break
    got = math.fsum(t) / n
    if not abs(got - mean) <= 1e-9 * scale:
        out.violation('oracle', '%s: mean of the curve is %r, requested %r' % (what, got, mean), case=case)
    lo, hi = min(grid), max(grid)
    dense = own.sy(np.concatenate((np.linspace(lo, hi, 200), [x for x in own.syk if lo <= x <= hi])))
    if float(np.min(dense)) > 0:
        for i in range(n - 1):
            dz, dt = grid[i + 1] - grid[i], t[i + 1] - t[i]
            if dz != 0 and not dz * dt < 0 and abs(dt) > 4 * tols[i] + 1e-13 * scale:
                out.violation('oracle', '%s: specific yield is positive but time does not increase as the level '
                              'falls: level %r -> %r, time %r -> %r' % (what, grid[i], grid[i + 1], t[i], t[i + 1]),
                              case=case)
                break
    return tols


def oracle_shared(grid, t, tols, grid2, t2, tols2, out, case, what):
    """Differences between shared levels unchanged (refinement / reversal)."""
    pos2 = {}
    for k, z in enumerate(grid2):
        pos2.setdefault(z, k)
    shared = [(i, pos2[z]) for i, z in enumerate(grid) if z in pos2]
    if len(shared) < 2:
        return
    slack = 2 * (sum(tols) + sum(tols2)) + 1e-12 * max(abs(x) for x in t + t2)
    shifts = [t2[k] - t[i] for i, k in shared]
    if max(shifts) - min(shifts) > slack:
        i = max(range(len(shifts)), key=lambda q: abs(shifts[q] - shifts[0]))
        out.violation('oracle', '%s changes the time difference between shared levels %r and %r by %r'
                      % (what, grid[shared[0][0]], grid[shared[i][0]], shifts[i] - shifts[0]), case=case)


def sy_area(sy_obj):
    """Magnitude of the area under the specific yield over its knot range: knot range x largest knot value."""
    knots = getattr(sy_obj, 'zeta_knots_mm', None)
    if knots is None or len(knots) < 2:
        return 0.0
    return (float(knots[-1]) - float(knots[0])) * max(abs(fl(sy_obj(float(x)))) for x in knots)


def oracle_zero_curvature(sy_obj, grid, ET, t, tols, out, case):
    import spowtd.simulate_rise as sr
    try:
        W = [float(w) for w in sr.compute_rise_curve(sy_obj, np.array(grid, dtype=float), mean_storage_mm=0.0)]
    except Exception:  # pylint: disable=broad-except
        return
    # binary64 rounding inside FITPACK's splint is absolute - a few hundred ulp of the area under the whole spline
    # (here: of the box knot range x largest knot value), however narrow the cell (measured: 4.6e-13 mm on a cell of 1e-4 mm under a spline of area 150 mm)
    floor = 1e-13 * sy_area(sy_obj)
    for i in range(len(grid) - 1):
        lhs, rhs = ET * (t[i + 1] - t[i]), -(W[i + 1] - W[i])
        if not abs(lhs - rhs) <= ET * (2 * tols[i] + 1e-13 * max(1.0, max(abs(x) for x in t))) \
                + 1e-9 * max(abs(rhs), 1e-6) + floor:
            out.violation('oracle', 'zero curvature: ET x elapsed time between levels %r and %r = %r but the rise '
                          'curve stores %r there' % (grid[i], grid[i + 1], lhs, rhs), case=case)
            break


# ------------------------------------------------------------- FL cases

LATTICE = [(0.0, 0.75), (3.47, 0.0), (4.31, 1e-3), (0.5, 2.25e-3), (12.0, 0.05), (2.0, 0.75), (0.0, 1e-3),
           (1e-3, 0.0), (4.35, 5e-4), (0.125, 1.5)]


def gen_sy_spec(rng, k):
    if k % 5 == 4:
        if rng.random() < 0.5:
            return dict(type='peatclsm', **PEAT_PUBLISHED)
        return dict(type='peatclsm', sd=round(rng.uniform(0.05, 0.6), 3), theta_s=round(rng.uniform(0.5, 0.98), 3),
                    b=round(rng.uniform(2.0, 12.0), 2), psi_s=-round(rng.uniform(0.01, 0.2), 3))
    ks = GS.short_variant(GS.gen_knots(rng, rng.choice(['param', 'wide', 'full', 'wiggly']), nmin=4, nmax=7))
    vals = [max(v, 1.0 / 64) for v in ks['values']]
    return dict(type='spline', knots=ks['knots'], values=vals)


def gen_T_spec(rng, k, sy_range):
    if k % 4 == 3:
        return dict(type='peatclsm', Ks=rng.choice([7.3, 2.8, 28.0]), alpha=rng.choice([3, 3, 2.5, 4]),
                    zmax=rng.choice([1.0, 5.0, 0.5]))
    shape = H.K_SHAPES[k % len(H.K_SHAPES)]
    zk = H.gen_knots(rng, rng.choice([2, 3, 4, 5]))
    # bring the knots near the specific-yield range
    shift = round(sy_range[0] + rng.uniform(-0.3, 0.6) * (sy_range[1] - sy_range[0]) - zk[0], 2)
    zk = [round(z + shift, 3) for z in zk]
    K = H.gen_conductivities(rng, len(zk), shape)
    return dict(type='spline', zk=zk, K=K, Tmin=H.round_sig(H.loguniform(rng, 1e-2, 1e3), rng.choice([2, 4])))


def gen_levels(rng, lo, hi, top, kind, n):
    hi = min(hi, top)
    if lo >= hi:
        lo = hi - 50.0
    if kind == 'master':
        step = rng.choice([0.5, 1.0, 2.5, 5.0, 10.0])
        span = max(hi - lo, step * n)
        k0 = math.floor((lo + rng.random() * span * 0.5) / step)
        g, kk = [], k0
        for _ in range(n):
            g.append(kk * step)
            kk += rng.choice([1, 1, 2, 5])
        g = [x for x in g if x <= top] or [top - step, top]
    elif kind == 'uniform':
        a = lo + (hi - lo) * rng.uniform(0, 0.5)
        b = a + (hi - a) * rng.uniform(0.2, 1.0)
        g = [a + (b - a) * i / max(1, n - 1) for i in range(n)]
    else:
        g = sorted(rng.uniform(lo, hi) for _ in range(n))
    g = sorted(set(round(float(x), 6) for x in g))
    if len(g) < 2:
        g = [g[0] - 1.0, g[0]]
    return g


def gen_fl_case(rng, k):
    sy = gen_sy_spec(rng, k)
    syr = (sy['knots'][0], sy['knots'][-1]) if sy['type'] == 'spline' else rng.choice([(-600.0, 0.0), (-300.0, 5.0)])
    T = gen_T_spec(rng, k, syr)
    top = ceiling(T) if T['type'] == 'spline' else ceiling(T) - 0.5
    lo = min(syr[0], T['zk'][0] if T['type'] == 'spline' else syr[0]) - 30.0
    hi = max(syr[1], T['zk'][-1] if T['type'] == 'spline' else syr[1]) + 30.0
    kind = ['master', 'uniform', 'random', 'knots'][k % 4]
    n = rng.randrange(2, 7)
    grid = gen_levels(rng, lo, hi, top, 'random' if kind == 'knots' else kind, n)
    if kind == 'knots':   # plant knots of both functions (and the ceiling) as grid levels
        cand = [x for x in (list(sy.get('knots', [])) + list(T.get('zk', []))) if x <= top]
        grid = sorted(set(grid[:3] + rng.sample(cand, min(len(cand), 3))))
        if len(grid) < 2:
            grid = [grid[0] - 2.0, grid[0]]
    ET, kappa = LATTICE[k % len(LATTICE)]
    mean = rng.choice([0.0, 12.5, 3.25, rng.uniform(0, 40)])
    extra = [a + (b - a) * rng.uniform(0.1, 0.9) for a, b in zip(grid, grid[1:]) if rng.random() < 0.6]
    grid2 = sorted(set(grid + [round(x, 6) for x in extra]))
    return dict(level='FL', sy=sy, T=T, ET=ET, kappa=kappa, grid=grid, mean=mean, grid2=grid2, gridkind=kind)


# water levels referred to a distant datum (1 km above / below it, and powers of two of that size), and the
# relative size of a grid step: 1e-3 .. 1e-6 of the magnitude of the level
DATUMS = [-1e6, 1e6, -1048576.0, 1048576.0, -1e5, 3e5]
REL_STEPS = [1e-5, 1e-6, 1e-4, 3e-6, 1e-3, 3e-5]


def extreme_grid(rng, lo, hi, rel):
    """An increasing grid of 4-10 levels inside [lo, hi] whose steps are about `rel` x the magnitude of the
    levels (even steps, or steps of 1/4 .. 2 times that)."""
    n = rng.randrange(4, 11)
    centre = lo + (hi - lo) * rng.uniform(0.1, 0.9)
    mag = max(abs(centre), 50.0)
    step = mag * rel * rng.uniform(0.3, 1.0)
    even = rng.random() < 0.5
    z = centre - step * rng.uniform(0.2, 0.8) * n
    grid = [z]
    for _ in range(n - 1):
        z += step if even else step * rng.choice([0.25, 0.5, 1.0, 1.0, 2.0])
        grid.append(z)
    grid = sorted(set(float(g) for g in grid if lo <= g <= hi))
    while len(grid) < 2:
        grid = sorted(set(grid + [hi - mag * rel * len(grid)]))
    return grid


def gen_extreme_case(rng, k):
    """(a) every second case: the whole parameter set referred to a distant datum (knots of both functions shifted
    by +-1e6 mm and the like; PEATCLSM transmissivity with its ceiling above the grid), grid steps of 1e-6 ..
    2.5e-4 of the level; (b) ordinary parameter sets on grids with steps of 1e-3 .. 1e-6 of the level."""
    sy = gen_sy_spec(rng, 0 if k % 6 else 4)
    if k % 2 == 0 and sy['type'] == 'spline':
        datum = DATUMS[(k // 2 + k // 6) % len(DATUMS)]
        sy = dict(sy, knots=[x + datum for x in sy['knots']])
        what, rel = 'datum%+g' % datum, rng.choice([1e-6, 1e-5, 5e-5, 2.5e-4])
    else:
        datum, what, rel = 0.0, 'fine-steps', REL_STEPS[(k // 2) % len(REL_STEPS)]
    syr = (sy['knots'][0], sy['knots'][-1]) if sy['type'] == 'spline' else rng.choice([(-600.0, 0.0), (-300.0, 5.0)])
    T = gen_T_spec(rng, k, syr)
    if T['type'] == 'peatclsm' and syr[1] > 10.0 * T['zmax'] - 50.0:
        T = dict(T, zmax=math.ceil(syr[1] / 10.0) + rng.choice([5.0, 20.5, 100.0]))   # ceiling above the knots
    top = ceiling(T) if T['type'] == 'spline' else ceiling(T) - 0.5
    lo = min(syr[0], T['zk'][0] if T['type'] == 'spline' else syr[0]) - 30.0
    hi = min(top, max(syr[1], T['zk'][-1] if T['type'] == 'spline' else syr[1]) + 30.0)
    if lo >= hi:
        lo = hi - 50.0
    grid = extreme_grid(rng, lo, hi, rel)
    ET, kappa = LATTICE[k % len(LATTICE)]
    extra = [a + (b - a) * rng.choice([0.5, 0.25, rng.uniform(0.1, 0.9)]) for a, b in zip(grid, grid[1:])
             if rng.random() < 0.6]
    return dict(level='FL-extreme', what=what, sy=sy, T=T, ET=ET, kappa=kappa, grid=grid,
                mean=rng.choice([0.0, 12.5, 3.25]), grid2=sorted(set(grid + [float(x) for x in extra])),
                gridkind='extreme')


def check_fl(cases, out, label, certify_all=False, sink=None, coq=True):
    """coq=False: the cases are judged by the oracle alone (no case of them is written for Coq)."""
    qstr, qmeta = [], []
    goals, gmeta = sink if sink is not None else ([], [])
    for ci, case in enumerate(cases):
        sy_obj, T_call = build_sy(case['sy']), build_T(case['T'])
        own = Own(case['sy'], sy_obj, case['T'])
        ET, kappa, mean = case['ET'], case['kappa'], case['mean']
        out.count('FL:sy=%s:T=%s' % (case['sy']['type'], case['T']['type']))
        out.count('FL:grid=%s' % case.get('gridkind'))
        out.count('FL:%s' % ('ET=0' if ET == 0 else 'curvature=0' if kappa == 0 else 'both>0'))
        runs = {}
        for name, g in (('grid', case['grid']), ('reversed', case['grid'][::-1]), ('refined', case['grid2'])):
            res, cap = run_curve(sy_obj, T_call, g, mean, kappa, ET)
            out.evaluations += 1
            if res[0] != 'ok':
                out.violation('oracle', 'compute_recession_curve raised %s on a grid below the transmissivity '
                              'ceiling: %s' % (res[1], describe(case)), case=case)
                break
            if not all(math.isfinite(x) for x in res[1]):
                out.violation('oracle', 'compute_recession_curve returned a non-finite time: %s' % describe(case),
                              case=case)
                break
            tols = oracle_curve(own, sy_obj, g, mean, kappa, ET, res[1], cap, out, case,
                                'compute_recession_curve (%s)' % name)
            if tols is None:
                break
            runs[name] = (g, res, cap, tols)
            if coq:
                qstr.append(q_case(cap, g, mean, kappa, ET, res))
                qmeta.append((case, name))
        if len(runs) < 3:
            continue
        g, res, cap, tols = runs['grid']
        oracle_shared(g, res[1], tols, runs['refined'][0], runs['refined'][1][1], runs['refined'][3], out, case,
                      'refining the grid')
        oracle_shared(g, res[1], tols, runs['reversed'][0], runs['reversed'][1][1], runs['reversed'][3], out, case,
                      'reversing the grid')
        if kappa == 0:
            oracle_zero_curvature(sy_obj, g, ET, res[1], tols, out, case)
        if len(g) >= 3 and len(own.breaks()) and any(min(g) < x < max(g) for x in own.breaks()):
            out.nontriv(('fl', ci, tuple(g), ET, kappa))
        if case.get('level') == 'FL-extreme':
            rel = min(b - a for a, b in zip(g, g[1:])) / max(abs(z) for z in g)
            out.count('FL-extreme:%s' % case['what'])
            out.count('FL-extreme:smallest step / level magnitude <= 1e%d' % math.ceil(math.log10(rel)))
            if rel <= 1e-4:
                out.nontriv(('x', ci, tuple(g), ET, kappa))
        if not coq:
            continue
        which = [('grid', 6 if certify_all else 3)] + ([('reversed', 2)] if ci % 3 == 0 or certify_all else []) \
            + ([('refined', 2)] if ci % 3 == 1 or certify_all else [])
        for name, limit in which:
            gg, rr, cc, tt = runs[name]
            for idx, cell in enumerate(cc.cells[:limit]):
                if cell[0] == cell[1]:
                    continue
                d = cell_slack(own, cc, cell, ET, kappa)
                g_ = cell_goal(len(goals), case['sy'], sy_obj, case['T'], ET, kappa, cell, cell_tol(cell, d))
                if g_ is None:
                    out.count('R:skipped-many-pieces')
                    continue
                goals.append(g_)
                gmeta.append((case, name, cell, d))
    run_q(qstr, qmeta, out, label + '_q')
    if sink is None:
        run_r(goals, gmeta, out, label + '_r')


def run_q(qstr, qmeta, out, label):
    if not qstr:
        return
    bad, errs, secs = C.run_case_shards(PROP, label, PREQ, 'fl_case', 'fl_check', qstr, shard=25)
    out.corr_errors += errs
    out.notes.append('%s: %d cases evaluated in Coq (vm_compute) in %.1fs' % (label, len(qstr), secs))
    for i in bad:
        case, name = qmeta[i]
        out.violation('corr', 'recession_curve_gen over the captured quad values (asserts, dt[0] = 0, cumulative sum, '
                      'mean shift; 1e-10) <> compute_recession_curve on the %s: %s' % (name, describe(case)),
                      case=case)


def run_r(goals, gmeta, out, label):
    if not goals:
        return
    status, errs, secs = H.run_goals(PROP, label, RMODS, goals, per_file=2, extra_header=RHEAD)
    out.corr_errors += errs
    out.notes.append('%s: %d certified enclosures (integral tactic) in %.1fs' % (label, len(goals), secs))
    for (case, name, cell, d), s in zip(gmeta, status):
        if s == 'OK':
            out.count('R:enclosed')
            continue
        if s == 'MISMATCH':
            out.violation('corr', 'the integral of the model\'s Sy / (-ET - curvature T) between levels %r and %r is '
                          'not within %.3g of the value %r that quad returned to compute_recession_curve (%s; quad '
                          'error estimate %.3g, transmissivity deviation %.3g, QUADPACK defect %.3g): %s'
                          % (cell[0], cell[1], float(cell_tol(cell, d)), cell[2], name, cell[3], d[0], d[1],
                             describe(case)),
                          case=case)
        elif s == 'EVALFAIL':
            out.corr_errors.append(('%s (%s, cell %r..%r)' % (label, describe(case), cell[0], cell[1]),
                                    'the integrand could not be reduced / enclosed'))


def describe(case):
    if case.get('level') in ('FL', 'FL-extreme'):
        return ('specific yield %r, transmissivity %r, ET=%r, curvature=%r, grid %r, mean %r'
                % (case['sy'], case['T'], case['ET'], case['kappa'], case['grid'], case['mean']))
    return 'parameters %r / %r on dataset %s' % (case.get('sy'), case.get('T'), case.get('src', {}).get('kind'))


def fl_errors(out, label):
    """Refusals: negative ET, negative curvature (AssertionError), empty grid (IndexError)."""
    sy = dict(type='spline', knots=[-291.75, -183.125, -15.75, 10.625, 38.75, 168.25],
              values=[x / 65536 for x in (8900, 10951, 16653, 19051, 18953, 44938)])
    T = dict(type='peatclsm', Ks=7.3, alpha=3, zmax=1.0)
    sy_obj, T_call = build_sy(sy), build_T(T)
    qstr, qmeta = [], []
    for grid, kappa, ET in (([-30.0, -20.0], 0.5, -1.0), ([-30.0, -20.0], -0.5, 1.0), ([], 0.5, 1.0),
                            ([-30.0, -20.0], -0.5, -1.0), ([-30.0], 0.5, 1.0)):
        res, cap = run_curve(sy_obj, T_call, grid, 0.0, kappa, ET)
        out.evaluations += 1
        out.count('FL:refusal' if res[0] == 'err' else 'FL:single-level')
        case = dict(level='FLerr')
        qstr.append(q_case(cap, grid, 0.0, kappa, ET, res))
        qmeta.append((dict(level='FLerr', sy=sy, T=T, ET=ET, kappa=kappa, grid=grid, mean=0.0), 'grid'))
        del case
    bad, errs, _ = C.run_case_shards(PROP, label, PREQ, 'fl_case', 'fl_check', qstr, shard=25)
    out.corr_errors += errs
    for i in bad:
        case, _ = qmeta[i]
        out.violation('corr', 'model and compute_recession_curve disagree on a refusal: grid %r curvature %r ET %r'
                      % (case['grid'], case['kappa'], case['ET']), case=dict(level='FLerr'))


# ------------------------------------------------------------- CL

def gen_src(rng, k):
    if k % 2 == 0:
        plan = CC.make_plan(rng, varying_et=True, noise=(k % 4 == 2))
        plan['curvature'] = rng.choice([0.0, 1.0, 0.5, 2.25, 1.5])
        return dict(kind='plan', plan=plan)
    rec = GP.gen_curves_record(rng)
    et = [round(0.02 + 0.01 * rng.randrange(0, 30), 4) for _ in range(rng.choice([7, 11, 24]))]
    return dict(kind='rec', rec=rec, et=et)


def stored_curvature(db):
    con = sqlite3.connect(db)
    try:
        return [float(r[0]) for r in con.execute('SELECT curvature_m_km2 FROM curvature ORDER BY rowid')]
    finally:
        con.close()


def curvature_history(db, src):
    """The rest of the command history of a dataset: `spowtd set-curvature DB V` for every V of
    src['more_curvature'], in order, after the first one.  Returns one record per command (the first included):
    the value asked for, whether the command was accepted, and what the dataset stores afterwards."""
    first = src['plan'].get('curvature', 1.5) if src['kind'] == 'plan' else src['rec']['curvature']
    hist = [dict(value=float(first), accepted=True, exc=None, stored=stored_curvature(db))]
    for v in src.get('more_curvature', []):
        _, exc, _ = D.cli(['set-curvature', db, repr(float(v))])
        hist.append(dict(value=float(v), accepted=exc is None, exc=None if exc is None else type(exc).__name__,
                         stored=stored_curvature(db)))
    return hist


def assemble(src, name='cl_db'):
    if src['kind'] == 'plan':
        r = CC.build_from_plan(PROP, src['plan'], steps=('recession', 'curvature'), name=name)
        if r['status'] != 'ok':
            raise RuntimeError('workflow failed at %s: %r' % (r['status'], r.get('exc')))
        return r['db'], r['dir'], curvature_history(r['db'], src)
    d = D.scratch(PROP, name)
    db, _, exc = D.load(GP.to_dataset(src['rec'], et=src['et']), d)
    if exc is not None:
        raise RuntimeError('load failed: %r' % exc)
    for step in ('classify', 'set-zeta-grid', 'set-curvature', 'recession'):
        _, exc, _ = D.cli(GP.step_argv(step, db, src['rec']))
        if exc is not None:
            raise RuntimeError('%s failed: %r' % (step, exc))
    return db, d, curvature_history(db, src)


def curvature_in_force(hist, tb, out, case):
    """The curvature a fresh reader of the dataset would say is in force = the value(s) stored.  More than one
    stored row violates the schema's singleton (and no command can then have 'the requested curvature'); a
    command that was accepted must leave exactly its own value; a refused one must leave the table as it was.
    Returns False when the history already shows a violation."""
    ok = True
    told = ', '.join('set-curvature %r (%s)' % (h['value'], 'accepted' if h['accepted'] else 'refused: %s' % h['exc'])
                     for h in hist)
    out.count('CL:set-curvature-commands=%d' % len(hist))
    for n, h in enumerate(hist):
        before = hist[n - 1]['stored'] if n else None
        if n:
            out.count('CL:later-set-curvature:%s:%s' % ('accepted' if h['accepted'] else 'refused',
                                                        'same-value' if h['value'] == hist[0]['value'] else
                                                        'zero' if h['value'] == 0 else 'other-value'))
        if len(h['stored']) > 1:
            out.violation('oracle', 'after the command history [%s] the dataset stores %d curvatures %r: the curvature '
                          'table is a singleton in the schema, and a reader cannot tell which curvature is in force '
                          '(`simulate recession` takes the first row it is given)' % (told, len(h['stored']), h['stored']),
                          case=case)
            return False
        if h['accepted'] and h['stored'] != [h['value']]:
            out.violation('oracle', 'command number %d of the history [%s] was accepted but the dataset then stores %r, '
                          'not the requested curvature %r' % (n + 1, told, h['stored'], h['value']), case=case)
            ok = False
        if not h['accepted'] and h['stored'] != before:
            out.violation('oracle', 'command number %d of the history [%s] was refused but changed the stored '
                          'curvature from %r to %r' % (n + 1, told, before, h['stored']), case=case)
            ok = False
    if tb['curvature'] != hist[-1]['stored']:
        out.violation('oracle', 'the stored curvature changed from %r to %r without a set-curvature command'
                      % (hist[-1]['stored'], tb['curvature']), case=case)
        ok = False
    return ok


def read_tables(db):
    con = sqlite3.connect(db)
    try:
        return dict(
            curvature=[float(r[0]) for r in con.execute('SELECT curvature_m_km2 FROM curvature')],
            master=[(float(z), float(s)) for z, s in con.execute(
                'SELECT zeta_mm, elapsed_time_s FROM average_recession_time')],
            rec=[int(r[0]) for r in con.execute('SELECT start_epoch FROM recession_interval')],
            zeta=[(int(a), int(b)) for a, b in con.execute('SELECT start_epoch, thru_epoch FROM zeta_interval')],
            et=[(int(a), int(b), float(v)) for a, b, v in con.execute(
                'SELECT from_epoch, thru_epoch, evapotranspiration_mm_h FROM evapotranspiration')])
    finally:
        con.close()


def et_oracle(tb):
    """Plain Python, exact: ET over every step of the recession intervals of the master curve."""
    zi = dict(tb['zeta'])
    vals, wsum, dsum = [], F(0), F(0)
    for s in tb['rec']:
        if s not in zi:
            continue
        for a, b, v in tb['et']:
            if a >= s and b <= zi[s]:
                vals.append(F(v))
                wsum += F(v) * (b - a)
                dsum += (b - a)
    if not vals:
        return None, None, 0
    return 24 * sum(vals) / len(vals), 24 * wsum / dsum, len(vals)


def run_cli(db, d, sy_spec, T_spec, observations):
    """The command with compute_recession_curve wrapped from outside."""
    import spowtd.simulate_recession as sr
    pfile = os.path.join(d, 'parameters.yml')
    with open(pfile, 'w') as f:
        f.write(yaml.safe_dump(dict(specific_yield=sy_params(sy_spec), transmissivity=T_params(T_spec))))
    ofile = os.path.join(d, 'obs.yml' if observations else 'table.yml')
    if os.path.exists(ofile):
        os.remove(ofile)
    calls = []
    orig = sr.compute_recession_curve

    def wrapper(specific_yield, transmissivity_m2_d, zeta_grid_mm, mean_elapsed_time_d, curvature_km, et_mm_d):
        grid = [float(x) for x in zeta_grid_mm]
        res, cap = run_curve(specific_yield, transmissivity_m2_d, grid, mean_elapsed_time_d, curvature_km, et_mm_d,
                             fn=orig)
        calls.append(dict(grid=grid, mean=float(mean_elapsed_time_d), kappa=float(curvature_km), et=float(et_mm_d),
                          res=res, cap=cap, sy_obj=specific_yield))
        if res[0] != 'ok':
            raise RuntimeError('compute_recession_curve failed: %s' % res[1])
        return np.array(res[1], dtype=float)
    sr.compute_recession_curve = wrapper
    try:
        argv = ['simulate', 'recession', db, pfile] + (['--observations'] if observations else []) + ['-o', ofile]
        _, exc, _ = D.cli(argv)
    finally:
        sr.compute_recession_curve = orig
    if exc is not None:
        return ('err', C.err_of(exc), exc, calls)
    with open(ofile) as f:
        text = f.read()
    return ('ok', yaml.safe_load(io.StringIO(text)), text, calls)


def gen_cl_specs(rng, k, lo, hi):
    span = max(hi - lo, 8.0)
    n = rng.randrange(4, 7)
    pos = ['cover', 'low', 'high', 'within'][k % 4]
    if pos == 'cover':
        a, b = lo - span * rng.uniform(0.1, 0.5), hi + span * rng.uniform(0.1, 0.5)
    elif pos == 'low':
        a, b = lo - span * rng.uniform(0.1, 0.5), lo + span * rng.uniform(0.3, 0.7)
    elif pos == 'high':
        a, b = lo + span * rng.uniform(0.3, 0.7), hi + span * rng.uniform(0.1, 0.5)
    else:
        a, b = lo + span * rng.uniform(0.1, 0.3), hi - span * rng.uniform(0.1, 0.3)
    cuts = sorted(rng.uniform(0, 1) for _ in range(n - 2))
    xs = [round(x * 8) / 8 for x in [a] + [a + (b - a) * c for c in cuts] + [b]]
    for i in range(1, len(xs)):
        if xs[i] <= xs[i - 1]:
            xs[i] = xs[i - 1] + 0.125
    y, ys = rng.uniform(0.05, 0.2), []
    for _ in xs:
        ys.append(round(y * 65536) / 65536)
        y += rng.uniform(0.0, 0.15)
    sy = dict(type='spline', knots=xs, values=ys)
    if k % 3 == 2:
        sy = dict(type='peatclsm', **PEAT_PUBLISHED)
    if k % 3 == 1:
        T = dict(type='peatclsm', Ks=rng.choice([7.3, 2.8]), alpha=rng.choice([3, 2.5]),
                 zmax=max(1.0, math.ceil(hi / 10.0) + rng.choice([0.5, 2.0])))
    else:
        m = rng.choice([2, 3, 4])
        z0 = round(lo - span * rng.uniform(-0.3, 0.5), 2)
        zn = round(hi + span * rng.uniform(0.05, 0.6), 2)
        mids = sorted(round(rng.uniform(z0 + 0.5, zn - 0.5), 2) for _ in range(m - 2))
        zk = [z0] + mids + [zn]
        for i in range(1, len(zk)):
            if zk[i] <= zk[i - 1]:
                zk[i] = round(zk[i - 1] + 0.5, 2)
        T = dict(type='spline', zk=zk, K=H.gen_conductivities(rng, len(zk), H.K_SHAPES[k % len(H.K_SHAPES)]),
                 Tmin=H.round_sig(H.loguniform(rng, 1e-1, 1e3), 3))
    return sy, T


HDR = ['Water level, mm', 'Measured elapsed time, d', 'Simulated elapsed time, d']


def cl_oracle(tb, tab_res, obs_res, sy_spec, T_spec, out, case):
    """Layout and values of the output against the dumped tables."""
    table, obs, obs_text = tab_res[1], obs_res[1], obs_res[2]
    want = sorted(tb['master'], reverse=True)
    if not isinstance(table, list) or not table or table[0] != HDR:
        out.violation('oracle', 'table does not start with the header row %r: %r' % (HDR, table[:1]), case=case)
        return False
    rows = table[1:]
    if len(rows) != len(want) or any(len(r) != 3 for r in rows):
        out.violation('oracle', 'table has %d rows, the measured master curve has %d levels' % (len(rows), len(want)),
                      case=case)
        return False
    for r, (z, s) in zip(rows, want):
        if not (abs(r[0] - z) <= 1e-12 * abs(z) and abs(r[1] - s / 86400.0) <= 1e-12 * abs(s / 86400.0)):
            out.violation('oracle', 'row %r of the table is not (level in mm, measured time in d) = (%r, %r) of the '
                          'master curve listed from the highest level down' % (r, z, s / 86400.0), case=case)
            return False
    if not obs_text.startswith('# Recession curve simulation vector\n'):
        out.violation('oracle', '--observations output lacks its comment line', case=case)
    if [r[2] for r in rows] != list(obs):
        out.violation('oracle', '--observations vector differs from the simulated column of the table (both '
                      'from the highest level down)', case=case)
        return False
    # the ET used, from the dumped tables
    et_avg, et_time, nsteps = et_oracle(tb)
    call = tab_res[3][0]
    if et_avg is None:
        out.violation('oracle', 'no ET step lies inside the recession intervals, yet the command produced output',
                      case=case)
        return False
    if not (abs(F(call['et']) - et_avg) <= F(1, 10 ** 12) * et_avg and et_avg == et_time):
        out.violation('oracle', 'the command used ET = %r mm/d; the time average over the %d steps of the recession '
                      'intervals of the master curve is %r mm/d' % (call['et'], nsteps, float(et_time)), case=case)
        return False
    if not abs(call['kappa'] - tb['curvature'][0] / 1000.0) <= 1e-15 * abs(tb['curvature'][0]):
        out.violation('oracle', 'the command used curvature %r /km for a site curvature of %r m/km2'
                      % (call['kappa'], tb['curvature'][0]), case=case)
        return False
    # the simulated column itself: the property's wording with the ET / curvature recomputed here
    grid = [z for z, _ in sorted(tb['master'])]
    sim = [float(r[2]) for r in rows][::-1]
    mean = math.fsum(s / 86400.0 for _, s in tb['master']) / len(grid)
    own = Own(sy_spec, call['sy_obj'], T_spec)
    if [float(x) for x in call['grid']] != [float(r[0]) for r in rows][::-1]:
        out.violation('oracle', 'the grid handed to compute_recession_curve %r is not the level column of the table'
                      % call['grid'][:4], case=case)
        return False
    tols = oracle_curve(own, call['sy_obj'], grid, mean, tb['curvature'][0] / 1000.0, float(et_time), sim,
                        call['cap'], out, case, '`spowtd simulate recession`')
    return tols is not None


def ctables(tb):
    return '(%s, %s, %s, %s, %s)' % (
        C.cfloats(tb['curvature']),
        C.clist([C.cpair(C.cfloat(z), C.cfloat(s)) for z, s in tb['master']]),
        C.cZs(tb['rec']),
        C.clist([C.cpair(C.cZ(a), C.cZ(b)) for a, b in tb['zeta']]),
        C.clist(['(%s, %s, %s)' % (C.cZ(a), C.cZ(b), C.cfloat(v)) for a, b, v in tb['et']]))


def cl_case_string(tb, tab_res, obs_res, rng):
    master = list(tb['master'])
    rng.shuffle(master)
    tb2 = dict(tb, master=master)
    if tab_res[0] != 'ok':
        return '(%s, Err %s)' % (ctables(tb2), tab_res[1])
    call = tab_res[3][0]
    cap = '(%s, %s, %s, %s, %s)' % (C.cfloats(call['grid']), C.cfloat(call['mean']), C.cfloat(call['kappa']),
                                    C.cfloat(call['et']), C.cfloats(call['res'][1]))
    rows = C.clist(['(%s, %s, %s)' % tuple(C.cfloat(float(x)) for x in r) for r in tab_res[1][1:]])
    return '(%s, Ok (%s, %s, %s))' % (ctables(tb2), cap, rows, C.cfloats([float(x) for x in obs_res[1]]))


def check_cl_one(k, src, sy_spec, T_spec, rng, out, acc, ncert):
    case = dict(level='CL', src=src, sy=sy_spec, T=T_spec, k=k)
    try:
        db, d, hist = assemble(src)
    except RuntimeError as e:
        out.count('CL:not-assembled')
        out.notes.append('dataset %d not assembled: %s' % (k, e))
        return
    tb = read_tables(db)
    if not curvature_in_force(hist, tb, out, case):
        return
    if not tb['master'] or not tb['rec']:
        out.count('CL:no-master-curve')
        return
    if sy_spec is None:
        levels = [z for z, _ in tb['master']]
        sy_spec, T_spec = gen_cl_specs(rng, k, min(levels), max(levels))
        case.update(sy=sy_spec, T=T_spec)
    tab_res = run_cli(db, d, sy_spec, T_spec, False)
    obs_res = run_cli(db, d, sy_spec, T_spec, True)
    out.evaluations += 2
    out.count('CL:%s:sy=%s:T=%s' % (src['kind'], sy_spec['type'], T_spec['type']))
    if tab_res[0] != 'ok' or obs_res[0] != 'ok':
        bad = tab_res if tab_res[0] != 'ok' else obs_res
        out.violation('oracle', '`spowtd simulate recession` raised %s: %r on an assembled recession curve (%s)'
                      % (bad[1], bad[2], describe(case)), case=case)
        return
    if len(tab_res[3]) != 1 or len(obs_res[3]) != 1:
        out.violation('corr', 'compute_recession_curve called %d / %d times by one command'
                      % (len(tab_res[3]), len(obs_res[3])), case=case)
        return
    ets = sorted(set(v for _, _, v in tb['et']))
    et_avg, _, nsteps = et_oracle(tb)
    first_only = None
    zi = dict(tb['zeta'])
    firsts = [F(v) for a, _, v in tb['et'] if a in set(tb['rec']) and a in zi]
    if firsts:
        first_only = 24 * sum(firsts) / len(firsts)
    if len(ets) > 1 and et_avg is not None and first_only is not None and first_only != et_avg and len(tb['master']) >= 3:
        out.nontriv(('cl', k, float(et_avg), len(tb['master'])))
    cl_oracle(tb, tab_res, obs_res, sy_spec, T_spec, out, case)
    acc['cl'].append(cl_case_string(tb, tab_res, obs_res, rng))
    acc['clmeta'].append(case)
    # the captured call through the function-level stages
    call = tab_res[3][0]
    acc['q'].append(q_case(call['cap'], call['grid'], call['mean'], call['kappa'], call['et'], call['res']))
    acc['qmeta'].append((case, 'master curve levels'))
    own = Own(sy_spec, call['sy_obj'], T_spec)
    cells = [c for c in call['cap'].cells if c[0] != c[1]]
    rng.shuffle(cells)
    for cell in cells[:ncert]:
        dlt = cell_slack(own, call['cap'], cell, call['et'], call['kappa'])
        if DELTA_CAP < dlt[0] <= DELTA_WRONG:
            continue
        g_ = cell_goal(len(acc['goals']), sy_spec, call['sy_obj'], T_spec, call['et'], call['kappa'], cell,
                       cell_tol(cell, dlt))
        if g_ is None:
            out.count('R:skipped-many-pieces')
            continue
        acc['goals'].append(g_)
        acc['gmeta'].append((case, 'master curve levels', cell, dlt))


def run_cl(items, out, label, ncert, sink=None):
    acc = dict(cl=[], clmeta=[], q=[], qmeta=[])
    acc['goals'], acc['gmeta'] = sink if sink is not None else ([], [])
    for k, src, sy_spec, T_spec, rng in items:
        check_cl_one(k, src, sy_spec, T_spec, rng, out, acc, ncert)
    if acc['cl']:
        bad, errs, secs = C.run_case_shards(PROP, label + '_cmd', PREQ, 'cl_case', 'cl_check', acc['cl'], shard=6)
        out.corr_errors += errs
        out.notes.append('%s_cmd: %d commands evaluated in Coq in %.1fs' % (label, len(acc['cl']), secs))
        for i in bad:
            case = acc['clmeta'][i]
            out.violation('corr', 'simulate_recession over the dumped tables (curvature / 1000, ET = 24 x average over '
                          'the steps of the recession intervals, grid = cm x 10, mean of the measured times, rows '
                          'reversed, level in mm) <> arguments captured at compute_recession_curve / output of '
                          '`spowtd simulate recession`: %s' % describe(case), case=case)
    run_q(acc['q'], acc['qmeta'], out, label + '_q')
    if sink is None:
        run_r(acc['goals'], acc['gmeta'], out, label + '_r')


# ------------------------------------------------------------- long master curves (command level, oracle only)

def read_base(db):
    """The measured master recession curve recomputed from the BASE tables written by `set-zeta-grid` and
    `recession` (zeta_grid, recession_interval, recession_interval_zeta) - no view, no discrete_zeta: per level
    number, the mean over the recessions that cross it of (time offset of the recession + its crossing time).
    Returns rows (level mm, measured elapsed time d, number of recessions) by level DEscending."""
    con = sqlite3.connect(db)
    try:
        steps = [float(r[0]) for r in con.execute('SELECT grid_interval_mm FROM zeta_grid')]
        offsets = {e: float(o) for e, o in con.execute('SELECT start_epoch, time_offset_s FROM recession_interval')}
        crossings = list(con.execute('SELECT start_epoch, zeta_number, mean_crossing_time FROM recession_interval_zeta'))
    finally:
        con.close()
    if len(steps) != 1:
        return []
    by_level = {}
    for epoch, number, value in crossings:
        by_level.setdefault(int(number), []).append(offsets[epoch] + float(value))
    return [(n * steps[0], math.fsum(v) / len(v) / 86400.0, len(v)) for n, v in sorted(by_level.items(), reverse=True)]


def base_oracle(base, rows, out, case):
    """`lists each level, in mm, from highest to lowest with its measured ... time`: row k of the table is the
    k-th highest level of the master curve of the base tables, with its measured time."""
    out.count('CL:judged-against-base-tables')
    if len(rows) != len(base):
        have = set(float(r[0]) for r in rows)
        missing = [z for z, _, _ in base if not any(abs(z - h) <= 1e-9 * max(1.0, abs(z)) for h in have)]
        out.violation('oracle', 'the table of `spowtd simulate recession` has %d rows, the master recession curve '
                      'assembled by `recession` (tables recession_interval, recession_interval_zeta, zeta_grid) has %d '
                      'levels %r .. %r mm; levels not listed: %d (highest of them %r mm)'
                      % (len(rows), len(base), base[0][0], base[-1][0], len(missing), missing[0] if missing else None),
                      case=case)
        return False
    tscale = max([1.0] + [abs(t) for _, t, _ in base])
    for k, (r, (z, t, n)) in enumerate(zip(rows, base)):
        if not abs(float(r[0]) - z) <= 1e-9 * max(1.0, abs(z)):
            out.violation('oracle', 'the table of `spowtd simulate recession` does not list the levels from highest to '
                          'lowest: row %d holds level %r mm, the %d-th highest level of the measured master curve is %r '
                          'mm (row before it: %r mm)' % (k + 1, r[0], k + 1, z, rows[k - 1][0] if k else None),
                          case=case)
            return False
        if not abs(float(r[1]) - t) <= 1e-9 * tscale:
            out.violation('oracle', 'row %d of the table lists the measured time %r d at level %r mm, the master curve of '
                          'the base tables has %r d there (mean over %d recessions)' % (k + 1, r[1], z, t, n), case=case)
            return False
    return True


def long_source(rng, nlevels, out):
    """A dataset with time-varying ET whose master recession curve (measured on the base tables) has more than
    `nlevels` levels."""
    rec = GP.gen_long_curves_record(rng, nlevels)
    et = [round(0.02 + 0.01 * rng.randrange(0, 30), 4) for _ in range(rng.choice([7, 11, 24]))]
    for _ in range(4):
        src = dict(kind='long', rec=rec, et=et)
        db, _, _ = assemble(src, name='cl_long')
        levels = [z for z, _, _ in read_base(db)]
        if len(levels) > nlevels:
            return src, levels
        out.count('CL-long:step-halved')
        rec = GP.gen_long_curves_record(rng, nlevels, rec=rec)
    raise RuntimeError('no record with more than %d recession levels' % nlevels)


def long_cases(seed, tier, out):
    cases = []
    targets = [1024] if tier == 'quick' else [1000, 1024, 2048, 4096, 8192]
    for k, target in enumerate(targets):
        rng = C.rng_for(seed, PROP, 'long', k)
        try:
            src, levels = long_source(rng, target, out)
        except RuntimeError as e:
            out.count('CL-long:not-assembled')
            out.notes.append('long dataset %d not assembled: %s' % (k, e))
            continue
        # quick: PEATCLSM transmissivity (a closed form; the spline class integrates the conductivity anew at
        # every node of every cell); thorough: both
        kk = 3 * (seed + k) + 1 if tier == 'quick' or k % 2 == 0 else 3 * (seed + k)
        sy, T = gen_cl_specs(rng, kk, min(levels), max(levels))
        cases.append(dict(level='CL-long', src=src, sy=sy, T=T, target=target))
    return cases


def check_long(case, out):
    """`spowtd simulate recession` in both output modes on a long master curve, judged by the oracle alone: the
    table against the master curve of the BASE tables (row k = k-th highest level, measured time), then the
    oracle of the ordinary command-level cases (layout against the view, vector against table, ET, curvature,
    water-balance differences over every cell, mean, time increasing downward)."""
    db, d, hist = assemble(case['src'], name='cl_long')
    tb, base = read_tables(db), read_base(db)
    for size in GP.BLOCK_SIZES:
        if len(base) > size:
            out.count('CL-long:master recession curve of more than %d levels' % size)
    out.count('CL-long:levels', len(base))
    if not curvature_in_force(hist, tb, out, case):
        return
    if not tb['master']:
        out.violation('oracle', 'the master recession curve assembled by `recession` has %d levels (base tables), the '
                      'view average_recession_time that `simulate recession` reads has none' % len(base), case=case)
        return
    tab_res = run_cli(db, d, case['sy'], case['T'], False)
    obs_res = run_cli(db, d, case['sy'], case['T'], True)
    out.evaluations += 2
    out.count('CL-long:sy=%s:T=%s' % (case['sy']['type'], case['T']['type']))
    if tab_res[0] != 'ok' or obs_res[0] != 'ok':
        bad = tab_res if tab_res[0] != 'ok' else obs_res
        out.violation('oracle', '`spowtd simulate recession` raised %s: %r on an assembled recession curve of %d levels'
                      % (bad[1], bad[2], len(base)), case=case)
        return
    table = tab_res[1]
    if not isinstance(table, list) or not table or table[0] != HDR or any(
            not isinstance(r, list) or len(r) != 3 for r in table[1:]):
        out.violation('oracle', 'the output is not one table of three-valued rows under the header row %r (it starts '
                      'with %r)' % (HDR, table[:2] if isinstance(table, list) else table), case=case)
        return
    if not base_oracle(base, table[1:], out, case):
        return
    if cl_oracle(tb, tab_res, obs_res, case['sy'], case['T'], out, case) and len(base) > 1000:
        out.nontriv(('long', len(base), repr(case['sy']), repr(case['T'])))


def cl_refusals(out, label):
    """No curvature row: ValueError; no recession curve: ValueError."""
    rng = C.rng_for(0, PROP, 'refusal')
    plan = CC.make_plan(rng, varying_et=True)
    sy = dict(type='spline', knots=[-291.75, -183.125, -15.75, 10.625, 38.75, 168.25],
              values=[x / 65536 for x in (8900, 10951, 16653, 19051, 18953, 44938)])
    T = dict(type='peatclsm', Ks=7.3, alpha=3, zmax=3.0)
    strs, metas = [], []
    for steps, what in ((('recession',), 'no-curvature'), (('curvature',), 'no-master-curve')):
        r = CC.build_from_plan(PROP, plan, steps=steps, name='cl_refusal')
        if r['status'] != 'ok':
            continue
        tb = read_tables(r['db'])
        res = run_cli(r['db'], r['dir'], sy, T, False)
        out.evaluations += 1
        out.count('CL:' + what)
        if res[0] == 'ok':
            out.violation('oracle', '`spowtd simulate recession` produced output with %s' % what,
                          case=dict(level='CLrefusal'))
            continue
        strs.append(cl_case_string(tb, res, None, rng))
        metas.append(what)
    if strs:
        bad, errs, _ = C.run_case_shards(PROP, label, PREQ, 'cl_case', 'cl_check', strs, shard=6)
        out.corr_errors += errs
        for i in bad:
            out.violation('corr', 'model and command disagree on the refusal with %s' % metas[i],
                          case=dict(level='CLrefusal'))


# ------------------------------------------------------------- driver

def run(ctx, out):
    C.import_spowtd()
    _PEAT_CACHE.clear()
    seed, tier = ctx['seed'], ctx['tier']
    import time
    nfl, ncl, ncert = (16, 6, 2) if tier == 'quick' else (120, 50, 4)
    t0 = time.time()
    sink = ([], [])
    cases = [gen_fl_case(C.rng_for(seed, PROP, 'fl', k), k) for k in range(nfl)]
    check_fl(cases, out, 'fl', sink=sink)
    fl_errors(out, 'fl_err')
    t1 = time.time()
    items = []
    for k in range(ncl):
        r = C.rng_for(seed, PROP, 'cl', k)
        src = gen_src(r, k)
        if k % 3 != 0:
            # command histories (own stream): set-curvature issued again - another value, the same value, zero, twice
            # more - before the simulation; whatever the history, the simulation must use what the dataset stores
            rh = C.rng_for(seed, PROP, 'cl-history', k)
            first = src['plan']['curvature'] if src['kind'] == 'plan' else float(src['rec']['curvature'])
            other = [v for v in (0.0, 0.25, 1.0, 2.25, 3.5, 6.0) if v != first]
            src['more_curvature'] = [[rh.choice(other)], [first], rh.sample(other, 2), [rh.choice(other), first]][
                rh.randrange(4) if k % 3 == 2 else 0]
        items.append((k, src, None, None, r))
    run_cl(items, out, 'cl', ncert, sink=sink)
    cl_refusals(out, 'cl_refusal')
    t2 = time.time()
    run_r(sink[0], sink[1], out, 'r')
    t3 = time.time()
    # extremes and long master curves: judged by the oracle alone (nothing of them goes to Coq)
    xcases = [gen_extreme_case(C.rng_for(seed, PROP, 'extreme', k), k) for k in range(12 if tier == 'quick' else 120)]
    check_fl(xcases, out, 'fl_extreme', coq=False)
    t4 = time.time()
    for case in long_cases(seed, tier, out):
        check_long(case, out)
    out.notes.append('wall: extremes %.0fs, long master curves %.0fs' % (t4 - t3, time.time() - t4))
    out.notes.append('wall: function level %.0fs, command level %.0fs, certified enclosures %.0fs'
                     % (t1 - t0, t2 - t1, t3 - t2))
    out.rule = ('FL: compute_recession_curve on (spline | PEATCLSM specific yield) x (spline | PEATCLSM '
                'transmissivity) x 10 (ET, curvature) pairs incl. ET = 0 and curvature = 0 x grids of 2-6 levels '
                '(master-like multiples of a step, uniform, random, knots of either function planted as levels), '
                'each also reversed and refined; CL: `spowtd simulate recession` in both output modes on datasets '
                'with time-varying ET assembled through the CLI (planted-truth plans, saw-tooth records with gaps) '
                'with spline and PEATCLSM parameter files; on 2 datasets of 3 a command history with set-curvature '
                'issued 2-3 times (other value / same value / zero) before the simulation. Non-trivial: FL a grid of >= 3 levels with a knot of '
                'either function strictly inside; CL a master curve of >= 3 levels on a dataset where the average '
                'ET over all steps of the recession intervals differs from the average over their first steps. '
                'Extremes (function level, oracle only, not sent to Coq): parameter sets referred to a datum +-1e6 mm '
                'away (grid steps 1e-6 .. 2.5e-4 of the level) and ordinary sets on grids with steps of 1e-3 .. 1e-6 of '
                'the level magnitude, each reversed and refined. Long curves (command level, oracle only, not sent to '
                'Coq: reading the literals would dominate): `simulate recession` in both modes on a dataset whose master '
                'recession curve has more than 1024 levels (thorough: 1000 .. 8192), the table judged against the base '
                'tables (row k = k-th highest level).')
    out.samples = [dict(level='FL', **{k: cases[0][k] for k in ('sy', 'T', 'ET', 'kappa', 'grid')}),
                   dict(level='CL', src_kind=items[0][1]['kind'])]
    out.assumptions += [
        'scipy.integrate.quad is an oracle for the integral (Section variable with a contract in the theorems); the '
        'contract is tested at every run: each value it returned to compute_recession_curve is enclosed by a '
        'certified integral of the model integrand within 2 x its own error estimate + |value| x (2 delta + 1e-10)',
        'delta = measured relative deviation (capped at 1e-3) of the transmissivity values handed to quad from the '
        'closed form at quad\'s own nodes: SplineTransmissivity integrates the conductivity with QUADPACK and is '
        'off by up to ~2e-5 just above a knot with a large conductivity jump (property C15\'s subject)',
        'specific yield: exact not-a-knot cubic computed inside Coq from the knots (FITPACK agrees to ~1e-9: C14/C17); '
        'PEATCLSM knot values are taken from the object (C16) and only the knots around the cell are given to Coq',
        'binary64 rounding of cumsum / mean / ET average not modelled: exact rationals within 1e-10 / 1e-12; the level '
        'and measured columns are checked bit-exactly ((zeta_mm / 10) * 10, elapsed_time_s / 86400 in PrimFloat)',
        'the SQL view average_recession_time is read from the database, not modelled (C05/C06); the ET join is '
        'modelled on the dumped tables; YAML round trip by PyYAML is exercised, not modelled',
        'refusals of the transmissivity classes above their ceiling are C15 / C16; grids are generated below it',
        'Coq Interval library (certified enclosures of integrals, exp, ln, Rpower)']


def replay(case, out):
    C.import_spowtd()
    _PEAT_CACHE.clear()
    lvl = case.get('level')
    if lvl == 'FL':
        check_fl([case], out, 'replay_fl', certify_all=True)
    elif lvl == 'FL-extreme':
        check_fl([case], out, 'replay_fl_extreme', coq=False)
    elif lvl == 'CL-long':
        check_long(case, out)
    elif lvl == 'FLerr':
        fl_errors(out, 'replay_fl_err')
    elif lvl == 'CLrefusal':
        cl_refusals(out, 'replay_cl_refusal')
    else:
        rng = C.rng_for(0, PROP, 'replay')
        run_cl([(case.get('k', 0), case['src'], case['sy'], case['T'], rng)], out, 'replay_cl', 6)
