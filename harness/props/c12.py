"""C12 — level-crossing positions are exact for the piecewise-linear record.

Correspondence (function level): regrid.regrid(x, y, step) and
fit_offsets.build_head_mapping(series, step) against Model/RegridFloat.v
evaluated inside Coq: the ordered sequence of reported levels must be identical
to the model's, positions / means within the root finder's tolerance (compared
over Q inside Coq).  Oracle: the property's own wording evaluated with
fractions.Fraction on the implementation's output.

Call forms and call histories (check_calls): the same numbers handed over as float64
arrays that the check keeps, as strided / reversed / column views into larger arrays,
as read-only arrays, as int64 / int32 / float32 arrays, with the abscissae in a list;
one to three calls of regrid / build_head_mapping with those same objects (same and
different grid step).  After every call the objects are compared bit for bit with a
pristine copy ("the sampled series is not modified": otherwise the crossings reported
are not crossings of the series the caller holds) and every call's result is judged
by the same oracle against the pristine numbers, and by the Coq model.

Steep pairs and long series (check_large, oracle only): one pair of samples crossing 100-5000 levels, rising and
falling; series of 1500-10000 samples with a crossing in every pair of samples that straddles a multiple of 1000,
1024, 2048, 4096, 8192; through regrid and build_head_mapping.
"""
import math
from fractions import Fraction as F

import numpy as np

from harness import common as C
from harness import gen_regrid as G

PROP = 'C12'
MODELS = ['Model/RegridFloat.vo']
PRE = 'From Spowtd Require Import Model.RegridFloat.\nOpen Scope Q_scope.\n'


def fl(v):
    """floats survive the JSON replay files as numbers, non-finite ones as strings"""
    return float(v)


# ------------------------------------------------------------- implementation

def impl_regrid(x, y, step):
    import spowtd.regrid as rg
    try:
        items = list(rg.regrid(np.array(x, dtype='float64'), np.array(y, dtype='float64'), step))
        return ('ok', [(int(k), float(v)) for k, v in items])
    except Exception as e:  # pylint: disable=broad-except
        return ('err', C.err_of(e))


def impl_head_mapping(series, step):
    import spowtd.fit_offsets as fo
    try:
        m = fo.build_head_mapping([(np.array(s['x'], dtype='float64'), np.array(s['y'], dtype='float64'))
                                   for s in series], step)
        return ('ok', [(int(k), [(int(sid), float(t)) for sid, t in v]) for k, v in m.items()])
    except Exception as e:  # pylint: disable=broad-except
        return ('err', C.err_of(e))


# ------------------------------------------------------------- oracle (property wording)

def ulp(v):
    v = abs(v)
    return math.ulp(v) if v else 0.0


def tolerance(x0, x1, Y0, Y1, xs):
    """DESIGN 7 C12: brentq's stopping rule on a linear function + rounding of the
    interpolant it is given (scales with the inverse slope)."""
    u = max(ulp(Y0), ulp(Y1))
    return (4 * (F(2, 10 ** 12) + F(89, 10 ** 17) * max(abs(F(x0)), abs(F(x1))))
            + 8 * F(u) * abs((F(x1) - F(x0)) / (F(Y1) - F(Y0))))


def expected_by_pair(x, Y):
    """For each pair of consecutive samples: the integers k with
    min(Y_i, Y_i+1) <= k < max(Y_i, Y_i+1) and the point where the chord equals k.
    Brute force over every integer in the hull of the series."""
    if not Y:
        return []
    lo, hi = math.floor(min(Y)) - 1, math.ceil(max(Y)) + 1
    # long series / large hulls: the same test over the integers from one below the pair's lower sample to one above
    # its upper sample (every integer outside that window fails the test below; the window only saves time)
    local = (len(Y) - 1) * (hi - lo + 1) > 200000
    out = []
    for i in range(len(Y) - 1):
        a, b = F(Y[i]), F(Y[i + 1])
        exp = {}
        if local:
            lo, hi = math.floor(min(Y[i], Y[i + 1])) - 1, math.ceil(max(Y[i], Y[i + 1])) + 1
        for k in range(lo, hi + 1):
            if min(a, b) <= k < max(a, b):
                exp[k] = F(x[i]) + (k - a) * (F(x[i + 1]) - F(x[i])) / (b - a)
        out.append(exp)
    return out


def oracle_regrid(x, y, step, items):
    """Returns a list of complaints (empty = the property holds on this output)."""
    Y = [v / step for v in y]      # the scaled units of the implementation's interpolant
    exp = expected_by_pair(x, Y)
    bad = []
    pos = 0
    for i, e in enumerate(exp):
        got = items[pos:pos + len(e)]
        pos += len(e)
        if sorted(k for k, _ in got) != sorted(e):
            bad.append('pair %d (Y %r -> %r): levels reported %s, multiples of the step between the '
                       'samples (lower included, upper excluded) %s'
                       % (i, Y[i], Y[i + 1], [k for k, _ in got], sorted(e)))
            return bad
        for k, xs in got:
            if not min(x[i], x[i + 1]) <= xs <= max(x[i], x[i + 1]):
                bad.append('pair %d level %d: position %r outside [%r, %r]' % (i, k, xs, x[i], x[i + 1]))
            tol = tolerance(x[i], x[i + 1], Y[i], Y[i + 1], xs)
            if abs(F(xs) - e[k]) > tol:
                bad.append('pair %d level %d: position %r is not where the chord equals the level '
                           '(%r), off by %.3g > %.3g' % (i, k, xs, float(e[k]), float(abs(F(xs) - e[k])),
                                                         float(tol)))
    if pos != len(items):
        bad.append('%d items reported beyond those of the pairs: %s' % (len(items) - pos, items[pos:pos + 5]))
    return bad


def oracle_mapping(series, step, mapping):
    """Every (series, level) that has crossings appears once with the mean of
    that series' crossings; nothing else appears."""
    bad = []
    want = {}
    for sid, s in enumerate(series):
        Y = [v / step for v in s['y']]
        per = {}
        for i, e in enumerate(expected_by_pair(s['x'], Y)):
            for k, xs in e.items():
                per.setdefault(k, []).append((xs, tolerance(s['x'][i], s['x'][i + 1], Y[i], Y[i + 1], xs)))
        for k, l in per.items():
            mean = sum(v for v, _ in l) / len(l)
            tol = max(t for _, t in l) + (len(l) + 2) * F(23, 10 ** 17) * max(abs(v) for v, _ in l)
            want[(k, sid)] = (mean, tol)
    got = {}
    for k, entries in mapping:
        for sid, m in entries:
            if (k, sid) in got:
                bad.append('level %d lists series %d twice' % (k, sid))
            got[(k, sid)] = m
    if len({k for k, _ in mapping}) != len(mapping):
        bad.append('a level appears under two keys')
    if set(got) != set(want):
        bad.append('(level, series) pairs stored %s differ from those with crossings %s'
                   % (sorted(set(got) - set(want))[:5], sorted(set(want) - set(got))[:5]))
        return bad
    for key, m in got.items():
        mean, tol = want[key]
        if abs(F(m) - mean) > tol:
            bad.append('level %d series %d: stored %r, mean of the crossings %r' % (key[0], key[1], m, float(mean)))
    return bad


# ------------------------------------------------------------- case files

def cres(res, okf):
    return '(Ok %s)' % okf(res[1]) if res[0] == 'ok' else '(Err %s)' % res[1]


def regrid_case_str(s, res):
    items = lambda l: C.clist([C.cpair(C.cZ(k), C.cfloat(v)) for k, v in l])
    return '(%s, %s, %s, %s)' % (C.cfloats(s['x']), C.cfloats(s['y']), C.cfloat(s['step']), cres(res, items))


def mapping_case_str(c, res):
    ser = C.clist([C.cpair(C.cfloats(s['x']), C.cfloats(s['y'])) for s in c['series']])
    okf = lambda m: C.clist([C.cpair(C.cZ(k), C.clist([C.cpair('%d%%nat' % sid, C.cfloat(t)) for sid, t in e]))
                             for k, e in m])
    return '(%s, %s, %s)' % (ser, C.cfloat(c['step']), cres(res, okf))


def well_formed(s):
    return len(s['x']) == len(s['y']) and all(math.isfinite(v) for v in s['y'])


def in_model_domain(s):
    """Quotients finite and far inside int64 (outside, numpy's cast is undefined)."""
    if not well_formed(s):
        return True          # the model has the refusals
    if s['step'] == 0:
        return False
    return all(math.isfinite(v / s['step']) and abs(v / s['step']) < 2.0 ** 62 for v in s['y'])


def check_regrid(series, out, label, extra=()):
    """extra: (case string, replayable case, result, description) of calls made elsewhere (check_calls) whose
    results go through the same model comparison."""
    strs, results, kept = [], [], []
    for s in series:
        s = dict(s, x=[fl(v) for v in s['x']], y=[fl(v) for v in s['y']], step=fl(s['step']))
        case = dict(level='FL-regrid', x=s['x'], y=s['y'], step=s['step'])
        res = impl_regrid(s['x'], s['y'], s['step'])
        out.evaluations += 1
        out.count('FL-regrid:' + s.get('cls', '?'))
        out.count('x:' + s.get('xcls', '?'))
        out.count('step:%r' % s['step'])
        if not in_model_domain(s):
            out.count('FL-regrid-outside-model')
            continue
        if res[0] == 'ok':
            if not well_formed(s):
                out.violation('oracle', 'regrid accepted a malformed series x=%s y=%s' % (s['x'], s['y']),
                              case=case)
            else:
                for msg in oracle_regrid(s['x'], s['y'], s['step'], res[1])[:3]:
                    out.violation('oracle', 'regrid(x=%s, y=%s, step=%r): %s' % (s['x'], s['y'], s['step'], msg),
                                  case=case)
                Y = [v / s['step'] for v in s['y']]
                ks = [k for k, _ in res[1]]
                interesting = (len(set(ks)) < len(ks) or any(v == math.floor(v) for v in Y)
                               or any(a == b for a, b in zip(Y, Y[1:])))
                if len(ks) >= 2 and interesting:
                    out.nontriv(('r', tuple(s['x']), tuple(s['y']), s['step']))
                if any(v == math.floor(v) for v in Y):
                    out.count('has-sample-on-level')
                if any(a == b for a, b in zip(Y, Y[1:])):
                    out.count('has-flat-pair')
                if len(set(ks)) < len(ks):
                    out.count('has-repeated-level')
                if any(abs(v) > 1e9 for v in s['x']):
                    out.count('has-epoch-abscissae')
        elif well_formed(s):
            out.violation('oracle', 'regrid raised %s on a well-formed series x=%s y=%s step=%r'
                          % (res[1], s['x'], s['y'], s['step']), case=case)
        else:
            out.count('FL-regrid-refused')
        strs.append(regrid_case_str(s, res))
        results.append(res)
        kept.append(case)
    n_own = len(strs)
    strs += [e[0] for e in extra]
    bad, errs, _ = C.run_case_shards(
        PROP, label, PRE, 'list float * list float * float * res (list (Z * float))', 'check_regrid_f', strs, shard=120)
    out.corr_errors += errs
    for i in bad:
        if i >= n_own:
            _, case, res, what = extra[i - n_own]
            out.violation('corr', 'model regrid <> regrid.regrid, %s: impl=%s' % (what, str(res)[:400]), case=case)
            continue
        out.violation('corr', 'model regrid <> regrid.regrid on x=%s y=%s step=%r: impl=%s'
                      % (kept[i]['x'], kept[i]['y'], kept[i]['step'], str(results[i])[:400]), case=kept[i])


def check_mapping(cases, out, label, extra=()):
    strs, results, kept = [], [], []
    for c in cases:
        c = dict(step=fl(c['step']), series=[dict(x=[fl(v) for v in s['x']], y=[fl(v) for v in s['y']])
                                             for s in c['series']])
        case = dict(level='FL-mapping', step=c['step'], series=c['series'])
        res = impl_head_mapping(c['series'], c['step'])
        out.evaluations += 1
        out.count('FL-mapping:%d-series' % len(c['series']))
        if res[0] == 'ok':
            for msg in oracle_mapping(c['series'], c['step'], res[1])[:3]:
                out.violation('oracle', 'build_head_mapping(step=%r, %d series): %s'
                              % (c['step'], len(c['series']), msg), case=case)
            shared = [k for k, e in res[1] if len(e) >= 2]
            rep = False
            for s in c['series']:
                r = impl_regrid(s['x'], s['y'], c['step'])
                if r[0] == 'ok' and len({k for k, _ in r[1]}) < len(r[1]):
                    rep = True
            if shared and rep:
                out.nontriv(('m', c['step'], tuple((tuple(s['x']), tuple(s['y'])) for s in c['series'])))
            if shared:
                out.count('mapping-with-shared-level')
            if rep:
                out.count('mapping-with-averaged-level')
        else:
            out.violation('oracle', 'build_head_mapping raised %s on well-formed series' % res[1], case=case)
        strs.append(mapping_case_str(c, res))
        results.append(res)
        kept.append(case)
    n_own = len(strs)
    strs += [e[0] for e in extra]
    bad, errs, _ = C.run_case_shards(
        PROP, label, PRE, 'list (list float * list float) * float * res (list (Z * list (nat * float)))',
        'check_head_mapping_f', strs, shard=30)
    out.corr_errors += errs
    for i in bad:
        if i >= n_own:
            _, case, res, what = extra[i - n_own]
            out.violation('corr', 'model build_head_mapping <> fit_offsets.build_head_mapping, %s: impl=%s'
                          % (what, str(res)[:400]), case=case)
            continue
        out.violation('corr', 'model build_head_mapping <> fit_offsets.build_head_mapping (step=%r, series=%s): '
                      'impl=%s' % (kept[i]['step'], kept[i]['series'], str(results[i])[:400]), case=kept[i])


# ------------------------------------------------------------- steep pairs and long series (oracle only)

def crossing_stats(Y, out, tag):
    """What the series exercises, measured on the scaled ordinates: levels crossed by the steepest rising / falling
    pair, seam pairs (samples b*m - 1 and b*m) that cross a level, per block size b."""
    c = [math.ceil(v) for v in Y]
    n = len(Y)
    up = max([b - a for a, b in zip(c, c[1:])] + [0])
    down = max([a - b for a, b in zip(c, c[1:])] + [0])
    for name, d in (('rising', up), ('falling', down)):
        for lim in (100, 512, 1024, 4096):
            if d > lim:
                out.count('%s:pair-%s-across->%d-levels' % (tag, name, lim))
    for b in G.BLOCK_SIZES:
        m = sum(1 for p in range(b, n, b) if c[p] != c[p - 1])
        if m:
            out.count('%s:seam-pairs-of-block-%d-crossing-a-level' % (tag, b), m)
    for lim in (1024, 4096, 8192):
        if n > lim:
            out.count('%s:samples->%d' % (tag, lim))


def short(v, n=6):
    return '%s%s' % (v[:n], '' if len(v) <= n else ' ... %d values' % len(v))


def check_large(items, out):
    """Steep pairs (100-5000 levels between two samples) and long series (1500-10000 samples), judged by the oracle
    only: regrid on a series ('fn': 'regrid'), build_head_mapping on a set ('fn': 'mapping').  Not sent to Coq (reading
    the literals would dominate); the property's wording evaluated with exact fractions is what judges them."""
    for it in items:
        step = fl(it['step'])
        series = [dict(x=[fl(v) for v in s['x']], y=[fl(v) for v in s['y']]) for s in it['series']]
        case = dict(level='FL-large', fn=it['fn'], cls=it.get('cls', '?'), step=step, series=series)
        tag = 'FL-large:' + it['fn']
        out.evaluations += 1
        out.count('%s:%s' % (tag, it.get('cls', '?')))
        for s in series:
            crossing_stats([v / step for v in s['y']], out, tag)
        where = '%s, step=%r, %s' % (it.get('cls', '?'), step, '; '.join(
            '%d samples x=%s y=%s' % (len(s['x']), short(s['x'], 3), short(s['y'], 3)) for s in series))
        if it['fn'] == 'regrid':
            res = impl_regrid(series[0]['x'], series[0]['y'], step)
            msgs = oracle_regrid(series[0]['x'], series[0]['y'], step, res[1]) if res[0] == 'ok' else []
            name = 'regrid'
        else:
            res = impl_head_mapping(series, step)
            msgs = oracle_mapping(series, step, res[1]) if res[0] == 'ok' else []
            name = 'build_head_mapping'
        if res[0] != 'ok':
            out.violation('oracle', '%s raised %s on a well-formed finite series (%s)' % (name, res[1], where), case=case)
            continue
        for msg in msgs[:3]:
            out.violation('oracle', '%s (%s): %s' % (name, where, msg[:700]), case=case)
        if not msgs:
            out.nontriv(('L', it['fn'], it.get('cls', '?'), step, len(series), tuple(series[0]['y'][:40])))


def large_items(seed, tier):
    """The steep and long inputs of one run (own random stream)."""
    lrng = C.rng_for(seed, PROP, 'large')
    items = []
    # steep pairs: rising and falling in turn, 100-5000 levels within one pair of samples; every fourth through
    # build_head_mapping with a second, ordinary series
    nsteep = 16 if tier == 'quick' else 120
    for k in range(nsteep):
        # counts on both sides of 512 / 1024 / 4096 come round within one run, the very large ones are rarer
        nlev = None if k % 4 else lrng.choice([c for c in G.STEEP_COUNTS if c <= 1100])
        s = G.gen_steep_series(lrng, 'falling' if k % 2 else 'rising', nlev=nlev)
        if k % 4 == 3 or k % 4 == 0 and k % 8:
            other = G.gen_series(lrng, 'nonmono', 'offset', s['step'], nmax=7)
            items.append(dict(fn='mapping', cls=s['cls'], step=s['step'],
                              series=[dict(x=s['x'], y=s['y']), dict(x=other['x'], y=other['y'])]))
        else:
            items.append(dict(fn='regrid', cls=s['cls'], step=s['step'], series=[dict(x=s['x'], y=s['y'])]))
    # long series: crossings in the pairs straddling samples 1000, 1024, 2048, 4096, 8192
    shapes = list(G.LONG_SHAPES)
    lrng.shuffle(shapes)
    for j, n in enumerate(G.long_sizes(lrng, tier)):
        s = G.gen_long_series(lrng, n, shape=shapes[j % len(shapes)])
        one = dict(x=s['x'], y=s['y'])
        items.append(dict(fn='regrid', cls=s['cls'], step=s['step'], series=[one]))
        short_one = G.gen_series(lrng, 'falling', 'offset', s['step'], nmax=9)
        items.append(dict(fn='mapping', cls=s['cls'], step=s['step'],
                          series=[one, dict(x=short_one['x'], y=short_one['y'])]))
    return items


# ------------------------------------------------------------- call forms and call histories

JUNK = -7777.25         # what lies between the samples in the larger array a view is cut from


def build_form(form, x, y):
    """The objects handed to the function for the numbers x, y, and the larger arrays they are views of.
    -> (x object, y object, [(name, object whose content must stay as it is)])"""
    n = len(x)
    if form in ('f64', 'f64-readonly'):
        xa, ya = np.array(x, dtype='float64'), np.array(y, dtype='float64')
        if form == 'f64-readonly':
            xa.flags.writeable = False
            ya.flags.writeable = False
        return xa, ya, [('x', xa), ('y', ya)]
    if form == 'f64-view':          # every other element of a longer array
        bx, by = np.full(2 * n, JUNK), np.full(2 * n, JUNK)
        bx[::2], by[::2] = x, y
        return bx[::2], by[::2], [('the array x is a view of', bx), ('the array y is a view of', by)]
    if form == 'f64-rev':           # a reversed view (negative stride)
        bx, by = np.array(x[::-1], dtype='float64'), np.array(y[::-1], dtype='float64')
        return bx[::-1], by[::-1], [('the array x is a view of', bx), ('the array y is a view of', by)]
    if form == 'f64-col':           # two columns of one table (epoch, level, something else)
        tab = np.full((n, 3), JUNK)
        tab[:, 0], tab[:, 1] = x, y
        return tab[:, 0], tab[:, 1], [('the table x and y are columns of', tab)]
    if form == 'x-list':            # as in the example at the foot of regrid.py: abscissae in a list
        xl, ya = list(x), np.array(y, dtype='float64')
        return xl, ya, [('x', xl), ('y', ya)]
    if form in ('int', 'int32'):
        xa = np.array(x, dtype=form + '64' if form == 'int' else form) if all(v == int(v) for v in x) \
            else np.array(x, dtype='float64')
        ya = np.array(y, dtype='int64' if form == 'int' else 'int32')
        return xa, ya, [('x', xa), ('y', ya)]
    if form == 'f32':
        x32 = np.array(x, dtype='float32')
        xa = x32 if [float(v) for v in x32] == list(x) else np.array(x, dtype='float64')
        ya = np.array(y, dtype='float32')
        return xa, ya, [('x', xa), ('y', ya)]
    raise ValueError(form)


def snapshot(obj):
    if isinstance(obj, np.ndarray):
        return (obj.dtype.str, obj.shape, obj.strides, bool(obj.flags.writeable), obj.tobytes())
    return (type(obj).__name__, repr(obj))


def show(obj):
    return str(obj.tolist() if isinstance(obj, np.ndarray) else obj)[:300]


def make_step(step, stepform):
    return int(step) if stepform == 'int' else np.float64(step) if stepform == 'np.float64' else float(step)


def check_calls(histories, out):
    """Each history: one set of objects, a sequence of calls with those same objects.  After every call: the objects are
    compared bit for bit with their pristine copies, and the result is judged by the oracle against the pristine numbers.
    Returns the case strings of every call for the model comparison (see check_regrid / check_mapping)."""
    import spowtd.regrid as rg
    import spowtd.fit_offsets as fo
    extra_r, extra_m = [], []
    for h in histories:
        form = h['form']
        case = dict(level='FL-calls', form=form, calls=h['calls'],
                    series=[dict(x=[fl(v) for v in s['x']], y=[fl(v) for v in s['y']]) for s in h['series']])
        objs, keep = [], []
        for sid, s in enumerate(case['series']):
            xa, ya, k = build_form(form, s['x'], s['y'])
            objs.append((xa, ya))
            keep += [('series %d: %s' % (sid, name), o) for name, o in k]
        # the numbers the caller holds, read back from the objects (exact for every form)
        held = [dict(x=[float(v) for v in xa], y=[float(v) for v in ya]) for xa, ya in objs]
        if any(a != b for s, hd in zip(case['series'], held) for a, b in zip(s['x'] + s['y'], hd['x'] + hd['y'])):
            raise AssertionError('generator: form %s does not hold the numbers exactly' % form)
        pristine = [(name, o, snapshot(o), show(o)) for name, o in keep]
        out.count('FL-calls:form=' + form)
        out.count('FL-calls:history=' + ','.join(
            '%s@%s' % (c['fn'], 'same' if c['step'] == h['calls'][0]['step'] else 'other') for c in h['calls']))
        failed = False
        for n, c in enumerate(h['calls']):
            step = make_step(c['step'], c['stepform'])
            what = ('call %d of %d with the same %s objects, %s(step=%r as %s)'
                    % (n + 1, len(h['calls']), form, c['fn'], c['step'], c['stepform']))
            out.evaluations += 1
            out.count('FL-calls:%s:call-%d' % (c['fn'], n + 1))
            out.count('FL-calls:stepform=' + c['stepform'])
            try:
                if c['fn'] == 'regrid':
                    xa, ya = objs[c['i']]
                    res = ('ok', [(int(k), float(v)) for k, v in rg.regrid(xa, ya, step)])
                else:
                    m = fo.build_head_mapping(tuple(objs) if n % 2 else list(objs), step)
                    res = ('ok', [(int(k), [(int(sid), float(t)) for sid, t in v]) for k, v in m.items()])
            except Exception as e:  # pylint: disable=broad-except
                res = ('err', C.err_of(e))
                out.violation('oracle', '%s raised %s: %s on a well-formed finite series (%s)'
                              % (what, type(e).__name__, str(e)[:120], held[c['i'] or 0]), case=case)
                failed = True
            # (a) the sampled series is not modified
            for name, o, snap, text in pristine:
                if snapshot(o) != snap:
                    out.violation('oracle', '%s modified the caller\'s data (%s): was %s, is now %s; the crossings '
                                  'reported are then not crossings of the series the caller holds'
                                  % (what, name, text, show(o)), case=case)
                    failed = True
                    break
            # (b) the result of this call, against the pristine numbers
            if res[0] == 'ok':
                if c['fn'] == 'regrid':
                    hd = held[c['i']]
                    msgs = oracle_regrid(hd['x'], hd['y'], fl(c['step']), res[1])
                    where = 'x=%s y=%s' % (hd['x'], hd['y'])
                else:
                    msgs = oracle_mapping(held, fl(c['step']), res[1])
                    where = '%d series' % len(held)
                for msg in msgs[:2]:
                    out.violation('oracle', '%s, %s: %s' % (what, where, msg), case=case)
                    failed = True
                if n and not msgs:
                    out.nontriv(('c', form, n, c['fn'], c['step'],
                                 tuple((tuple(s['x']), tuple(s['y'])) for s in held)))
            if c['fn'] == 'regrid':
                hd = held[c['i']]
                extra_r.append((regrid_case_str(dict(x=hd['x'], y=hd['y'], step=fl(c['step'])), res), case, res, what))
            else:
                extra_m.append((mapping_case_str(dict(series=held, step=fl(c['step'])), res), case, res, what))
            if failed:
                break           # later calls of the same history repeat the complaint
    return extra_r, extra_m


def call_probes(out):
    """Input forms on which the unchanged tree does not meet the wording (recorded in the
    input distribution, not judged): the ordinates in a Python list (TypeError: list / float), and float32 ordinates with a
    step that is not a power of two (the quotient is rounded to float32, 1e-7 relative: a sample just above a level is
    reported as lying on it)."""
    import spowtd.regrid as rg
    x = [0.0, 1.0, 2.0, 3.0]
    try:
        list(rg.regrid(np.array(x), [2.0, 5.25, -1.5, 3.0], 0.5))
        r = 'accepted'
    except Exception as e:  # pylint: disable=broad-except
        r = type(e).__name__
    out.count('probe:y-as-python-list:' + r)
    y32 = np.array([0.3, 0.7, 0.1, 0.5], dtype='float32')
    try:
        a = list(rg.regrid(np.array(x), y32, 0.1))
        b = list(rg.regrid(np.array(x), y32.astype('float64'), 0.1))
        r = 'same-as-float64' if a == b else 'differs-from-float64-of-the-same-numbers'
    except Exception as e:  # pylint: disable=broad-except
        r = type(e).__name__
    out.count('probe:float32-with-step-0.1:' + r)


FIXED_HISTORIES = [
    # the example of regrid.py's own __main__, twice, then with another step
    dict(form='x-list', series=[dict(x=[0.0, 1.0, 2.0, 3.0, 4.0], y=[2.0, 5.2, -1.3, -1.2, 10.0])],
         calls=[dict(fn='regrid', i=0, step=1.0, stepform='float'), dict(fn='regrid', i=0, step=1.0, stepform='float'),
                dict(fn='regrid', i=0, step=0.5, stepform='float')]),
    dict(form='f64', series=[dict(x=[0.0, 600.0, 1200.0, 1800.0], y=[-12.5, -3.0, -7.25, 4.0])],
         calls=[dict(fn='regrid', i=0, step=2.5, stepform='float'), dict(fn='mapping', i=None, step=2.5, stepform='float'),
                dict(fn='regrid', i=0, step=0.5, stepform='float')]),
    dict(form='f64-readonly', series=[dict(x=[0.0, 1.0, 2.0], y=[0.5, 3.5, -2.0])],
         calls=[dict(fn='regrid', i=0, step=0.1, stepform='float'), dict(fn='mapping', i=None, step=0.1, stepform='float')]),
]


FIXED = [
    # the example of regrid.py's own __main__
    dict(cls='fixed', xcls='index', x=[0.0, 1.0, 2.0, 3.0, 4.0], y=[2.0, 5.2, -1.3, -1.2, 10.0], step=1.0),
    # a sample exactly on a level at a trough (reported by both pairs) and at a peak (by neither)
    dict(cls='fixed', xcls='index', x=[0.0, 1.0, 2.0, 3.0, 4.0], y=[2.5, 1.0, 2.5, 3.0, 1.5], step=1.0),
    dict(cls='fixed', xcls='index', x=[0.0, 1.0, 2.0], y=[0.5, 0.5, 0.5], step=0.1),
    dict(cls='fixed', xcls='epoch', x=[1.4e9, 1.4e9 + 600, 1.4e9 + 1200], y=[-0.3, 0.35, -0.3], step=0.1),
    dict(cls='fixed', xcls='index', x=[0.0, 1.0], y=[-5e-324, 3.0], step=1.0),
    dict(cls='fixed', xcls='index', x=[0.0, 1.0], y=[3.0, -5e-324], step=1.0),
    dict(cls='fixed', xcls='index', x=[0.0, 1.0, 2.0], y=[1.0, 2.0, 1.0], step=-1.0),
]


def run(ctx, out):
    C.import_spowtd()
    seed, tier = ctx['seed'], ctx['tier']
    rng = C.rng_for(seed, PROP)
    nfl = 1500 if tier == 'quick' else 15000
    nmap = 240 if tier == 'quick' else 2400
    series = list(FIXED)
    k = 0
    while len(series) < nfl:
        cls = G.SERIES_CLASSES[k % len(G.SERIES_CLASSES)]
        xcls = G.X_CLASSES[(k // len(G.SERIES_CLASSES)) % len(G.X_CLASSES)]
        step = G.STEPS[(k // 3) % len(G.STEPS)] if k % 7 else None
        series.append(G.gen_series(rng, cls, xcls, step))
        k += 1
    series += [G.gen_malformed(rng) for _ in range(max(12, nfl // 60))]
    # call forms and call histories: own stream, every form x every kind of history in turn
    crng = C.rng_for(seed, PROP, 'calls')
    fns = ['regrid', 'regrid', 'mapping', 'mixed']
    histories = list(FIXED_HISTORIES)
    for k in range(160 if tier == 'quick' else 1600):
        histories.append(G.gen_call_history(crng, fns[k % len(fns)], G.CALL_FORMS[(k // len(fns)) % len(G.CALL_FORMS)]))
    extra_r, extra_m = check_calls(histories, out)
    call_probes(out)
    check_regrid(series, out, 'fl_regrid', extra=extra_r)
    sets = [G.gen_series_set(rng) for _ in range(nmap)]
    check_mapping(sets, out, 'fl_mapping', extra=extra_m)
    check_large(large_items(seed, tier), out)
    out.rule = ('FL: seeded series of 10 shapes (rising, falling, non-monotone, flat pairs, samples exactly on a '
                'level, one to three ulp beside it, denormals around level 0, zigzag, two-point rises, wide '
                'jumps) x 4 kinds of abscissae (indices, UNIX epochs ~1.4e9, offsets, irregular floats) x steps '
                '{1, .5, .1, .3, 2.5} (+ a few others), plus malformed inputs (unequal lengths, inf, nan, empty, '
                'single sample) through regrid.regrid; sets of 1-5 series through build_head_mapping. '
                'Call forms and histories: 160 (x10 thorough) sets of 1-4 series handed over as float64 arrays, strided / '
                'reversed / column views, read-only arrays, int64, int32, float32 (numbers exact in that type, steps '
                'powers of two), abscissae in a list, x steps as float / numpy.float64 / int, through 1-3 calls of '
                'regrid / build_head_mapping with the SAME objects (same step again, another step): after every call '
                'the objects are compared bit for bit with a pristine copy and the result is judged by the same oracle '
                'and by the model against the pristine numbers (non-trivial: a second or third call judged right). '
                'Steep and long inputs (FL-large, own stream, ORACLE ONLY - not sent to Coq, the exact-fraction oracle judges '
                'them): 16 (120 thorough) short series with one pair of samples crossing 100-5000 levels (counts on both sides '
                'of 512 / 1024 / 4096), rising and falling in turn, through regrid and build_head_mapping; 2 (7 thorough) '
                'series of 1500-10000 samples (one past 4096, one run in two past 8192; never a multiple of 1000 / 1024 / '
                '2048 / 4096 / 8192, one in four a block size + 1) of the shapes saw-tooth on a decline, saw-tooth about '
                'one level, monotone recession, staircase, with a level crossing in EVERY pair of samples straddling a '
                'multiple of those block sizes (measured: seam-pairs-of-block-*), each through regrid and, with a short '
                'second series, through build_head_mapping. '
                'Non-trivial: >= 2 reported crossings and (a level reported more than once, or a sample whose '
                'scaled value is an integer, or a flat pair) for regrid; a level shared by >= 2 series and a '
                'level crossed more than once by one series for the mapping; distinct by the input values.')
    out.samples = [dict(level='FL-regrid', **{k: v for k, v in s.items()}) for s in series[1:3]]
    out.samples.append(dict(level='FL-mapping', **sets[0]))
    out.assumptions += [
        'scipy brentq on scipy interp1d(kind=linear) is an oracle for the root of a linear function: tested '
        'each run within 4*(2e-12 + 8.9e-16*|x|) + 8*ulp(Y)*|dx/dY| of the exact rational root',
        'numpy float64 division and np.ceil -> int64 cast are exercised, modelled by PrimFloat division and '
        'Qceiling of the exact value (inputs with |y/step| >= 2^62 or non-finite quotient are outside the model)',
        'abscissae strictly increasing (interp1d sorts them otherwise)']
    out.notes.append('The half-open rule is stated and checked in scaled units (binary64 quotient y/step), '
                     'where the implementation interpolates; within one rounding of a level the unscaled '
                     'comparison min(y) <= k*step < max(y) can differ (see notes/C12.md).')


def replay(case, out):
    C.import_spowtd()
    if case['level'] == 'FL-calls':
        extra_r, extra_m = check_calls([case], out)
        check_regrid([], out, 'replay', extra=extra_r)
        check_mapping([], out, 'replay_m', extra=extra_m)
    elif case['level'] == 'FL-large':
        check_large([case], out)
    elif case['level'] == 'FL-regrid':
        check_regrid([dict(x=case['x'], y=case['y'], step=case['step'])], out, 'replay')
    else:
        check_mapping([dict(step=case['step'], series=case['series'])], out, 'replay')
