"""C12 — level-crossing positions are exact for the piecewise-linear record.

Correspondence (function level): regrid.regrid(x, y, step) and
fit_offsets.build_head_mapping(series, step) against Model/RegridFloat.v
evaluated inside Coq: the ordered sequence of reported levels must be identical
to the model's, positions / means within the root finder's tolerance (compared
over Q inside Coq).  Oracle: the property's own wording evaluated with
fractions.Fraction on the implementation's output.
"""
import math
from fractions import Fraction as F

import numpy as np

from harness import common as C
from harness import gen_regrid as G

PROP = 'C12'
MODELS = ['Model/RegridFloat.vo']
PRE = 'From Spowtd Require Import Model.RegridFloat.\nOpen Scope Q_scope.\n'


def fl(v):
    """floats survive the JSON replay files as numbers, non-finite ones as strings"""
    return float(v)


# ------------------------------------------------------------- implementation

def impl_regrid(x, y, step):
    import spowtd.regrid as rg
    try:
        items = list(rg.regrid(np.array(x, dtype='float64'), np.array(y, dtype='float64'), step))
        return ('ok', [(int(k), float(v)) for k, v in items])
    except Exception as e:  # pylint: disable=broad-except
        return ('err', C.err_of(e))


def impl_head_mapping(series, step):
    import spowtd.fit_offsets as fo
    try:
        m = fo.build_head_mapping([(np.array(s['x'], dtype='float64'), np.array(s['y'], dtype='float64'))
                                   for s in series], step)
        return ('ok', [(int(k), [(int(sid), float(t)) for sid, t in v]) for k, v in m.items()])
    except Exception as e:  # pylint: disable=broad-except
        return ('err', C.err_of(e))


# ------------------------------------------------------------- oracle (property wording)

def ulp(v):
    v = abs(v)
    return math.ulp(v) if v else 0.0


def tolerance(x0, x1, Y0, Y1, xs):
    """DESIGN 7 C12: brentq's stopping rule on a linear function + rounding of the
    interpolant it is given (scales with the inverse slope)."""
    u = max(ulp(Y0), ulp(Y1))
    return (4 * (F(2, 10 ** 12) + F(89, 10 ** 17) * max(abs(F(x0)), abs(F(x1))))
            + 8 * F(u) * abs((F(x1) - F(x0)) / (F(Y1) - F(Y0))))


def expected_by_pair(x, Y):
    """For each pair of consecutive samples: the integers k with
    min(Y_i, Y_i+1) <= k < max(Y_i, Y_i+1) and the point where the chord equals k.
    Brute force over every integer in the hull of the series."""
    if not Y:
        return []
    lo, hi = math.floor(min(Y)) - 1, math.ceil(max(Y)) + 1
    out = []
    for i in range(len(Y) - 1):
        a, b = F(Y[i]), F(Y[i + 1])
        exp = {}
        for k in range(lo, hi + 1):
            if min(a, b) <= k < max(a, b):
                exp[k] = F(x[i]) + (k - a) * (F(x[i + 1]) - F(x[i])) / (b - a)
        out.append(exp)
    return out


def oracle_regrid(x, y, step, items):
    """Returns a list of complaints (empty = the property holds on this output)."""
    Y = [v / step for v in y]      # the scaled units of the implementation's interpolant
    exp = expected_by_pair(x, Y)
    bad = []
    pos = 0
    for i, e in enumerate(exp):
        got = items[pos:pos + len(e)]
        pos += len(e)
        if sorted(k for k, _ in got) != sorted(e):
            bad.append('pair %d (Y %r -> %r): levels reported %s, multiples of the step between the '
                       'samples (lower included, upper excluded) %s'
                       % (i, Y[i], Y[i + 1], [k for k, _ in got], sorted(e)))
            return bad
        for k, xs in got:
            if not min(x[i], x[i + 1]) <= xs <= max(x[i], x[i + 1]):
                bad.append('pair %d level %d: position %r outside [%r, %r]' % (i, k, xs, x[i], x[i + 1]))
            tol = tolerance(x[i], x[i + 1], Y[i], Y[i + 1], xs)
            if abs(F(xs) - e[k]) > tol:
                bad.append('pair %d level %d: position %r is not where the chord equals the level '
                           '(%r), off by %.3g > %.3g' % (i, k, xs, float(e[k]), float(abs(F(xs) - e[k])),
                                                         float(tol)))
    if pos != len(items):
        bad.append('%d items reported beyond those of the pairs: %s' % (len(items) - pos, items[pos:pos + 5]))
    return bad


def oracle_mapping(series, step, mapping):
    """Every (series, level) that has crossings appears once with the mean of
    that series' crossings; nothing else appears."""
    bad = []
    want = {}
    for sid, s in enumerate(series):
        Y = [v / step for v in s['y']]
        per = {}
        for i, e in enumerate(expected_by_pair(s['x'], Y)):
            for k, xs in e.items():
                per.setdefault(k, []).append((xs, tolerance(s['x'][i], s['x'][i + 1], Y[i], Y[i + 1], xs)))
        for k, l in per.items():
            mean = sum(v for v, _ in l) / len(l)
            tol = max(t for _, t in l) + (len(l) + 2) * F(23, 10 ** 17) * max(abs(v) for v, _ in l)
            want[(k, sid)] = (mean, tol)
    got = {}
    for k, entries in mapping:
        for sid, m in entries:
            if (k, sid) in got:
                bad.append('level %d lists series %d twice' % (k, sid))
            got[(k, sid)] = m
    if len({k for k, _ in mapping}) != len(mapping):
        bad.append('a level appears under two keys')
    if set(got) != set(want):
        bad.append('(level, series) pairs stored %s differ from those with crossings %s'
                   % (sorted(set(got) - set(want))[:5], sorted(set(want) - set(got))[:5]))
        return bad
    for key, m in got.items():
        mean, tol = want[key]
        if abs(F(m) - mean) > tol:
            bad.append('level %d series %d: stored %r, mean of the crossings %r' % (key[0], key[1], m, float(mean)))
    return bad


# ------------------------------------------------------------- case files

def cres(res, okf):
    return '(Ok %s)' % okf(res[1]) if res[0] == 'ok' else '(Err %s)' % res[1]


def regrid_case_str(s, res):
    items = lambda l: C.clist([C.cpair(C.cZ(k), C.cfloat(v)) for k, v in l])
    return '(%s, %s, %s, %s)' % (C.cfloats(s['x']), C.cfloats(s['y']), C.cfloat(s['step']), cres(res, items))


def mapping_case_str(c, res):
    ser = C.clist([C.cpair(C.cfloats(s['x']), C.cfloats(s['y'])) for s in c['series']])
    okf = lambda m: C.clist([C.cpair(C.cZ(k), C.clist([C.cpair('%d%%nat' % sid, C.cfloat(t)) for sid, t in e]))
                             for k, e in m])
    return '(%s, %s, %s)' % (ser, C.cfloat(c['step']), cres(res, okf))


def well_formed(s):
    return len(s['x']) == len(s['y']) and all(math.isfinite(v) for v in s['y'])


def in_model_domain(s):
    """Quotients finite and far inside int64 (outside, numpy's cast is undefined)."""
    if not well_formed(s):
        return True          # the model has the refusals
    if s['step'] == 0:
        return False
    return all(math.isfinite(v / s['step']) and abs(v / s['step']) < 2.0 ** 62 for v in s['y'])


def check_regrid(series, out, label):
    strs, results, kept = [], [], []
    for s in series:
        s = dict(s, x=[fl(v) for v in s['x']], y=[fl(v) for v in s['y']], step=fl(s['step']))
        case = dict(level='FL-regrid', x=s['x'], y=s['y'], step=s['step'])
        res = impl_regrid(s['x'], s['y'], s['step'])
        out.evaluations += 1
        out.count('FL-regrid:' + s.get('cls', '?'))
        out.count('x:' + s.get('xcls', '?'))
        out.count('step:%r' % s['step'])
        if not in_model_domain(s):
            out.count('FL-regrid-outside-model')
            continue
        if res[0] == 'ok':
            if not well_formed(s):
                out.violation('oracle', 'regrid accepted a malformed series x=%s y=%s' % (s['x'], s['y']),
                              case=case)
            else:
                for msg in oracle_regrid(s['x'], s['y'], s['step'], res[1])[:3]:
                    out.violation('oracle', 'regrid(x=%s, y=%s, step=%r): %s' % (s['x'], s['y'], s['step'], msg),
                                  case=case)
                Y = [v / s['step'] for v in s['y']]
                ks = [k for k, _ in res[1]]
                interesting = (len(set(ks)) < len(ks) or any(v == math.floor(v) for v in Y)
                               or any(a == b for a, b in zip(Y, Y[1:])))
                if len(ks) >= 2 and interesting:
                    out.nontriv(('r', tuple(s['x']), tuple(s['y']), s['step']))
                if any(v == math.floor(v) for v in Y):
                    out.count('has-sample-on-level')
                if any(a == b for a, b in zip(Y, Y[1:])):
                    out.count('has-flat-pair')
                if len(set(ks)) < len(ks):
                    out.count('has-repeated-level')
                if any(abs(v) > 1e9 for v in s['x']):
                    out.count('has-epoch-abscissae')
        elif well_formed(s):
            out.violation('oracle', 'regrid raised %s on a well-formed series x=%s y=%s step=%r'
                          % (res[1], s['x'], s['y'], s['step']), case=case)
        else:
            out.count('FL-regrid-refused')
        strs.append(regrid_case_str(s, res))
        results.append(res)
        kept.append(case)
    bad, errs, _ = C.run_case_shards(
        PROP, label, PRE, 'list float * list float * float * res (list (Z * float))', 'check_regrid_f', strs, shard=120)
    out.corr_errors += errs
    for i in bad:
        out.violation('corr', 'model regrid <> regrid.regrid on x=%s y=%s step=%r: impl=%s'
                      % (kept[i]['x'], kept[i]['y'], kept[i]['step'], str(results[i])[:400]), case=kept[i])


def check_mapping(cases, out, label):
    strs, results, kept = [], [], []
    for c in cases:
        c = dict(step=fl(c['step']), series=[dict(x=[fl(v) for v in s['x']], y=[fl(v) for v in s['y']])
                                             for s in c['series']])
        case = dict(level='FL-mapping', step=c['step'], series=c['series'])
        res = impl_head_mapping(c['series'], c['step'])
        out.evaluations += 1
        out.count('FL-mapping:%d-series' % len(c['series']))
        if res[0] == 'ok':
            for msg in oracle_mapping(c['series'], c['step'], res[1])[:3]:
                out.violation('oracle', 'build_head_mapping(step=%r, %d series): %s'
                              % (c['step'], len(c['series']), msg), case=case)
            shared = [k for k, e in res[1] if len(e) >= 2]
            rep = False
            for s in c['series']:
                r = impl_regrid(s['x'], s['y'], c['step'])
                if r[0] == 'ok' and len({k for k, _ in r[1]}) < len(r[1]):
                    rep = True
            if shared and rep:
                out.nontriv(('m', c['step'], tuple((tuple(s['x']), tuple(s['y'])) for s in c['series'])))
            if shared:
                out.count('mapping-with-shared-level')
            if rep:
                out.count('mapping-with-averaged-level')
        else:
            out.violation('oracle', 'build_head_mapping raised %s on well-formed series' % res[1], case=case)
        strs.append(mapping_case_str(c, res))
        results.append(res)
        kept.append(case)
    bad, errs, _ = C.run_case_shards(
        PROP, label, PRE, 'list (list float * list float) * float * res (list (Z * list (nat * float)))',
        'check_head_mapping_f', strs, shard=30)
    out.corr_errors += errs
    for i in bad:
        out.violation('corr', 'model build_head_mapping <> fit_offsets.build_head_mapping (step=%r, series=%s): '
                      'impl=%s' % (kept[i]['step'], kept[i]['series'], str(results[i])[:400]), case=kept[i])


FIXED = [
    # the example of regrid.py's own __main__
    dict(cls='fixed', xcls='index', x=[0.0, 1.0, 2.0, 3.0, 4.0], y=[2.0, 5.2, -1.3, -1.2, 10.0], step=1.0),
    # a sample exactly on a level at a trough (reported by both pairs) and at a peak (by neither)
    dict(cls='fixed', xcls='index', x=[0.0, 1.0, 2.0, 3.0, 4.0], y=[2.5, 1.0, 2.5, 3.0, 1.5], step=1.0),
    dict(cls='fixed', xcls='index', x=[0.0, 1.0, 2.0], y=[0.5, 0.5, 0.5], step=0.1),
    dict(cls='fixed', xcls='epoch', x=[1.4e9, 1.4e9 + 600, 1.4e9 + 1200], y=[-0.3, 0.35, -0.3], step=0.1),
    dict(cls='fixed', xcls='index', x=[0.0, 1.0], y=[-5e-324, 3.0], step=1.0),
    dict(cls='fixed', xcls='index', x=[0.0, 1.0], y=[3.0, -5e-324], step=1.0),
    dict(cls='fixed', xcls='index', x=[0.0, 1.0, 2.0], y=[1.0, 2.0, 1.0], step=-1.0),
]


def run(ctx, out):
    C.import_spowtd()
    seed, tier = ctx['seed'], ctx['tier']
    rng = C.rng_for(seed, PROP)
    nfl = 1500 if tier == 'quick' else 15000
    nmap = 240 if tier == 'quick' else 2400
    series = list(FIXED)
    k = 0
    while len(series) < nfl:
        cls = G.SERIES_CLASSES[k % len(G.SERIES_CLASSES)]
        xcls = G.X_CLASSES[(k // len(G.SERIES_CLASSES)) % len(G.X_CLASSES)]
        step = G.STEPS[(k // 3) % len(G.STEPS)] if k % 7 else None
        series.append(G.gen_series(rng, cls, xcls, step))
        k += 1
    series += [G.gen_malformed(rng) for _ in range(max(12, nfl // 60))]
    check_regrid(series, out, 'fl_regrid')
    sets = [G.gen_series_set(rng) for _ in range(nmap)]
    check_mapping(sets, out, 'fl_mapping')
    out.rule = ('FL: seeded series of 10 shapes (rising, falling, non-monotone, flat pairs, samples exactly on a '
                'level, one to three ulp beside it, denormals around level 0, zigzag, two-point rises, wide '
                'jumps) x 4 kinds of abscissae (indices, UNIX epochs ~1.4e9, offsets, irregular floats) x steps '
                '{1, .5, .1, .3, 2.5} (+ a few others), plus malformed inputs (unequal lengths, inf, nan, empty, '
                'single sample) through regrid.regrid; sets of 1-5 series through build_head_mapping. '
                'Non-trivial: >= 2 reported crossings and (a level reported more than once, or a sample whose '
                'scaled value is an integer, or a flat pair) for regrid; a level shared by >= 2 series and a '
                'level crossed more than once by one series for the mapping; distinct by the input values.')
    out.samples = [dict(level='FL-regrid', **{k: v for k, v in s.items()}) for s in series[1:3]]
    out.samples.append(dict(level='FL-mapping', **sets[0]))
    out.assumptions += [
        'scipy brentq on scipy interp1d(kind=linear) is an oracle for the root of a linear function: tested '
        'each run within 4*(2e-12 + 8.9e-16*|x|) + 8*ulp(Y)*|dx/dY| of the exact rational root',
        'numpy float64 division and np.ceil -> int64 cast are exercised, modelled by PrimFloat division and '
        'Qceiling of the exact value (inputs with |y/step| >= 2^62 or non-finite quotient are outside the model)',
        'abscissae strictly increasing (interp1d sorts them otherwise)']
    out.notes.append('The half-open rule is stated and checked in scaled units (binary64 quotient y/step), '
                     'where the implementation interpolates; within one rounding of a level the unscaled '
                     'comparison min(y) <= k*step < max(y) can differ (see notes/C12.md).')


def replay(case, out):
    C.import_spowtd()
    if case['level'] == 'FL-regrid':
        check_regrid([dict(x=case['x'], y=case['y'], step=case['step'])], out, 'replay')
    else:
        check_mapping([dict(step=case['step'], series=case['series'])], out, 'replay')
