"""C08 — master curves do not depend on arbitrary processing choices.

FL on fit_offsets.get_series_time_offsets: each generated interval collection
is presented (a) as is, (b) permuted, (c) with every interval's own axis shifted
by a constant, (d) reversed (another interval becomes the internal zero); the
origin-fixed master curve and the set of included intervals must agree.  An
independent union-find decides the main body.  get_connected_components is also
run on arbitrary level->series dicts (the domain of the theorems of
Proofs/ComponentsSpec.v) against a graph-search oracle and the model.  CL: planted
datasets through the CLI; the stored master curves against an independent
least-squares alignment of the stored crossings with ANOTHER interval as internal
zero and the rows in another order (origin at the highest level).  Coq correspondence:
get_connected_components against Model/Components.v, and the offsets of the main
body against the exact model evaluated on the head mapping that
build_head_mapping produced.
"""
import math
import os

os.environ.setdefault('OPENBLAS_NUM_THREADS', '1')   # (before numpy is loaded: a busy machine makes threaded BLAS 100x slower on the large cases)
import numpy as np  # noqa: E402

from harness import common as C
from harness import gen_offsets as GO
from harness.props import c05 as P5

PROP = 'C08'
MODELS = ['Model/Components.vo', 'Model/Views.vo', 'Model/ViewsCase.vo']   # .vo files the generated case files import
PRE = 'From Spowtd Require Import Model.Components.\nClose Scope Q_scope.\n'


def gen_collection(rng, tie=False, degenerate=False):
    """Pieces of one decreasing curve (plus noise), optionally with a planted disconnected group.
    tie=True: one more piece is inserted that starts from EXACTLY the same level as the piece with the highest
    initial level (a tie for the reference interval); its random numbers are drawn after all the others.
    degenerate=True: 1-3 intervals of degenerate shape are inserted at random positions (see add_degenerate);
    their random numbers are drawn last."""
    M = 80
    L = [0.0]
    for _ in range(M):
        L.append(L[-1] - rng.choice([0.25, 0.5, 0.75, 1.0, 1.5]))
    step = rng.choice([600.0, 1800.0, 3600.0])
    n = rng.randrange(2, 8)
    series = []
    m0s = []
    m = rng.randrange(0, 10)
    for _ in range(n):
        ln = rng.randrange(3, 12)
        m0 = max(0, min(M - ln, m + rng.randrange(-4, 5)))
        m0s.append(m0)
        t0 = float(rng.choice([0, 1361318400, 86400 * 3]))
        H = [L[m0 + i] + (rng.randrange(-8, 9) / 64.0 if rng.random() < 0.3 else 0.0) for i in range(ln + 1)]
        series.append((np.array([t0 + i * step for i in range(ln + 1)]), np.array(H)))
        m = m0 + rng.randrange(1, ln)
    planted = 0
    if rng.random() < 0.5:      # disconnected small group far below
        k = rng.randrange(1, 3)
        for j in range(k):
            ln = rng.randrange(2, 5)
            H = [-500.0 - 0.5 * i - 0.25 * j for i in range(ln + 1)]
            series.append((np.array([float(i) * step for i in range(ln + 1)]), np.array(H)))
        planted = k
    grid = rng.choice([0.5, 1.0, 2.0])
    if tie:
        for _ in range(rng.choice([1, 1, 1, 2])):       # sometimes a three-way tie
            top = max(range(len(m0s)), key=lambda i: series[i][1][0])
            ln = rng.randrange(3, 12)
            ln = min(ln, M - m0s[top])
            t0 = float(rng.choice([0, 1361318400, 86400 * 3]))
            H = [series[top][1][0]] + [L[m0s[top] + i] + (rng.randrange(-8, 9) / 64.0 if rng.random() < 0.3 else 0.0)
                                       for i in range(1, ln + 1)]
            pos = rng.randrange(0, len(m0s) + 1)
            series.insert(pos, (np.array([t0 + i * step for i in range(ln + 1)]), np.array(H)))
            m0s.insert(pos, m0s[top])
    if degenerate:
        add_degenerate(rng, series, L, step, grid)
    return series, grid, planted


# sample indices at which software that works through a long series in pieces is likely to cut it
SEAM_BLOCKS = (500, 512)          # (their multiples include 1000, 1024, 2048, 4096, 8192, 10000)


def seams_of(n):
    """Indices b (0 < b < n) that are multiples of 500 or 512: the segment between samples b-1 and b straddles a cut."""
    return sorted({b for blk in SEAM_BLOCKS for b in range(blk, n, blk)})


def gen_many_collection(rng, min_eq=5000, max_eq=9000):
    """LARGE collection: 45-160 NOISY pieces of one decreasing curve, each 40-110 samples long over 30-90 grid levels
    (more than 4096 (level, interval) equations in all, not a multiple of the usual block sizes), a third of them
    starting from exactly the same ponded level (ties of the initial level: the order of presentation then decides
    the internal order of the intervals)."""
    M = 240
    L = [0.0]
    for _ in range(M):
        L.append(L[-1] - rng.choice([0.25, 0.5, 0.75, 1.0, 1.5]))
    step = rng.choice([600.0, 1800.0, 3600.0])
    grid = rng.choice([0.5, 1.0])
    target = rng.randrange(min_eq, max_eq)
    series, total = [], 0
    while total < target:
        ln = rng.randrange(40, 111)
        m0 = 0 if rng.random() < 0.33 else rng.randrange(0, M - ln)
        t0 = float(rng.choice([0, 1361318400, 86400 * 3]))
        H = [L[m0 + i] + (rng.randrange(-8, 9) / 64.0 if i else 0.0) for i in range(ln + 1)]
        series.append((np.array([t0 + i * step for i in range(ln + 1)]), np.array(H)))
        total += int((H[0] - H[-1]) / grid)
    return series, grid, 0, [], dict(large='many noisy intervals', coq=False)


def gen_steep_collection(rng, n_max=5000):
    """LARGE collection: two LONG intervals (1500-n_max samples) over the same levels, so steep that EVERY pair of
    consecutive samples passes one or two grid levels (whatever the block size in which a long series might be worked
    through, a crossing sits in the segment straddling the cut), sampled differently (the cuts of one fall elsewhere
    than the cuts of the other), plus a short interval near the top.  Every level is shared by the two."""
    grid = rng.choice([0.5, 1.0])
    step = rng.choice([600.0, 1800.0])
    top = -rng.randrange(0, 40) - 0.375
    series = []
    n1 = rng.randrange(1500, n_max + 1)
    depth = None
    for j in range(2):
        H = [top + j * 0.25 * grid]
        while (depth is None and len(H) < n1) or (depth is not None and H[-1] > depth):
            H.append(H[-1] - rng.choice([1.0, 1.125, 1.25, 1.5, 1.75]) * grid)
        depth = H[-1] + 2 * grid if depth is None else depth
        series.append((np.array([float(j) * 1361318400.0 + i * step for i in range(len(H))]), np.array(H)))
    H = [top + 1.5 * grid - 0.75 * grid * i for i in range(6)]
    series.append((np.array([i * step for i in range(len(H))]), np.array(H)))
    rng.shuffle(series)
    return series, grid, 0, [], dict(large='two long intervals, every pair of samples passes a grid level', coq=False)


def gen_long_collection(rng, n_max=5000):
    """LARGE collection around one or two LONG intervals (1500-n_max samples of a slow recession) in which a grid
    level is crossed exactly in every seam segment (between samples b-1 and b for b a multiple of 500 or 512;
    sometimes the later sample sits exactly on the grid line), plus SHORT intervals that cross nothing but such a
    level (their only link with the main body), plus a few ordinary pieces overlapping the top of the long interval.
    A second long interval, when present, continues below the first (sharing its lowest levels)."""
    grid = rng.choice([0.5, 1.0])
    step = rng.choice([600.0, 1800.0])
    series, seam_levels = [], []

    def long_interval(top, n):
        H = [top]
        for i in range(1, n):
            if i in seams:
                k = math.ceil(H[-1] / grid) - 1                  # the grid line strictly below the previous sample
                H.append(k * grid - rng.choice([0.0, 0.015625, 0.0625, 0.125]))
                seam_levels.append(k)
            else:
                H.append(H[-1] - rng.choice([1, 1, 2, 3]) / 256.0)
        return H
    n1 = rng.randrange(1500, n_max + 1)
    while any(n1 % b == 0 for b in SEAM_BLOCKS):
        n1 += 1
    seams = set(seams_of(n1))
    top = -rng.randrange(0, 40) - 0.375
    H1 = long_interval(top, n1)
    series.append((np.array([i * step for i in range(n1)]), np.array(H1)))
    if rng.random() < 0.5:
        n2 = rng.randrange(1500, 3001)
        seams = set(seams_of(n2))
        # starts two grid steps above the end of the first: shares its lowest level(s), none of the seam levels
        H2 = long_interval(H1[-1] + 1.75 * grid, n2)
        series.append((np.array([1361318400.0 + i * step for i in range(n2)]), np.array(H2)))
    # short intervals: down through one seam level and nothing else
    for k in seam_levels:
        for _ in range(rng.choice([0, 1, 1, 2])):
            a = rng.choice([0.375, 0.25])
            H = [k * grid + a * grid, k * grid + 0.125 * grid, k * grid - 0.25 * grid, k * grid - 0.375 * grid]
            t0 = float(rng.choice([0, 1361318400, 86400 * 3]))
            series.append((np.array([t0 + i * step for i in range(len(H))]), np.array(H)))
    # ordinary pieces around the top of the first long interval (above its first seam)
    for _ in range(rng.randrange(2, 5)):
        ln = rng.randrange(4, 10)
        h0 = top + rng.randrange(2, 12) * 0.5
        H = [h0 - 0.75 * i + (rng.randrange(-8, 9) / 64.0 if i else 0.0) for i in range(ln + 1)]
        series.append((np.array([i * step * 6 for i in range(ln + 1)]), np.array(H)))
    order = list(range(len(series)))
    rng.shuffle(order)
    return [series[i] for i in order], grid, 0, [], dict(large='long interval(s) with crossings in the seam segments', coq=False)


def fresh_body_complaint(series, grid, res, out=None):
    """Function level, decided from the samples alone (exact chords, union-find - nothing of spowtd): the intervals
    that received an offset are exactly the main body (the largest set of intervals linked by shared levels), and
    every level that two intervals of the body share is part of the returned mapping."""
    fresh = fresh_mapping(series, grid)
    multi = {h: [(i, t) for i, t in per.items()] for h, per in fresh.items() if len(per) >= 2}
    if not multi:
        return None
    comps = GO.components(multi)
    sizes = [sum(1 for seq in multi.values() if any(i in comp for i, _ in seq)) for comp in comps]
    if sizes.count(max(sizes)) > 1:
        if out is not None:
            out.count('tie-for-largest(fresh; no exact check)')
        return None
    body = comps[sizes.index(max(sizes))]
    if sorted(res[1]) != sorted(body):
        lost = sorted(set(body) - set(res[1]))
        return ('included intervals differ from the main body decided from the samples: %d included, %d in the body; '
                'left out although linked to it by a shared level: %s; included although not linked: %s'
                % (len(res[1]), len(body), [(i, 'samples %d, levels %s' % (len(series[i][1]), sorted(h for h, per in fresh.items() if i in per and len(per) >= 2)[:4]))
                                            for i in lost[:4]], sorted(set(res[1]) - set(body))[:6]))
    want = {h for h, seq in multi.items() if any(i in body for i, _ in seq)}
    if set(res[3]) != want:
        return ('levels of the returned mapping differ from the levels shared within the main body: missing %s, extra %s'
                % (sorted(want - set(res[3]))[:6], sorted(set(res[3]) - want)[:6]))
    return None


DEGENERATE_SHAPES = ['flat', 'flat-on-grid-line', 'two-samples', 'two-samples-within-a-cell', 'touch-from-above',
                     'ends-on-grid-line', 'duplicate', 'flat-tail']


def add_degenerate(rng, series, L, step, grid):
    """Insert 1-3 intervals of degenerate shape among `series` (in place), at levels inside the range of the others:
    flat: the level never changes (a stuck sensor in a dry spell) - crosses nothing, belongs nowhere;
    flat-on-grid-line: the same, exactly on a multiple of the grid step;
    two-samples: a single chord; two-samples-within-a-cell: a single chord that reaches no grid level;
    touch-from-above: comes down to exactly a multiple of the step and goes up again (reaches it, does not pass it);
    ends-on-grid-line: the last sample is exactly on a multiple of the step;
    duplicate: an exact copy of another interval (same samples, another place in the list);
    flat-tail: a piece of the curve whose last samples repeat the same level.
    Returns the shapes used."""
    lo = min(float(H.min()) for _, H in series if H[0] > -400.0)
    hi = max(float(H.max()) for _, H in series)
    used = []
    for _ in range(rng.choice([1, 1, 2, 3])):
        shape = rng.choice(DEGENERATE_SHAPES)
        used.append(shape)
        t0 = float(rng.choice([0, 1361318400, 86400 * 3]))
        n = rng.randrange(2, 7)
        # a level inside the range of the other intervals (on the 1/8 lattice), and the grid line at or below it
        lev = math.floor((lo + (hi - lo) * rng.random()) * 8.0) / 8.0
        line = math.floor(lev / grid) * grid
        if shape == 'flat':
            H = [lev] * (n + 1)
        elif shape == 'flat-on-grid-line':
            H = [line] * (n + 1)
        elif shape == 'two-samples':
            H = [lev, lev - rng.choice([0.25, 1.0, 2.5, 4.0])]
        elif shape == 'two-samples-within-a-cell':
            H = [line + grid * 0.75, line + grid * 0.25]
        elif shape == 'touch-from-above':
            H = [line + 1.25 * grid, line + 0.5 * grid, line, line + 0.25 * grid, line - 1.5 * grid][:rng.choice([4, 5])]
        elif shape == 'ends-on-grid-line':
            H = [line + grid * (0.5 + i) for i in range(n, 0, -1)] + [line]
        elif shape == 'duplicate':
            src = series[rng.randrange(len(series))]
            series.insert(rng.randrange(0, len(series) + 1), (src[0].copy(), src[1].copy()))
            continue
        else:       # flat-tail
            m0 = rng.randrange(0, 40)
            H = [L[m0 + i] for i in range(n + 1)] + [L[m0 + n]] * rng.randrange(1, 4)
        series.insert(rng.randrange(0, len(series) + 1),
                      (np.array([t0 + i * step for i in range(len(H))]), np.array(H, dtype=float)))
    return used


def collection_shapes(series, grid):
    """Degenerate shapes present in a collection, decided from the samples."""
    shapes = set()
    for i, (t, H) in enumerate(series):
        if float(H.min()) == float(H.max()):
            shapes.add('a constant-level interval')
            if any(float(H2[0]) > float(H[0]) for _, H2 in series):
                shapes.add('a constant-level interval below the initial level of another interval')
        elif len(H) == 2:
            shapes.add('a two-sample interval')
        if len(H) > 2 and float(H.min()) != float(H.max()) and any(float(a) == float(b) for a, b in zip(H, H[1:])):
            shapes.add('an interval with a repeated level')
        if any(float(b) < float(a) and float(b) < float(c) and float(b) / grid == math.floor(float(b) / grid)
               for a, b, c in zip(H, H[1:], H[2:])):
            shapes.add('an interval that comes down to a grid line and turns back')
        if any(len(H2) == len(H) and np.array_equal(H2, H) and np.array_equal(t2, t) for t2, H2 in series[:i]):
            shapes.add('two identical intervals')
    return sorted(shapes)


def run_impl(series, grid):
    import spowtd.fit_offsets as fo
    try:
        idx, offs, mapping = fo.get_series_time_offsets([(t.copy(), H.copy()) for t, H in series], grid)
        return ('ok', [int(i) for i in idx], [float(v) for v in offs],
                {int(h): [(int(i), float(t)) for i, t in seq] for h, seq in mapping.items()})
    except Exception as e:  # pylint: disable=broad-except
        return ('err', C.err_of(e), repr(e))


def fresh_mapping(series, grid):
    """What the intervals cross, decided here from the samples alone (nothing of spowtd, no state): for every
    interval and every multiple k of the grid step between two consecutive samples (lower end included, upper
    excluded) the instant at which the chord equals k*step, on the interval's own axis starting at 0; mean per
    (interval, level).  Exact fractions.  Returns {level: {interval: instant}}."""
    import math
    from fractions import Fraction as F
    out = {}
    for i, (t, H) in enumerate(series):
        t = [F(float(v)) - F(float(min(t))) for v in t]
        Y = [F(float(v) / grid) for v in H]
        per = {}
        for a in range(len(Y) - 1):
            lo, hi = min(Y[a], Y[a + 1]), max(Y[a], Y[a + 1])
            for k in range(math.ceil(lo), math.ceil(hi)):
                per.setdefault(k, []).append(t[a] + (k - Y[a]) * (t[a + 1] - t[a]) / (Y[a + 1] - Y[a]))
        for k, l in per.items():
            out.setdefault(k, {})[i] = sum(l) / len(l)
    return out


def mapping_complaint(res, series, grid):
    """The mapping returned by get_series_time_offsets against fresh_mapping: every returned (level, interval)
    is a level that the interval crosses, at that instant; every level kept lists ALL the intervals crossing it."""
    fresh = fresh_mapping(series, grid)
    for h, seq in res[3].items():
        want = fresh.get(h, {})
        got = dict(seq)
        if len(got) != len(seq) or set(got) != set(want):
            return ('level %d (%s mm) is reported as crossed by intervals %s; from the samples it is crossed by %s'
                    % (h, h * grid, sorted(i for i, _ in seq), sorted(want)))
        for i, v in got.items():
            if abs(v - float(want[i])) > 1e-6 * (1 + abs(float(want[i]))):
                return ('interval %d crosses level %d (%s mm) at %r on its own axis; its samples give %r'
                        % (i, h, h * grid, v, float(want[i])))
    return None


def master_of(res):
    _, idx, offs, mapping = res
    pos = {i: k for k, i in enumerate(idx)}
    m = {h: sum(offs[pos[i]] + t for i, t in seq) / len(seq) for h, seq in mapping.items()}
    top = max(m)
    return {h: v - m[top] for h, v in m.items()}


def main_body(series, grid):
    """Independent decision: members of the component with the most levels (None when tied)."""
    import spowtd.fit_offsets as fo
    hm = fo.build_head_mapping([(t - t.min(), H) for t, H in series], grid)
    multi = {h: seq for h, seq in hm.items() if len(seq) >= 2}
    if not multi:
        return set(), hm
    comps = GO.components(multi)
    sizes = []
    for comp in comps:
        sizes.append(sum(1 for h, seq in multi.items() if any(s in comp for s, _ in seq)))
    best = max(sizes)
    if sizes.count(best) > 1:
        return None, hm
    return comps[sizes.index(best)], hm


def check_collections(cols, out, label):
    import spowtd.fit_offsets as fo
    cc_cases, cc_meta, off_cases, off_meta = [], [], [], []
    for col in cols:
        series, grid, planted = col[:3]
        history = list(col[3]) if len(col) > 3 and col[3] else []
        opts = col[4] if len(col) > 4 and col[4] else {}
        large = opts.get('large')
        out.evaluations += 1
        out.count('planted-disconnected' if planted else 'connected-only')
        if not large:
            for shape in collection_shapes(series, grid):
                out.count('collection holds ' + shape)
        case = dict(level='FL', grid=grid, series=[[t.tolist(), H.tolist()] for t, H in series])
        if opts:
            case['opts'] = opts
        if history:
            # the same intervals have been aligned before in this process, on other grid steps: the earlier calls
            # must not leave anything behind (their own results are checked against the samples too)
            case['history'] = history
            out.count('history: aligned before on another grid step')
            for g0 in history:
                r0 = run_impl(series, g0)
                bad0 = mapping_complaint(r0, series, g0) if r0[0] == 'ok' else None
                if bad0:
                    out.violation('oracle', 'on grid step %s: %s' % (g0, bad0), case=dict(case, grid=g0, history=[]))
        base = run_impl(series, grid)
        if base[0] == 'ok':
            bad0 = mapping_complaint(base, series, grid)
            if bad0:
                out.violation('oracle', '%s%s' % ('after an earlier alignment of the same intervals on grid step(s) %s, on grid '
                                                  'step %s: ' % (history, grid) if history else '', bad0), case=case)
        if large:
            count_large(series, grid, base, large, out)
        body, hm_raw = main_body(series, grid)
        if base[0] == 'ok':
            # main body decided from the samples alone (every collection); large ones: the alignment against one computed
            # with ANOTHER internal zero
            bad1 = fresh_body_complaint(series, grid, base, out)
            if bad1:
                out.violation('oracle', bad1, case=case)
            elif large and len(base[1]) >= 2:
                rows = [(i, h, t) for h, seq in base[3].items() for i, t in seq]
                want_m, got_m = independent_master_projected(list(reversed(rows))), master_of(base)
                worst = max(want_m, key=lambda h: abs(want_m[h] - got_m[h]))
                if abs(want_m[worst] - got_m[worst]) > 1e-6 * (1 + max(abs(v) for v in want_m.values())):
                    out.violation('oracle', 'the master curve depends on the internal zero: at level %d the returned offsets give '
                                  '%r, the same crossings aligned with another interval as internal zero give %r (%d intervals, '
                                  '%d crossings; origin at the highest level)' % (worst, got_m[worst], want_m[worst], len(base[1]),
                                                                                 len(rows)), case=case)
        if base[0] == 'err':
            if body is not None and len(body) >= 2:
                out.violation('oracle', 'get_series_time_offsets raised %s although %d intervals overlap' % (base[2], len(body)), case=case)
            continue
        if body is None:
            out.count('tie-for-largest(no-exact-check)')
        else:
            # intervals whose levels are all crossed by a single interval carry no information and are dropped
            multi = {h: seq for h, seq in hm_raw.items() if len(seq) >= 2}
            informative = {s for seq in multi.values() for s, _ in seq}
            want = sorted(body & informative)
            if sorted(base[1]) != want:
                out.violation('oracle', 'included intervals %s differ from the main body %s (all intervals linked to it '
                              'by shared levels, none outside)' % (sorted(base[1]), want), case=case)
        m0 = master_of(base)
        n = len(series)
        rng = C.rng_for(out.evaluations, PROP, 'variants')
        perm = list(range(n))
        rng.shuffle(perm)
        variants = {
            'permuted': ([series[i] for i in perm], perm),
            'axis-shifted': ([(t + float(rng.randrange(-10**6, 10**9)), H) for t, H in series], list(range(n))),
            'reversed': (list(reversed(series)), list(reversed(range(n)))),
        }
        for name, (ser2, back) in variants.items():
            r2 = run_impl(ser2, grid)
            if r2[0] == 'err':
                out.violation('oracle', '%s presentation raises %s, the original does not' % (name, r2[2]), case=case)
                continue
            if body is None:
                continue
            if sorted(back[i] for i in r2[1]) != sorted(base[1]):
                out.violation('oracle', '%s presentation includes intervals %s, the original %s'
                              % (name, sorted(back[i] for i in r2[1]), sorted(base[1])), case=case)
                continue
            m2 = master_of(r2)
            tol = 1e-6 * (1 + max(abs(v) for v in m0.values()))
            if set(m2) != set(m0) or any(abs(m2[h] - m0[h]) > tol for h in m0):
                worst = max(abs(m2[h] - m0[h]) for h in set(m0) & set(m2)) if set(m0) & set(m2) else float('nan')
                out.violation('oracle', 'master curve changes under the %s presentation (max difference %.3g, levels %d vs %d)'
                              % (name, worst, len(m0), len(m2)), case=case)
        if planted and body is not None and len(base[1]) >= 3:
            out.nontriv(('c08', str(case['series'])[:400]))
        if large and body is not None and len(base[1]) >= 3:
            out.nontriv(('c08-large', large, len(series), sum(len(H) for _, H in series)))
        if opts.get('coq') is False:
            continue                    # large cases: the oracles above judge them; reading them into Coq would dominate the run
        # --- Coq correspondence
        dec = sorted(((t - t.min(), H, i) for i, (t, H) in enumerate(series)), key=lambda x: x[1][0])
        hm = fo.build_head_mapping([(t, H) for t, H, _ in dec], grid)
        imap = {k: orig for k, (_, _, orig) in enumerate(dec)}
        sah = {h: set(s for s, _ in seq) for h, seq in hm.items() if len(seq) > 1}
        comps = fo.get_connected_components(sah)
        cc_cases.append('(%s, %s)' % (
            C.clist(['(%s, %s)' % (C.cZ(h), C.cnats([s for s, _ in seq])) for h, seq in hm.items() if len(seq) > 1]),
            C.clist([C.cZs(list(k)) for k in comps])))
        cc_meta.append(case)
        inv = {orig: k for k, orig in imap.items()}
        ids_sorted = sorted(inv[i] for i in base[1])
        offs_by_sid = {inv[i]: v for i, v in zip(base[1], base[2])}
        tol = 1e-9 * P5.scale_of(hm)
        off_cases.append('(%s, %s, %s, %s, %s)' % (
            P5.hm_lit(hm), C.cQ(tol), C.clist([C.cnat(s) + '%nat' for s in ids_sorted]),
            C.cQs([offs_by_sid[s] for s in ids_sorted]), C.cZs(sorted(base[3]))))
        off_meta.append(case)
    bad, errs, _ = C.run_case_shards(
        PROP, label + '_cc', PRE, 'list (Z * list nat) * list (list Z)',
        'fun c => list_eqb (list_eqb Z.eqb) (components (fst c)) (snd c)', cc_cases, shard=200)
    out.corr_errors += errs
    for i in bad:
        out.violation('corr', 'model components <> get_connected_components', case=cc_meta[i])
    bad, errs, _ = C.run_case_shards(
        PROP, label + '_offs', PRE, 'head_mapping * Q * list nat * list Q * list Z',
        'fun c => match c with (hm, tol, iids, ioffs, iheads) => match offsets_from_mapping hm with '
        '| Ok (ids, offs, heads) => list_eqb Nat.eqb ids iids && close_enough tol offs ioffs '
        '&& list_eqb Z.eqb (sort_by (fun z => z) heads) iheads | Err _ => false end end', off_cases, shard=100)
    out.corr_errors += errs
    for i in bad:
        out.violation('corr', 'model offsets_from_mapping <> get_series_time_offsets (ids / offsets / levels)', case=off_meta[i])


def count_large(series, grid, base, large, out):
    """What a large collection exercised (measured on the case, for the evidence)."""
    out.count('large: ' + large)
    longest = max(len(H) for _, H in series)
    out.count('large: longest interval %s samples' % ('> 8192' if longest > 8192 else '4097-8192' if longest > 4096 else '1025-4096' if longest > 1024 else '<= 1024'))
    if base[0] != 'ok':
        return
    neq = sum(len(seq) for seq in base[3].values())
    out.count('large: %s (level, interval) equations' % ('> 8192' if neq > 8192 else '4097-8192' if neq > 4096 else '<= 4096'))
    if neq > 4096 and all(neq % b for b in GO.BLOCKS):
        out.count('large: > 4096 equations, no multiple of 1000/1024/4096/8192/10000')
    firsts = sorted((float(H[0]) for _, H in series), reverse=True)
    if firsts.count(firsts[0]) >= 3:
        out.count('large: >= 3 intervals start from the same highest level')
    pos = {i: k for k, i in enumerate(base[1])}
    n_seam = 0
    for i, (t, H) in enumerate(series):
        if len(H) > 1000 and i in pos:
            Y = [float(v) / grid for v in H]
            n_seam += sum(1 for b in seams_of(len(H)) if math.ceil(Y[b]) < math.ceil(Y[b - 1]))
    if n_seam:
        out.count('large: grid levels crossed inside a seam segment (samples b-1, b; b multiple of 500 or 512)', n_seam)


def gen_sah(rng):
    """Arbitrary dict level -> set of series, any insertion order: the domain of the Coq theorems about
    get_connected_components (levels that bridge several earlier groups, empty sets, isolated levels)."""
    nl = rng.randrange(0, 13)
    ncl = rng.randrange(1, 4)
    clusters = [list(range(4 * c, 4 * c + rng.randrange(1, 5))) for c in range(ncl)]
    sah = {}
    for h in rng.sample(range(-30, 30), nl):
        r = rng.random()
        if r < 0.05:
            sah[h] = set()
        elif r < 0.2 and ncl > 1:       # a level bridging two clusters (merges earlier groups)
            a, b = rng.sample(clusters, 2)
            sah[h] = {rng.choice(a), rng.choice(b)}
        else:
            cl = rng.choice(clusters)
            sah[h] = set(rng.sample(cl, min(len(cl), rng.choice([1, 2, 2, 3]))))
    return sah


def level_classes(sah):
    """Independent decision: classes of levels under 'linked by a chain of levels sharing a series' (graph search)."""
    left, classes = list(sah), []
    while left:
        todo, cls = [left.pop(0)], set()
        while todo:
            h = todo.pop()
            cls.add(h)
            for h2 in list(left):
                if sah[h] & sah[h2]:
                    left.remove(h2)
                    todo.append(h2)
        classes.append(frozenset(cls))
    return set(classes)


def check_sah_direct(sahs, out, label):
    """get_connected_components on arbitrary dicts: oracle (reachability classes, longest first) + model."""
    import spowtd.fit_offsets as fo
    cases, meta = [], []
    for sah in sahs:
        out.evaluations += 1
        case = dict(level='CC', sah=[[int(h), sorted(int(s) for s in ss)] for h, ss in sah.items()])
        try:
            comps = fo.get_connected_components(dict((h, set(ss)) for h, ss in sah.items()))
        except Exception as e:  # pylint: disable=broad-except
            out.violation('oracle', 'get_connected_components raised %r' % (e,), case=case)
            continue
        got = [frozenset(cc) for cc in comps]
        want = level_classes(sah)
        multi = sum(1 for c in want if len(c) > 1)
        out.count('direct-sah:%s' % ('>=2 multi-level classes' if multi >= 2 else '1 multi-level class' if multi else 'singletons'))
        if set(got) != want or len(got) != len(want) or any(len(set(cc)) != len(cc) for cc in comps):
            out.violation('oracle', 'components %s are not the reachability classes %s of the levels'
                          % ([tuple(cc) for cc in comps], sorted(sorted(c) for c in want)), case=case)
        elif any(len(a) < len(b) for a, b in zip(comps, comps[1:])):
            out.violation('oracle', 'components %s are not sorted longest first' % ([tuple(cc) for cc in comps],), case=case)
        if multi >= 2 and len(sah) >= 5:
            out.nontriv(('c08cc', str(case['sah'])))
        cases.append('(%s, %s)' % (
            C.clist(['(%s, %s)' % (C.cZ(h), C.cnats(ss)) for h, ss in case['sah']]),
            C.clist([C.cZs(list(k)) for k in comps])))
        meta.append(case)
    bad, errs, _ = C.run_case_shards(
        PROP, label + '_ccdirect', PRE, 'list (Z * list nat) * list (list Z)',
        'fun c => list_eqb (list_eqb Z.eqb) (components (fst c)) (snd c)', cases, shard=400)
    out.corr_errors += errs
    for i in bad:
        out.violation('corr', 'model components <> get_connected_components (arbitrary dict)', case=meta[i])


# ------------------------------------------------------------- command level: another internal zero

def independent_master(rows):
    """rows: (interval, level, crossing).  Least-squares offsets with the FIRST interval as internal zero
    (the code fixes the last one of its own ordering), master curve = level means of (offset + crossing),
    origin at the highest level.  numpy lstsq on the full design matrix, nothing shared with spowtd."""
    ivs = sorted({r[0] for r in rows})
    levels = sorted({r[1] for r in rows})
    ii = {s: i for i, s in enumerate(ivs)}
    li = {h: i for i, h in enumerate(levels)}
    # unknowns: offsets x_s (s != first) and level means m_h ; equations x_s + c - m_h = 0
    n_x = len(ivs) - 1
    A = np.zeros((len(rows), n_x + len(levels)))
    b = np.zeros(len(rows))
    for r, (s, h, c) in enumerate(rows):
        if ii[s] > 0:
            A[r, ii[s] - 1] = 1.0
        A[r, n_x + li[h]] = -1.0
        b[r] = -c
    sol = np.linalg.lstsq(A, b, rcond=None)[0]
    m = sol[n_x:]
    return {h: float(m[li[h]] - m[li[levels[-1]]]) for h in levels}


def independent_master_projected(rows):
    """The same as independent_master for LARGE problems (thousands of levels): the level means are eliminated by hand -
    per level the projector I - J/n on the intervals crossing it (gen_offsets.normal_system; the SMALLEST interval
    number is the internal zero, the code fixes the largest of its own ordering), a small square solve, then the
    master curve = level means of (offset + crossing) with the origin at the highest level."""
    hm = {}
    for s_, h, c in rows:
        hm.setdefault(h, []).append((s_, c))
    y = GO.independent_offsets(hm)
    m = {h: math.fsum(y[s_] + c for s_, c in seq) / len(seq) for h, seq in hm.items()}
    top = max(m)
    return {h: v - m[top] for h, v in m.items()}


def command_series(res, kind):
    """The intervals `rise` / `recession` work on, rebuilt from the tables of classify and the loaded data:
    rise -> (0, total rain of the storm) x (level at the start, level at the end of the matched rise);
    recession -> the samples of every interstorm interval.  Returns (start epochs, series)."""
    wl = res['water_level']
    starts, series = [], []
    if kind == 'rise':
        storm_thru = dict(res['storm'])
        thru_of = {a: b for a, t, b in res['zeta_interval'] if t == 'storm'}
        for istart, sstart in sorted(res['zeta_interval_storm']):
            depth = math.fsum(i * (b - a) / 3600.0 for a, b, i in res['rainfall'] if a >= sstart and b <= storm_thru[sstart])
            starts.append(istart)
            series.append((np.array([0.0, depth]), np.array([wl[istart], wl[thru_of[istart]]])))
    else:
        epochs = sorted(wl)
        for a, t, b in res['zeta_interval']:
            if t == 'interstorm':
                ep = [e for e in epochs if a <= e <= b]
                starts.append(a)
                series.append((np.array(ep, dtype=float), np.array([wl[e] for e in ep])))
    return starts, series


def command_body_complaints(res, kind, rows, offs, out):
    """Command level, decided from the samples alone (exact chords, union-find): the intervals that received an
    offset are exactly the main body (the largest set of intervals linked by shared levels), every stored crossing
    belongs to the interval it is stored for, and every level kept lists all the intervals crossing it."""
    g = res['grid'][0][0]
    starts, series = command_series(res, kind)
    if not series:
        return []
    idx = {s: i for i, s in enumerate(starts)}
    stray = sorted({r[0] for r in rows if r[0] not in idx} | {s for s in offs if s not in idx})
    if stray:
        return ['%s: rows are stored for start epoch(s) %s, which start no %s interval'
                % (kind, stray[:4], 'matched rise' if kind == 'rise' else 'interstorm')]
    mapping = {}
    for s, zn, v in rows:
        mapping.setdefault(zn, []).append((idx[s], v))
    bad = mapping_complaint((None, None, None, mapping), series, g)
    if bad:
        return ['%s tables: %s (intervals numbered in order of start: %s)' % (kind, bad, starts)]
    fresh = fresh_mapping(series, g)
    multi = {h: [(i, t) for i, t in per.items()] for h, per in fresh.items() if len(per) >= 2}
    if not multi:
        return []
    comps = GO.components(multi)
    sizes = [sum(1 for seq in multi.values() if any(i in comp for i, _ in seq)) for comp in comps]
    left_out = len(series) - len(comps[sizes.index(max(sizes))])
    out.count('CL:%s:intervals outside the main body=%d' % (kind, min(left_out, 3)))
    if sizes.count(max(sizes)) > 1:
        out.count('CL:%s:tie for the largest body (no exact check)' % kind)
        return []
    body = sorted(starts[i] for i in comps[sizes.index(max(sizes))])
    if sorted(offs) != body:
        return ['%s: the intervals given an offset %s are not the main body %s (largest set of intervals linked by shared '
                'levels; %d interval(s) in all)' % (kind, sorted(offs), body, len(series))]
    return []


def check_command_level(plans, out, label):
    """`rise` / `recession` through the CLI: the stored master curve must be the one obtained from the stored
    crossings with a different internal zero and presentation order, origin at its highest level."""
    from harness import curves_common as CC
    view_items = []
    for plan in plans:
        res = CC.build_from_plan(PROP, plan, name='cl_' + label)
        out.evaluations += 1
        out.count('CL:%s' % res['status'])
        if res['status'] != 'ok':
            continue
        # the same views against Model/Views.v evaluated inside Coq (C08_line_segments_only_main_body is about that model)
        view_items.append((CC.dump_views(res['db']), dict(level='CL', plan=plan, kind='views')))
        gstep = plan['grid_step']
        if plan.get('far_group'):
            out.count('CL:%d storm(s) planted far below the main body' % plan['far_group'])
        # per-interval views that plotting reads: only intervals of the main body, with their own offsets
        for msg in CC.line_segment_complaints(res) + CC.view_table_complaints(res):
            out.violation('oracle', msg, case=dict(level='CL', plan=plan, kind='views'))
        unknown = [v for v in res['views'] if v not in CC.KNOWN_VIEWS]
        if unknown:
            out.count('CL:views not known to the harness: %s' % unknown)
        for kind, rows_key, offs_key, view_key in (('rise', 'rising_interval_zeta', 'rising_interval', 'avg_rise'),
                                                   ('recession', 'recession_interval_zeta', 'recession_interval',
                                                    'avg_recession')):
            rows = [tuple(r) for r in res[rows_key]]
            for msg in command_body_complaints(res, kind, rows, res[offs_key], out):
                out.violation('oracle', msg, case=dict(level='CL', plan=plan, kind=kind))
            if len({r[0] for r in rows}) < 2:
                out.count('CL:%s:<2 intervals' % kind)
                continue
            want = independent_master(list(reversed(rows)))
            got = {int(round(z / gstep)): v for z, v in res[view_key]}
            scale = 1 + max(abs(v) for v in want.values())
            case = dict(level='CL', plan=plan, kind=kind)
            if sorted(got) != sorted(want):
                out.violation('oracle', '%s master curve has levels %s, the stored crossings have %s'
                              % (kind, sorted(got), sorted(want)), case=case)
                continue
            worst = max(want, key=lambda h: abs(want[h] - got[h]))
            if abs(want[worst] - got[worst]) > 1e-6 * scale:
                out.violation('oracle', '%s master curve depends on the internal zero: stored curve is %r at level %d, '
                              'the same crossings aligned with another interval as internal zero (origin at the highest '
                              'level) give %r' % (kind, got[worst], worst, want[worst]), case=case)
            n_at_top = len([r for r in rows if r[1] == max(want)])
            if len({r[0] for r in rows}) >= 3:
                out.nontriv(('cl', kind, len(rows), n_at_top))
            out.count('CL:%s:intervals at top level=%d' % (kind, min(n_at_top, 4)))
    CC.check_views_coq(PROP, label + '_views', view_items, out)


def run(ctx, out):
    C.import_spowtd()
    seed, tier = ctx['seed'], ctx['tier']
    rng = C.rng_for(seed, PROP)
    n = 150 if tier == 'quick' else 1500
    cols = [gen_collection(rng) for _ in range(n)]
    # a third of the collections have a history: the same intervals were aligned on another grid step first
    rngh = C.rng_for(seed, PROP, 'history')
    for k in range(0, n, 3):
        series, grid, planted = cols[k]
        cols[k] = (series, grid, planted, [rngh.choice([g for g in (0.5, 1.0, 2.0, 2.5) if g != grid])])
    # plus collections holding intervals of degenerate shape (constant level, two samples, coming down to a grid line
    # and turning back, ending on a grid line, exact duplicates, repeated last level); own random stream
    rngd = C.rng_for(seed, PROP, 'degenerate')
    cols += [gen_collection(rngd, tie=(k % 4 == 3), degenerate=True) for k in range(n // 3)]
    # large-input stage (oracle only, own random streams): many noisy intervals (> 4096 equations, ties of the initial
    # level) and long intervals (1500-5000 samples) with crossings in the seam segments + short intervals hanging there
    for k in range(1 if tier == 'quick' else 5):
        cols.append(gen_many_collection(C.rng_for(seed, PROP, 'many', k)) if k < 2 else
                    gen_many_collection(C.rng_for(seed, PROP, 'many', k), min_eq=[8200, 10001, 12300][k - 2], max_eq=[9999, 12200, 16000][k - 2]))
    for k in range(2 if tier == 'quick' else 10):
        cols.append(gen_long_collection(C.rng_for(seed, PROP, 'long', k), n_max=5000 if k < 6 else 11000))
    for k in range(1 if tier == 'quick' else 4):
        cols.append(gen_steep_collection(C.rng_for(seed, PROP, 'steep', k), n_max=5000 if k < 2 else 11000))
    check_collections(cols, out, 'fl')
    rng2 = C.rng_for(seed, PROP, 'sah')
    check_sah_direct([gen_sah(rng2) for _ in range(400 if tier == 'quick' else 4000)], out, 'cc')
    from harness import curves_common as CC
    plans = []
    for k in range(10 if tier == 'quick' else 100):
        rng3 = C.rng_for(seed, PROP, 'cl', k)
        plans.append(CC.make_plan(rng3, n_events=rng3.randrange(3, 8), noise=(k % 2 == 0)))
    # plus records in which 1-2 late storms happen far below every other rise (left out of the rise main body)
    for k in range(4 if tier == 'quick' else 40):
        rng4 = C.rng_for(seed, PROP, 'cl-far', k)
        plans.append(CC.make_plan(rng4, n_events=rng4.randrange(3, 8), noise=(k % 2 == 0), far_group=True,
                                  top_cell=(k % 4 == 3)))
    check_command_level(plans, out, 'cl')
    out.rule = ('Interval collections (2-7 pieces of one decreasing curve, some noisy, half with a planted disconnected '
                'group) x {as is, permuted, per-interval axis shifts, reversed} through get_series_time_offsets; a third of them '
                'after the same intervals were aligned on another grid step in the same process; the returned crossings '
                'against the samples (exact chords); a quarter more collections hold intervals of degenerate shape '
                '(constant level, two samples, coming down to a grid line and turning back, ending on a grid line, exact '
                'duplicates, repeated last level). Large-input stage (oracle only, not sent to Coq): 45-160 noisy intervals with '
                '5000-9000 (level, interval) equations, a third of them starting from the same level; one or two intervals of '
                '1500-5000 samples with a grid level crossed in every segment between samples b-1 and b (b multiple of 500 or 512) '
                'and short intervals crossing only such a level; two intervals of 1500-5000 samples so steep that every pair of '
                'samples passes a grid level; judged by the main body decided from the samples (exact '
                'chords, union-find), the crossings against exact chords, the four presentations, and an independent alignment '
                'with another internal zero. CL: planted records (some with 1-2 storms far below the others) through '
                'the CLI: aligned intervals = main body decided from the samples, stored crossings against exact chords, the '
                'view rising_curve_line_segment and the master-curve views against the tables. '
                'Non-trivial: planted disconnected group, unique largest component, >= 3 intervals included. '
                'Plus arbitrary level->series dicts (0-12 levels, series in 1-3 clusters with occasional bridging levels, any insertion order) through '
                'get_connected_components: reachability-class oracle and model; non-trivial: >= 5 levels, >= 2 classes '
                'of more than one level.')
    out.samples = [dict(grid=cols[0][1], series=[[t.tolist(), H.tolist()] for t, H in cols[0][0]][:3])]
    out.assumptions += ['the main body is decided from the implementation\'s build_head_mapping; the crossings actually returned are compared with exact chords of the samples (1e-6 relative)',
                        'the sort by initial level is replicated in the harness',
                        'component search correctness is proved for Model/Components.v (Proofs/ComponentsSpec.v); that the model equals the Python is sampled (correspondence) and cross-checked by the union-find oracle']


def replay(case, out):
    C.import_spowtd()
    if case.get('level') == 'CL':
        check_command_level([case['plan']], out, 'replay')
        return
    if case.get('level') == 'CC':
        check_sah_direct([dict((h, set(ss)) for h, ss in case['sah'])], out, 'replay')
        return
    series = [(np.array(t), np.array(H)) for t, H in case['series']]
    check_collections([(series, case['grid'], 0, case.get('history') or [], case.get('opts') or {})], out, 'replay')
