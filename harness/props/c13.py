"""C13 — every master-curve row traces back to a classified interval and its data;
levels belong to the grid; the grid covers the observed range.

Correspondence:
 (CL) synthetic datasets through the real CLI (load, classify, set-zeta-grid,
      rise, recession); the tables discrete_zeta, rising_interval(_zeta),
      recession_interval(_zeta) against Model/ZetaGrid.v and Model/Curves.v
      evaluated inside Coq on the tables the commands read (row sets identical,
      crossing values within the C12 tolerance, error kinds identical);
      a share of the cases has its classification tables tampered with by SQL
      (foreign keys are not enforced in these commands) to exercise the joins and
      the refusals;
 (CL-views) on every dataset of (CL), after `rise` and `recession`: the views average_rising_depth,
      average_recession_time (rows in the order SQLite returns them) and rising_curve_line_segment against
      Model/Views.v evaluated inside Coq on the dumped tables, and the conclusion of
      C13_view_shows_every_stored_level (the view lists every level crossed by an aligned interval)
      evaluated on the real view (curves_common.check_views_coq);
 (FL) zeta_grid.populate_zeta_grid on an in-memory database against
      Model/ZetaGrid.v (bounds on a level, one ulp beside it, steps .1 .3 ...).
Oracle: every stored row recomputed from the interval's own data with
fractions.Fraction, straight from the property's wording.
History stage (oracle only): for a share of the untampered datasets the commands
`set-zeta-grid -d <another step>`, `rise`, `recession` are issued again on the same
database (the unchanged tree refuses all three and changes nothing); the oracle is
evaluated on the tables as they stand after every command that changed them, and
at the end: rows must trace back to their interval's data at the grid step NOW
stored, and their levels must belong to discrete_zeta as it is NOW.
Large records (oracle only, rec['oracle_only']; not sent to Coq): an interstorm interval of > 4096 ten-minute samples
whose every pair of samples crosses a grid level (crossings in the pairs straddling samples 1000 / 1024 / 2048 / 4096),
grids of > 10000 levels through the command line (fine step; a record spanning > 10 m) and through
populate_zeta_grid (up to 65800 levels; steps coarser than the range); 1 s / 2 s logging at epochs 1.6e9 .. 4e9
(these small ones go through Coq as well).
"""
import math
import os
import sqlite3
from fractions import Fraction as F

from harness import common as C
from harness import curves_common as K
from harness import dataset as D
from harness import gen_classify as GC
from harness import gen_regrid as G
from harness.props import c12

PROP = 'C13'
MODELS = ['Model/Curves.vo', 'Model/ZetaGrid.vo', 'Model/RegridFloat.vo', 'Model/Views.vo', 'Model/ViewsCase.vo']
PRE = 'From Spowtd Require Import Model.Curves.\nOpen Scope Q_scope.\n'


# ------------------------------------------------------------- reading tables

IN_TABLES = ['water_level', 'storm', 'zeta_interval', 'zeta_interval_storm', 'rainfall_intensity',
             'zeta_grid', 'discrete_zeta']


def read_inputs(db):
    con = sqlite3.connect(db)
    try:
        t = dict(
            wl=con.execute('SELECT epoch, zeta_mm FROM water_level ORDER BY epoch').fetchall(),
            storm=con.execute('SELECT start_epoch, thru_epoch FROM storm ORDER BY start_epoch').fetchall(),
            zi=con.execute('SELECT start_epoch, thru_epoch, interval_type FROM zeta_interval '
                           'ORDER BY start_epoch').fetchall(),
            zis=con.execute('SELECT interval_start_epoch, storm_start_epoch FROM zeta_interval_storm '
                            'ORDER BY interval_start_epoch').fetchall(),
            rain=con.execute('SELECT from_epoch, thru_epoch, rainfall_intensity_mm_h FROM rainfall_intensity '
                             'ORDER BY from_epoch').fetchall(),
            grid=[r[0] for r in con.execute('SELECT grid_interval_mm FROM zeta_grid')],
            dz=[r[0] for r in con.execute('SELECT zeta_number FROM discrete_zeta ORDER BY zeta_number')])
    finally:
        con.close()
    return t


def read_curve(db, kind):
    con = sqlite3.connect(db)
    try:
        if kind == 'rise':
            iv = [r[0] for r in con.execute('SELECT start_epoch FROM rising_interval ORDER BY start_epoch')]
            rows = con.execute('SELECT start_epoch, zeta_number, mean_crossing_depth_mm '
                               'FROM rising_interval_zeta ORDER BY start_epoch, zeta_number').fetchall()
            view = con.execute('SELECT interval_start_epoch, rain_total_depth_mm, initial_zeta_mm, '
                               'final_zeta_mm FROM rising_curve_line_segment').fetchall()
        else:
            iv = [r[0] for r in con.execute('SELECT start_epoch FROM recession_interval ORDER BY start_epoch')]
            rows = con.execute('SELECT start_epoch, zeta_number, mean_crossing_time '
                               'FROM recession_interval_zeta ORDER BY start_epoch, zeta_number').fetchall()
            view = []
    finally:
        con.close()
    return iv, rows, view


# ------------------------------------------------------------- oracle (property wording)

def own_series(t, kind, start):
    """The data the property attributes to the interval starting at `start`:
    (x, y) or None if the interval is not a classified interval of the right kind."""
    wl = dict(t['wl'])
    zi = {s: (th, ty) for s, th, ty in t['zi']}
    if kind == 'rise':
        pair = [st for iv, st in t['zis'] if iv == start]
        storms = dict(t['storm'])
        if len(pair) != 1 or start not in zi or pair[0] not in storms:
            return None
        s0, s1 = pair[0], storms[pair[0]]
        rows = [(a, b, r) for a, b, r in t['rain'] if a >= s0 and b <= s1]
        depth = sum((F(r) * (b - a) / 3600 for a, b, r in rows), F(0))
        thru = zi[start][0]
        if start not in wl or thru not in wl:
            return None
        return [F(0), depth], [wl[start], wl[thru]], zi[start][1]
    if start not in zi:
        return None
    thru = zi[start][0]
    sel = [(e, z) for e, z in t['wl'] if start <= e <= thru]
    return [F(e - start) for e, _ in sel], [z for _, z in sel], zi[start][1]


def expected_means(x, y, step):
    """level -> (mean crossing position, tolerance), by brute force over every
    integer level and every pair of consecutive samples."""
    Y = [v / step for v in y]
    per = {}
    for i, e in enumerate(c12.expected_by_pair(x, Y)):
        for k, xs in e.items():
            per.setdefault(k, []).append((xs, c12.tolerance(x[i], x[i + 1], Y[i], Y[i + 1], xs)))
    out = {}
    for k, l in per.items():
        mean = sum(v for v, _ in l) / len(l)
        tol = (max(tl for _, tl in l) + (len(l) + 2) * F(23, 10 ** 17) * max(abs(v) for v, _ in l)
               + F(1, 10 ** 12) * abs(mean))
        out[k] = (mean, tol)
    return out


def candidates(t, kind):
    """Start epochs of the classified intervals of the right kind."""
    if kind == 'rise':
        return [iv for iv, _ in t['zis']]
    return [s for s, _, ty in t['zi'] if ty == 'interstorm']


def crossed_levels(t, kind, start):
    s = own_series(t, kind, start)
    if s is None or not t['grid']:
        return {}
    return expected_means(s[0], s[1], t['grid'][0])


def oracle_curve(t, kind, iv, rows, view):
    """Complaints about the tables one command wrote (empty = property holds)."""
    bad = []
    step = t['grid'][0]
    want_type = 'storm' if kind == 'rise' else 'interstorm'
    cache = {}
    in_grid = set(t['dz'])
    for start, k, m in rows:
        if start not in cache:
            s = own_series(t, kind, start)
            cache[start] = None if s is None else (s, expected_means(s[0], s[1], step))
        if cache[start] is None:
            bad.append('%s row for start_epoch %s: no classified interval of the right kind starts there'
                       % (kind, start))
            continue
        (x, y, ty), exp = cache[start]
        if ty != want_type:
            bad.append('%s row for start_epoch %s: the interval is of type %s' % (kind, start, ty))
        if k not in exp:
            bad.append('%s row (%s, level %s): the interval\'s own series %s does not cross that level'
                       % (kind, start, k, [float(v) for v in y][:8]))
            continue
        mean, tol = exp[k]
        if abs(F(m) - mean) > tol:
            bad.append('%s row (%s, level %s): stored %r, mean crossing of the interval\'s own data %r%s'
                       % (kind, start, k, m, float(mean),
                          '' if kind != 'rise' else ' [the segment from depth 0 at its initial level %r to its storm\'s '
                          'total rain depth %r mm (summed over the storm\'s rainfall_intensity rows) at its final '
                          'level %r]' % (y[0], float(x[1]), y[1])))
        if k not in in_grid:
            bad.append('%s row (%s, level %s): level is not in discrete_zeta' % (kind, start, k))
    if len({(s, k) for s, k, _ in rows}) != len(rows):
        bad.append('%s: duplicated (start_epoch, level)' % kind)
    if sorted(set(iv)) != sorted({s for s, _, _ in rows}) or len(set(iv)) != len(iv):
        bad.append('%s: intervals with an offset %s differ from intervals with crossings %s'
                   % (kind, sorted(set(iv)), sorted({s for s, _, _ in rows})))
    for start, depth, z0, z1 in view:
        s = own_series(t, 'rise', start)
        if s is None:
            bad.append('rising_curve_line_segment lists %s, not a matched rise' % start)
            continue
        if z0 != s[1][0] or z1 != s[1][1] or abs(F(depth) - s[0][1]) > F(1, 10 ** 12) * abs(s[0][1]):
            bad.append('rising_curve_line_segment for %s: (%r, %r, %r) but the interval\'s data give (%r, %r, %r)'
                       % (start, depth, z0, z1, float(s[0][1]), s[1][0], s[1][1]))
    return bad


def oracle_grid(zetas, step, dz):
    """Grid is a contiguous range; every observed level z lies in the hull
    [g_min * step, (g_max + 1) * step] in scaled units; every integer level k with
    min/step <= k < max/step is in the grid."""
    bad = []
    if dz != list(range(dz[0], dz[0] + len(dz))) if dz else False:
        bad.append('discrete_zeta is not a contiguous range: %s' % dz[:10])
    Y = [F(z / step) for z in zetas]
    lo, hi = min(Y), max(Y)
    in_grid = set(dz)
    missing = 0
    for k in range(math.floor(lo) - 1, math.ceil(hi) + 2):
        if lo <= k < hi and k not in in_grid:
            missing += 1
            if missing > 3:
                continue
            bad.append('level %d lies within the observed range [%r, %r) but is not in the grid' %
                       (k, float(lo), float(hi)))
    if missing > 3:
        bad.append('%d levels within the observed range are not in the grid (%d levels stored)' % (missing, len(dz)))
    if dz:
        if not (dz[0] <= lo and hi <= dz[-1] + 1):
            bad.append('observed range [%r, %r] (scaled) not covered by grid cells %d..%d'
                       % (float(lo), float(hi), dz[0], dz[-1] + 1))
        if dz[0] < math.floor(lo) or dz[-1] + 1 > math.ceil(hi):
            bad.append('grid %d..%d extends beyond the observed range [%r, %r]' % (dz[0], dz[-1], float(lo), float(hi)))
    elif lo != hi or lo != math.floor(lo):
        bad.append('empty grid although the observed range [%r, %r] is not a single grid level'
                   % (float(lo), float(hi)))
    return bad


# ------------------------------------------------------------- Coq literals

def ctables(t):
    zi = C.clist(['(%s, %s, %s)' % (C.cZ(s), C.cZ(th), C.cbool(ty == 'storm')) for s, th, ty in t['zi']])
    return ('(mk_tables %s %s %s %s %s %s)' % (
        C.clist([C.cpair(C.cZ(e), C.cfloat(z)) for e, z in t['wl']]),
        C.clist([C.cpair(C.cZ(a), C.cZ(b)) for a, b in t['storm']]),
        zi,
        C.clist([C.cpair(C.cZ(a), C.cZ(b)) for a, b in t['zis']]),
        C.clist(['(%s, %s, %s)' % (C.cZ(a), C.cZ(b), C.cfloat(r)) for a, b, r in t['rain']]),
        C.copt(t['grid'][0] if t['grid'] else None, C.cfloat)))


def ccurve(res):
    if res[0] == 'err':
        return '(Err %s)' % res[1]
    iv, rows = res[1], res[2]
    return '(Ok (%s, %s))' % (C.cZs(iv), C.clist(['(%s, %s, %s)' % (C.cZ(s), C.cZ(k), C.cfloat(m))
                                                    for s, k, m in rows]))


# ------------------------------------------------------------- CL cases

TAMPERS = [
    ('drop-storm', "DELETE FROM storm WHERE start_epoch = (SELECT min(start_epoch) FROM storm)"),
    ('drop-paired-interval', "DELETE FROM zeta_interval WHERE start_epoch = "
     "(SELECT max(interval_start_epoch) FROM zeta_interval_storm)"),
    ('swap-pairing', "UPDATE zeta_interval_storm SET storm_start_epoch = -storm_start_epoch; "
     "UPDATE zeta_interval_storm SET storm_start_epoch = "
     "(SELECT CASE WHEN -zeta_interval_storm.storm_start_epoch = (SELECT min(start_epoch) FROM storm) "
     " THEN (SELECT max(start_epoch) FROM storm) "
     " WHEN -zeta_interval_storm.storm_start_epoch = (SELECT max(start_epoch) FROM storm) "
     " THEN (SELECT min(start_epoch) FROM storm) ELSE -zeta_interval_storm.storm_start_epoch END)"),
    ('no-rain-rows', "DELETE FROM rainfall_intensity WHERE from_epoch >= (SELECT max(start_epoch) FROM storm) "
     "AND thru_epoch <= (SELECT thru_epoch FROM storm ORDER BY start_epoch DESC LIMIT 1)"),
    ('thru-off-grid', "UPDATE zeta_interval SET thru_epoch = thru_epoch + 7 WHERE start_epoch = "
     "(SELECT min(start_epoch) FROM zeta_interval)"),
    ('thru-off-grid-last', "UPDATE zeta_interval SET thru_epoch = thru_epoch + 7 WHERE start_epoch = "
     "(SELECT max(start_epoch) FROM zeta_interval)"),
    ('no-grid', "DELETE FROM discrete_zeta; DELETE FROM zeta_grid"),
    ('flat-rise', "UPDATE water_level SET zeta_mm = (SELECT zeta_mm FROM water_level w2 WHERE w2.epoch = "
     "(SELECT min(interval_start_epoch) FROM zeta_interval_storm)) WHERE epoch = "
     "(SELECT thru_epoch FROM zeta_interval WHERE start_epoch = "
     "(SELECT min(interval_start_epoch) FROM zeta_interval_storm))"),
    ('retype-interval', "UPDATE zeta_interval SET interval_type = 'storm' WHERE start_epoch = "
     "(SELECT min(start_epoch) FROM zeta_interval WHERE interval_type = 'interstorm')"),
    ('retype-rise', "UPDATE zeta_interval SET interval_type = 'interstorm' WHERE start_epoch = "
     "(SELECT min(interval_start_epoch) FROM zeta_interval_storm)"),
    ('drop-level', "DELETE FROM water_level WHERE epoch = (SELECT thru_epoch FROM zeta_interval "
     "WHERE interval_type = 'interstorm' ORDER BY start_epoch LIMIT 1)"),
    ('empty-levels', "DELETE FROM water_level"),
]
# after these the interval tables are no longer a classification: only the model
# comparison applies, not the "right kind" clause of the oracle
BREAKS_KIND = {'retype-interval', 'retype-rise'}


def run_command(db, kind):
    rc, exc, _ = D.cli([kind, db])
    if exc is not None:
        return ('err', C.err_of(exc), repr(exc)[:200])
    iv, rows, view = read_curve(db, kind)
    return ('ok', iv, rows, view)


def db_state(db):
    return (read_inputs(db), read_curve(db, 'rise'), read_curve(db, 'recession'))


def history_stage(db, new_step):
    """The commands a user issues to change the grid after the curves were assembled:
    `set-zeta-grid -d <another step>`, then `rise` and `recession` again. A command may
    refuse (raise and leave the database alone); whatever the commands do, the
    resulting tables are what later commands read, so the property is evaluated on
    every state the history passes through."""
    steps, states = [], []
    before = db_state(db)
    for argv in (['set-zeta-grid', db, '-d', new_step], ['rise', db], ['recession', db]):
        rc, exc, _ = D.cli(argv)
        after = db_state(db)
        changed = after != before
        steps.append(dict(cmd=argv[0], refused=exc is not None,
                          error=None if exc is None else '%s: %s' % (type(exc).__name__, str(exc)[:120]),
                          changed=changed))
        if changed:
            states.append((len(steps), after))
        before = after
    if not states or states[-1][0] != len(steps):
        states.append((len(steps), before))
    return dict(steps=steps, states=states)


def cl_case(rec, d, tamper=None, hist=None):
    ds = GC.to_dataset(rec)
    db, rc, exc = D.load(ds, d)
    if exc is not None:
        return dict(stage='load', exc=exc)
    rc, exc, _ = D.cli(['classify', db, '-s', rec['thr_s'], '-j', rec['thr_j']])
    if exc is not None:
        return dict(stage='classify', exc=exc)
    rc, exc, _ = D.cli(['set-zeta-grid', db, '-d', rec['grid']])
    if exc is not None:
        return dict(stage='grid', exc=exc)
    if tamper is not None:
        con = sqlite3.connect(db)
        try:
            con.executescript(dict(TAMPERS)[tamper])
            con.commit()
        finally:
            con.close()
    t = read_inputs(db)
    rise = run_command(db, 'rise')
    rece = run_command(db, 'recession')
    t_after = read_inputs(db)
    views = K.dump_views(db)        # the state the two commands leave: tables and what the views show of them
    history = history_stage(db, hist) if hist is not None else None
    return dict(stage='done', t=t, rise=rise, rece=rece, inputs_unchanged=(t == t_after), history=history, views=views)


def oracle_state(state):
    """The property's wording evaluated on the tables as they stand (no reference to the
    command that wrote them): grid covers the observed range, every curve row traces back
    to a classified interval of the right kind and its own data at the grid step now
    stored, every level of the curves belongs to discrete_zeta."""
    t, rise, rece = state
    bad = []
    n_rows = len(rise[0]) + len(rise[1]) + len(rece[0]) + len(rece[1])
    if len(t['grid']) != 1:
        if t['grid'] or n_rows or t['dz']:
            bad.append('zeta_grid holds %d rows while discrete_zeta has %d levels and the curve tables %d rows'
                       % (len(t['grid']), len(t['dz']), n_rows))
        return bad
    if t['wl']:
        bad += ['grid step %r: %s' % (t['grid'][0], m)
                for m in oracle_grid([z for _, z in t['wl']], t['grid'][0], t['dz'])]
    for kind, (iv, rows, view) in (('rise', rise), ('recession', rece)):
        bad += oracle_curve(t, kind, iv, rows, view)
    return bad


def check_history(r, rec, hist, case, out):
    h = r['history']
    out.count('history')
    names = ('regrid', 'rise-again', 'recession-again')
    for name, st in zip(names, h['steps']):
        out.count('history:%s-%s' % (name, 'refused' if st['refused'] else 'accepted'))
        if st['refused'] and st['changed']:
            out.count('history:%s-refused-but-changed-the-tables' % name)
    out.count('history:state-%s' % ('changed' if any(st['changed'] for st in h['steps']) else 'unchanged'))
    cmds = ['set-zeta-grid -d %r' % hist, 'rise', 'recession']
    for upto, state in h['states']:
        out.evaluations += 1
        told = ', '.join('%s (%s)' % (c, 'refused: ' + st['error'] if st['refused'] else 'accepted')
                         for c, st in zip(cmds[:upto], h['steps'][:upto]))
        msgs = oracle_state(state)
        for msg in msgs[:3]:
            out.violation('oracle', 'after the history load, classify, set-zeta-grid -d %r, rise, recession, %s '
                          '[grid step now stored: %s]: %s' % (rec['grid'], told, state[0]['grid'], msg), case=case)
        if msgs:
            break       # later states of the same history repeat the complaint


def measure_large(t, r, out):
    """What a large record exercised, measured on the tables: samples of the longest classified interval, its pairs
    of samples straddling a multiple of a block size (counted from the interval's first sample) that cross a grid
    level, levels of the grid, curve rows."""
    out.count('CL-large')
    for lim in (10000, 16384):
        if len(t['dz']) > lim:
            out.count('CL-large:grid-levels->%d' % lim)
    if not t['grid']:
        return
    step = t['grid'][0]
    longest = None
    for s, th, ty in t['zi']:
        if ty == 'interstorm':
            ys = [z for e, z in t['wl'] if s <= e <= th]
            if longest is None or len(ys) > len(longest):
                longest = ys
    if longest:
        for lim in (1024, 4096, 8192):
            if len(longest) > lim:
                out.count('CL-large:interstorm-interval-samples->%d' % lim)
        c = [math.ceil(v / step) for v in longest]
        for b in G.BLOCK_SIZES:
            m = sum(1 for p in range(b, len(c), b) if c[p] != c[p - 1])
            if m:
                out.count('CL-large:seam-pairs-of-block-%d-crossing-a-level' % b, m)
        steep = max([abs(a - b) for a, b in zip(c, c[1:])] + [0])
        for lim in (512, 4096, 10000):
            if steep > lim:
                out.count('CL-large:pair-across->%d-levels' % lim)
    for kind, res in (('rise', r['rise']), ('recession', r['rece'])):
        if res[0] == 'ok':
            for lim in (1000, 10000):
                if len(res[2]) > lim:
                    out.count('CL-large:%s-rows->%d' % (kind, lim))


def check_cl(cases, out, label):
    rise_strs, rece_strs, grid_strs, rise_meta, rece_meta, grid_meta = [], [], [], [], [], []
    view_items = []
    for n, (rec, tamper, hist) in enumerate(cases):
        d = D.scratch(PROP, 'cl_db')
        r = cl_case(rec, d, tamper, hist)
        out.evaluations += 1
        out.count('CL:' + rec['cls'] + (':tampered' if tamper else ''))
        if tamper:
            out.count('tamper:' + tamper)
        case = dict(level='CL', rec=rec, tamper=tamper, history=hist)
        if r['stage'] != 'done':
            if r['stage'] == 'load':
                out.count('CL-load-refused')
            else:
                out.violation('oracle', '%s raised %s: %s on a generated dataset (class %s)'
                              % (r['stage'], type(r['exc']).__name__, r['exc'], rec['cls']), case=case)
            continue
        t = r['t']
        # large records (long intervals, grids of > 10000 levels): judged by the oracle only, not sent to Coq
        oracle_only = bool(rec.get('oracle_only'))
        if oracle_only:
            measure_large(t, r, out)
        else:
            view_items.append((r['views'], case))
        if t['rain']:
            dt = t['rain'][0][1] - t['rain'][0][0]
            out.count('time-step:%s' % ('whole hours' if dt % 3600 == 0 else 'whole minutes' if dt % 60 == 0
                                        else 'not whole minutes'))
            if any(st == t['rain'][0][0] for _, st in t['zis']):
                # measured on the tables: the first rainfall time slice of the database opens a matched storm
                out.count('rise:matched-storm-in-first-rain-slice' + (':tampered' if tamper else ''))
        if not r['inputs_unchanged']:
            out.violation('oracle', 'rise / recession modified the classification or grid tables', case=case)
        # grid (only meaningful when the tables were not emptied)
        if t['grid'] and t['wl']:
            zetas = [z for _, z in t['wl']]
            if tamper is None:
                for msg in oracle_grid(zetas, t['grid'][0], t['dz'])[:3]:
                    out.violation('oracle', 'set-zeta-grid -d %r: %s' % (t['grid'][0], msg), case=case)
            if tamper in (None, 'swap-pairing', 'drop-storm', 'retype-interval', 'retype-rise') and not oracle_only:
                grid_strs.append('(%s, %s, (Ok %s))' % (C.cfloats(zetas), C.cfloat(t['grid'][0]), C.cZs(t['dz'])))
                grid_meta.append(case)
            lo, hi = min(zetas) / t['grid'][0], max(zetas) / t['grid'][0]
            if lo == math.floor(lo):
                out.count('grid:min-on-level')
            if hi == math.floor(hi):
                out.count('grid:max-on-level')
        shared = {}
        for kind, res, strs, meta in (('rise', r['rise'], rise_strs, rise_meta),
                                      ('recession', r['rece'], rece_strs, rece_meta)):
            if res[0] == 'ok':
                out.count('%s:curve' % kind)
                if t['grid'] and tamper not in BREAKS_KIND:
                    for msg in oracle_curve(t, kind, res[1], res[2], res[3])[:3]:
                        out.violation('oracle', msg, case=case)
                byk = {}
                for s, k, _ in res[2]:
                    byk.setdefault(k, set()).add(s)
                shared[kind] = sum(1 for v in byk.values() if len(v) >= 2)
                out.count('%s:intervals=%d' % (kind, min(len(res[1]), 6)))
                if len(res[1]) < len(candidates(t, kind)):
                    out.count('%s:some-interval-left-out' % kind)
            elif res[1] == 'ELinAlg':
                out.count('%s:no-curve:singular' % kind)
                continue        # the solver is not modelled
            else:
                out.count('%s:no-curve:%s' % (kind, res[1]))
                if tamper is None and t['grid']:
                    # an untampered classification: the command may only give up for want of
                    # intervals (ValueError) or of a level shared by two intervals (AssertionError)
                    per = [set(crossed_levels(t, kind, s)) for s in candidates(t, kind)]
                    n_cross = sum(1 for p in per if p)
                    shared_levels = {k for i, p in enumerate(per) for k in p
                                     if any(k in q for j, q in enumerate(per) if j != i)}
                    if (res[1] not in ('EValue', 'EAssert') and n_cross) or shared_levels:
                        out.violation('oracle', '`spowtd %s` raised %s although %d classified intervals cross '
                                      'grid levels and %d levels are shared by two of them'
                                      % (kind, res[2], n_cross, len(shared_levels)), case=case)
            if oracle_only:
                continue        # the oracle above is what judges these
            strs.append('(%s, %s)' % (ctables(t), ccurve(res)))
            meta.append((case, res))
        if r['history'] is not None:
            check_history(r, rec, hist, case, out)
        if shared.get('rise', 0) >= 1 and shared.get('recession', 0) >= 1 and tamper is None:
            out.nontriv(('cl', rec['t0'], rec['step'], rec['grid'], tuple(rec['zeta']), tuple(rec['rain'])))
    for kind, strs, meta, fn in (('rise', rise_strs, rise_meta, 'check_rise'),
                                 ('recession', rece_strs, rece_meta, 'check_recession')):
        bad, errs, _ = C.run_case_shards(
            PROP, label + '_' + kind, PRE, 'tables * res (list Z * list (Z * Z * float))', fn, strs, shard=12)
        out.corr_errors += errs
        for i in bad:
            case, res = meta[i]
            out.violation('corr', 'model %s_rows <> tables written by `spowtd %s` (class %s, tamper %s): impl %s'
                          % (kind, kind, case['rec']['cls'], case['tamper'], str(res)[:300]), case=case)
    # the views through which the curves are read, against Model/Views.v evaluated inside Coq (every dataset)
    _secs = K.check_views_coq(PROP, label + '_views', view_items, out,
                      what=lambda c: ' (class %s, tamper %s)' % (c['rec']['cls'], c['tamper']))
    if os.environ.get('VERIF_TIMING'):
        print('views-coq: %.1f s in Coq' % _secs)
    bad, errs, _ = C.run_case_shards(PROP, label + '_grid', PRE, 'list float * float * res (list Z)',
                                     'check_grid', grid_strs, shard=60)
    out.corr_errors += errs
    for i in bad:
        out.violation('corr', 'model populate_zeta_grid <> discrete_zeta written by set-zeta-grid',
                      case=grid_meta[i])


# ------------------------------------------------------------- FL: populate_zeta_grid

def impl_grid(zetas, step):
    import spowtd.zeta_grid as zg
    schema = open(os.path.join(C.REPO, 'spowtd', 'schema.sql')).read()
    con = sqlite3.connect(':memory:')
    try:
        con.executescript(schema)
        con.execute('PRAGMA foreign_keys = 0')
        con.executemany('INSERT INTO water_level (epoch, zeta_mm) VALUES (?, ?)',
                        [(i * 600, z) for i, z in enumerate(zetas)])
        try:
            zg.populate_zeta_grid(con, step)
        except Exception as e:  # pylint: disable=broad-except
            return ('err', C.err_of(e))
        return ('ok', [r[0] for r in con.execute('SELECT zeta_number FROM discrete_zeta ORDER BY zeta_number')])
    finally:
        con.close()


def gen_grid_case(rng):
    step = rng.choice(G.GRID_STEPS + [0.7, 10.0])
    n = rng.choice([1, 1, 2, 3, 5])
    klo = rng.randrange(-60, 40)
    khi = klo + rng.choice([0, 0, 1, 2, 5, 17])
    modes = ['on', 'below', 'above', 'in', 'product']
    zs = [G.level_value(rng, klo, step, rng.choice(modes))]
    if n > 1:
        zs.append(G.level_value(rng, khi, step, rng.choice(modes)))
    while len(zs) < n:
        zs.append(G.level_value(rng, rng.randrange(klo, khi + 1), step, 'in'))
    rng.shuffle(zs)
    return dict(zetas=zs, step=step)


def check_grid(cases, out, label):
    strs, kept = [], []
    for c in cases:
        zetas, step = [float(z) for z in c['zetas']], float(c['step'])
        case = dict(level='FL-grid', zetas=zetas, step=step)
        if c.get('kind'):
            case['kind'] = c['kind']
        res = impl_grid(zetas, step)
        out.evaluations += 1
        out.count('FL-grid' + (':' + c['kind'] if c.get('kind') else ''))
        if res[0] == 'ok':
            for msg in oracle_grid(zetas, step, res[1])[:3]:
                out.violation('oracle', 'populate_zeta_grid(levels=%s, step=%r): %s' % (zetas, step, msg), case=case)
            lo, hi = min(zetas) / step, max(zetas) / step
            if lo == math.floor(lo) or hi == math.floor(hi):
                out.count('FL-grid:bound-on-level')
                out.nontriv(('g', tuple(zetas), step))
            if c.get('kind'):
                # grids of > 10000 levels / coarser than the range: oracle only (not sent to Coq)
                for lim in (10000, 16384, 32768, 65536):
                    if len(res[1]) > lim:
                        out.count('FL-grid:levels->%d' % lim)
                if len(res[1]) <= 1:
                    out.count('FL-grid:step-coarser-than-range:%d-levels' % len(res[1]))
                continue
            strs.append('(%s, %s, (Ok %s))' % (C.cfloats(zetas), C.cfloat(step), C.cZs(res[1])))
        elif zetas:
            out.violation('oracle', 'populate_zeta_grid raised %s on levels=%s step=%r' % (res[1], zetas, step),
                          case=case)
            if c.get('kind'):
                continue
            strs.append('(%s, %s, (Err %s))' % (C.cfloats(zetas), C.cfloat(step), res[1]))
        else:
            out.count('FL-grid:empty-table')
            strs.append('(%s, %s, (Err %s))' % (C.cfloats(zetas), C.cfloat(step), res[1]))
        kept.append(case)
    bad, errs, _ = C.run_case_shards(PROP, label, PRE, 'list float * float * res (list Z)', 'check_grid', strs)
    out.corr_errors += errs
    for i in bad:
        out.violation('corr', 'model populate_zeta_grid <> zeta_grid.populate_zeta_grid on %s' % kept[i],
                      case=kept[i])


def run(ctx, out):
    C.import_spowtd()
    seed, tier = ctx['seed'], ctx['tier']
    rng = C.rng_for(seed, PROP)
    ncl = 120 if tier == 'quick' else 1200
    ngrid = 400 if tier == 'quick' else 4000
    hrng = C.rng_for(seed, PROP, 'history')
    cases = []
    for k in range(ncl):
        if k % 5 == 4:
            # the classification-oriented generator (odd shapes: rises spanning several bursts,
            # chains, gaps, runs touching the ends of a stretch); few of these give a curve
            rec = GC.gen_record(rng, GC.CLASSES[(k // 5) % len(GC.CLASSES)])
            rec['grid'] = rng.choice(G.GRID_STEPS)
            rec['cls'] = 'classify-' + rec['cls']
        else:
            rec = G.gen_curve_record(rng, G.DS_CLASSES[k % len(G.DS_CLASSES)])
            if k % 6 == 5:
                # a grid coarse enough that some rises / recessions lie wholly between two levels (they give no
                # row; the remaining ones must still be filed under their own interval)
                rec['grid'] = rng.choice([10.0, 20.0, 7.5, 15.0])
        tamper = TAMPERS[(k // 4) % len(TAMPERS)][0] if k % 4 == 3 else None
        hist = None
        if tamper is None and k % 7 in (0, 3):
            # a history: the grid step is changed after the curves were assembled, then rise / recession again
            hist = hrng.choice([g for g in G.GRID_STEPS + [10.0, 7.5, 15.0] if g != rec['grid']])
        cases.append((rec, tamper, hist))
    # time steps that are not whole minutes / hours, and records that open in a matched storm (its first time slice is
    # the first rainfall slice of the database): separate stream, untampered, the same oracle and model comparison
    srng = C.rng_for(seed, PROP, 'time-steps')
    n_odd = 0
    for k in range(24 if tier == 'quick' else 240):
        odd = False
        if k % 3 != 2:
            odd = G.ODD_TIME_STEPS[n_odd % len(G.ODD_TIME_STEPS)]       # every listed step at least once per run
            n_odd += 1
        rec = G.gen_curve_record(srng, G.DS_CLASSES[k % len(G.DS_CLASSES)], odd_steps=odd, open_in_storm=k % 2 == 0)
        hist = srng.choice([g for g in G.GRID_STEPS if g != rec['grid']]) if k % 8 == 5 else None
        cases.append((rec, None, hist))
    # 1 s and 2 s logging at present-day and post-2038 epochs (1.6e9 .. 4e9, across 2^31): neighbouring epochs differ
    # by less than 1e-9 relative; the rise / recession rows must still be filed under their own sample (own stream)
    prng = C.rng_for(seed, PROP, 'seconds-today')
    for k in range(6 if tier == 'quick' else 36):
        sec = 1 if k % 2 == 0 else 2
        t0 = prng.choice([1600000000, 1700000000, 1893456000, 2147483600] if sec == 1 and k % 4 == 0
                         else [2147483600, 2200000000, 2524608000, 3999990000])
        rec = G.gen_curve_record(prng, G.DS_CLASSES[k % len(G.DS_CLASSES)], odd_steps=sec, open_in_storm=k % 3 == 0,
                                 t0=t0 + prng.randrange(0, 3600))
        rec['cls'] += ':epoch-%.1e' % rec['t0']
        cases.append((rec, None, None))
    # large records, ORACLE ONLY (own stream): one interstorm interval of > 4096 samples (10-minute steps, a month)
    # whose every pair of samples crosses a grid level; grids of > 10000 levels (fine step / a record spanning > 10 m)
    lrng = C.rng_for(seed, PROP, 'large')
    longs = [lrng.randrange(4200, 5200)] if tier == 'quick' else [lrng.randrange(4200, 5200), lrng.randrange(1100, 2000),
                                                                   lrng.randrange(8300, 9000), lrng.randrange(2100, 4000)]
    for n in longs:
        cases.append((G.gen_long_recession_record(lrng, n), None, None))
    for kind in (['fine', 'deep'] if tier == 'quick' else ['fine', 'deep'] * 4):
        cases.append((G.gen_large_grid_record(lrng, kind), None, None))
    check_cl(cases, out, 'cl')
    gcases = [gen_grid_case(rng) for _ in range(ngrid)] + [dict(zetas=[], step=1.0)]
    gkinds = ['fine', 'deep', 'coarse', 'coarse']
    gcases += [G.gen_large_grid_case(lrng, gkinds[k % 4]) for k in range(8 if tier == 'quick' else 40)]
    check_grid(gcases, out, 'fl_grid')
    out.rule = ('CL: synthetic records with 1-5 storms each followed by a decaying recession returning to about '
                'the same level (classes decay / storms with unexplained rises / sparse / record bounds on a grid '
                'level or one ulp beside it / split levels), grid steps {1, .5, 2.5, .1, .3, 5, 2} (one case in six: 7.5, 10, 15, 20 mm, coarser than some rises), through load, '
                'classify, set-zeta-grid, rise, recession; one case in four has its classification tables '
                'tampered with by SQL (12 kinds); 24 further untampered records (x10 thorough) have time steps of 90, 100, 450, 30, 45, 7, 1000 s (not whole minutes), 3900, 5400 s (not whole hours) and / or open in heavy rain with a matched storm in the first rainfall time slice of the database; two untampered cases in seven continue with the history `set-zeta-grid -d <another '
                'step>`, `rise`, `recession` (each may refuse) and the same oracle is evaluated on every state the tables '
                'pass through (grid step now stored, discrete_zeta now stored). 6 records (36 thorough) logged every 1 s / 2 s at '
                'epochs 1.6e9 .. 4e9 (across 2^31), where neighbouring epochs differ by < 1e-9 relative. LARGE records, '
                'ORACLE ONLY (not sent to Coq; the exact-fraction oracle of every row and of the grid judges them): one '
                '(4 thorough) 10-minute record with an interstorm interval of 4200-5200 samples (thorough also > 1024, > 2048, > 8192) whose EVERY pair of '
                'consecutive samples crosses a grid level (saw-tooth on a decline: the pairs straddling samples 1000, '
                '1024, 2048, 4096 of the interval included; measured CL-large:seam-pairs-*), one record with a fine grid '
                'step (0.05 .. 0.001 mm: 10500-30000 levels) and one whose level falls > 10 m between two samples of a '
                'dry spell (1 / 0.5 mm: > 10000 levels, one pair crossing all of them). FL: populate_zeta_grid on 1-5 levels with bounds on / beside a '
                'grid level; 8 (40 thorough) oracle-only grids of 10001 .. 65800 levels (fine step, deep record) or with a step of 250 .. 10000 mm, coarser than the range. Non-trivial: an untampered dataset whose rise curve and recession curve each have a '
                'level shared by >= 2 intervals (CL), a bound exactly on a grid level (FL); distinct by the data.')
    out.samples = [dict(level='CL', rec=cases[0][0], tamper=None, history=cases[0][2]), dict(level='FL-grid', **gcases[0])]
    out.assumptions += [
        'numpy.linalg.solve (the offsets) is not modelled: only which intervals receive an offset; a LinAlgError '
        'is counted as "no curve"',
        'storm_total_rain_depth is summed by SQLite in binary64; the model sums exactly and the comparison allows '
        '1e-12 relative',
        'crossing positions: tolerance of C12 (root finder = oracle)',
        'SQLite storage, PRIMARY KEY / UNIQUE constraints and the transaction of each command are exercised, not '
        'modelled',
        'the master-curve views: SQLite evaluates joins, AVG and SUM in binary64 and emits GROUP BY groups in ascending '
        'key order; Model/Views.v computes exactly and the comparison allows 1e-9 of the terms\' magnitude (order and '
        'level sets exactly)']


def replay(case, out):
    C.import_spowtd()
    if case['level'] == 'CL':
        check_cl([(case['rec'], case.get('tamper'), case.get('history'))], out, 'replay')
    else:
        check_grid([dict(zetas=case['zetas'], step=case['step'], kind=case.get('kind'))], out, 'replay')
