"""C01 — classification completes, pairs one-to-one, pairs overlap."""
from harness import common as C
from harness import classify_common as K
from harness import gen_classify as G

PROP = 'C01'
MODELS = ['Model/ClassifyData.vo', 'Model/DepthView.vo', 'Model/ClassifyCommand.vo']   # .vo files the generated case files import
KEEP = {'C01'}


def run(ctx, out):
    C.import_spowtd()
    seed, tier = ctx['seed'], ctx['tier']
    rng = C.rng_for(seed, PROP)
    n_gs, n_ms, n_cl = (600, 2500, 150) if tier == 'quick' else (6000, 25000, 1500)
    graphs = [K.gen_graph(rng, ties=(k % 3 == 0), small=(k % 3 == 0)) for k in range(n_gs)]
    K.check_gs(graphs, out, KEEP, PROP, 'gs')
    recs = [G.gen_record(rng, G.CLASSES[k % len(G.CLASSES)], nmax=(60 if k % 10 == 0 else 30)) for k in range(n_ms)]
    K.check_ms(recs, out, KEEP, PROP, 'ms')
    recs_cl = [G.gen_record(rng, G.CLASSES[k % len(G.CLASSES)]) for k in range(n_cl)]
    # every 4th record with a 2-3x finer water level series, outages and mostly an island of readings between two
    # outages (stored data-interval numbers with a hole); own stream, the records are otherwise unchanged
    recs_cl = G.fine_share(recs_cl, C.rng_for(seed, PROP, 'fine'))
    # records whose rises begin with increments EQUAL to one of the ways of rounding threshold x step (they differ by
    # an ulp for e.g. 6-min steps at 3 mm/h), at the foot of a rise on dry samples after a light shower: the two
    # places that use the product (interstorm flags, rise detection) must agree; own stream
    rng_u = C.rng_for(seed, PROP, 'ulp')
    recs_foot = [G.gen_foot_record(rng_u) for _ in range(60 if tier == 'quick' else 600)]
    K.count_foot(recs_foot, out)
    # every 5th record dated where epochs leave the 32-bit range (around 2038 / 2106 / 1901, centuries away); own stream
    recs_cl = G.far_share(recs_cl, C.rng_for(seed, PROP, 'far'))
    # environment stage: a few of the records once more, load + classify in a child process under `python -O` (twice)
    # and under two other variants of harness.envcheck; judged like the rest and compared with the default run
    recs_env = K.env_records(recs_cl, C.rng_for(seed, PROP, 'env'), seed)
    K.check_cl(recs_cl + recs_foot + recs_env, out, KEEP, PROP, 'cl')
    K.command_probes(out, PROP)
    large_stage(seed, tier, out)
    if tier == 'thorough':
        field_samples(out)
    out.rule = ('GS: random bipartite candidate graphs (<=6x6, a third with ties) through find_stable_matching; '
                'MS: records of 10 structural classes through match_storms; CL: records through the CLI '
                '(load, classify), one case per gap-free stretch AND one case per dataset for the whole command '
                '(all rows of thresholds, grid_time_flags, storm, zeta_interval, zeta_interval_storm, or the kind of '
                'exception, against classify_command evaluated in Coq; loaded_ok evaluated on the stretches read '
                'from the database); "foot" records: (step, jump threshold) pairs for which threshold x step rounds '
                'differently under different orders of evaluation, rises beginning with increments exactly equal to each '
                'candidate product on dry samples after a light shower; '
                'boundary probes: no data interval, infinite level, NaN threshold; every 5th CL record dated beyond the '
                '32-bit range of epochs (straddling / after 2^31 and 2^32, before -2^31, years 1000..5000); environment '
                'stage: 4 records through load + classify in a child process (python -O twice, two of TZ=.. / -vvv / other '
                'directory / random hash seed), judged alike and compared with the default run; LARGE-INPUT stage, oracle '
                'only (nothing of it is sent to Coq: reading the literals would dominate): find_stable_matching on chain '
                'graphs of 1500-3000 links (ascending / shuffled / descending insertion, some with flipped links), '
                'match_storms and the whole CLI on one gap-free record holding a displacement chain of 1500+ storms '
                '(about 10^4 samples: every rise spans two bursts, every burst two rises, each rise prefers the next storm). '
                'Non-trivial: at least one pair recorded and '
                'some storm or rise has >= 2 candidates (contention); distinct by flag vectors / graph.')
    out.samples = [dict(level='MS', record=recs[0]), dict(level='GS', cands=str(graphs[1][0]), prefs=str(graphs[1][1]))]
    out.assumptions += ['schedule of the Python set is not observable: exact comparison when the outcome is '
                        'schedule independent in the model (3 schedules agree), membership in the set of all '
                        'model outcomes for small tie cases, oracle only for large tie cases']


def large_stage(seed, tier, out):
    """Inputs sized past what small cases reach: long displacement chains (the matching must finish and be one-to-one
    whatever the length of the chain of displacements), at function level and through the command line."""
    rng = C.rng_for(seed, PROP, 'large')
    if tier == 'quick':
        g_sizes = [rng.randrange(1500, 3000) for _ in range(3)]
        ms_links, cl_links = [rng.randrange(1500, 2500)], [rng.randrange(1500, 2000)]
    else:
        g_sizes = [rng.randrange(1500, 3000) for _ in range(6)] + [rng.randrange(3000, 12000) for _ in range(4)]
        ms_links = [rng.randrange(1500, 3000), rng.randrange(1100, 1500), rng.randrange(3000, 4500)]
        cl_links = [rng.randrange(1500, 2500), rng.randrange(1100, 1500), rng.randrange(2500, 3500)]
    K.check_gs_large(K.chain_graph_specs(rng, g_sizes), out, KEEP, PROP)
    K.check_ms([G.gen_chain_spec(rng, n, cut=(0.0 if k == 0 else 0.002)) for k, n in enumerate(ms_links)],
               out, KEEP, PROP, 'ms_large', coq=False)
    K.check_cl([G.gen_chain_spec(rng, n, cut=(0.0 if k == 0 else 0.002)) for k, n in enumerate(cl_links)],
               out, KEEP, PROP, 'cl_large', coq=False)


def field_samples(out):
    """The two field datasets of the repository at a grid of threshold pairs (totality only)."""
    import os
    from harness import dataset as D
    base = os.path.join(C.REPO, 'spowtd', 'test', 'sample_data')
    for sample in (1, 2):
        for ts in (2.0, 4.0, 8.0):
            for tj in (0.5, 2.0, 5.0):
                d = D.scratch(PROP, 'field')
                db = os.path.join(d, 'f.sqlite3')
                rc, exc, _ = D.cli(['load', db, '-p', os.path.join(base, 'precipitation_%d.txt' % sample),
                                    '-e', os.path.join(base, 'evapotranspiration_%d.txt' % sample),
                                    '-z', os.path.join(base, 'water_level_%d.txt' % sample),
                                    '--timezone', 'Africa/Lagos'])
                if exc is None:
                    rc, exc, _ = D.cli(['classify', db, '-s', ts, '-j', tj])
                out.evaluations += 1
                out.count('field-sample')
                if exc is not None:
                    out.violation('oracle', 'field sample %d fails at thresholds -s %s -j %s: %r' % (sample, ts, tj, exc),
                                  case=dict(level='field', sample=sample, ts=ts, tj=tj))


def replay(case, out):
    C.import_spowtd()
    if case['level'] == 'field':
        field_samples(out)
    else:
        K.replay_case(case, out, KEEP, PROP)
