"""C16 — PEATCLSM specific yield and transmissivity follow the published formulation.

Correspondence (function level, certified enclosures):
* specific yield: for a parameter set p the cdf values F_s(zm_j) = Phi(zm_j/sd)
  of the 201 layers are certified first (Coq `integral` tactic: one direct
  integral per chain anchor, then one integral per layer, additivity proved in
  Proofs/PeatclsmSpec.v); then for each sampled knot i Coq proves
  |sy_knot p 201 i - v_impl| <= 1e-9, where sy_knot (Model/Peatclsm.v) is the
  double loop of get_Sy_soil + surface term and v_impl is the float held in
  PeatclsmSpecificYield.sy_knots: every one of the 201 layer terms is enclosed
  by `interval` (saturation branch decided by lra) and the enclosures are
  summed by Theorem knot_enclosure.  Bounds written by this file are hints:
  Coq proves each of them.
* transmissivity: T_peat (formula, ValueError above the ceiling, inf at the
  ceiling) on (Ksmacz0, alpha, zeta_max, level) cases, scalar and array.

Oracle (independent of the Coq model): the Dettmann-Bechtold profile written
from the equations with numpy vectorisation and math.erfc (no scipy.stats, no
loops shared with the code), for 201 layers (the Python code) and for 200 layers
(the shipped R script, transcribed - Rscript is not installed and the R code is
not executed); np.interp between knots and constant beyond; the transmissivity
formula with math.pow; refusal exactly above the ceiling.

History stage (runs first, before this process has built any PEATCLSM
function): sequences of specific-yield functions built one after the other in
ONE process - same (theta_s, b, psi_s) with different sd, and same sd with one
soil parameter changed at a time, the first set coming back at the end - each
compared at its 201 tabulated levels (and through the callable) with the
profile of its OWN parameters; likewise transmissivity objects differing in one
of (Ksmacz0, alpha, zeta_max) asked at the same levels, earlier ones kept alive
and asked again.  A profile, table or parameter remembered from an earlier
function (module-level memo, mutable default, class attribute, id() reuse)
shows up only there.  The case holds the whole sequence and what was built
before it, so its replay rebuilds the history in a fresh process.

Parameter types: the corner / random sets are also built from the dictionary that yaml.safe_load makes of their
decimal texts (name suffix @yaml) - `theta_s: 1`, `sd: 2`, `b: 20`, `psi_s: -1`, `Ksmacz0: 7`, `alpha: 3`,
`zeta_max_cm: 0` arrive as Python ints - and judged by the same oracle on the float values; a number written
like `1e-01` is a string for YAML 1.1 and may be refused, never answered wrongly.  The caller's array: every
float64 array of levels handed to a function is compared bit-for-bit with a pristine copy afterwards and
handed over a second time (writable, read-only, strided and reversed views; arrays holding a level above the
ceiling are refused every time).
Wave 5: parameter sets on the lattices of the discretisation (lattice_psets: psi_s an odd multiple of half a layer,
where the head of a layer EQUALS psi_s in binary64 - counted per set by head_ties; whole centimetres; round sd /
theta_s / b), oracle only; PeatclsmTransmissivity attributes given new values on a live object (check_T_reassign:
the unchanged code reads Ksmacz0 / alpha / zeta_max_cm at every call).
"""
import concurrent.futures as cf
import hashlib
import itertools
import json
import math
import os
import threading
import warnings
from fractions import Fraction as F

import numpy as np
import yaml

from harness import common as C
from harness import gen_hydraulic as H

PROP = 'C16'
MODS = ('Model.Transm Model.TransmEval Model.Peatclsm Model.PeatclsmEval Proofs.PeatclsmSpec '
        'Proofs.PeatclsmTac')
MODELS = ['Model/Transm.vo', 'Model/TransmEval.vo', 'Model/Peatclsm.vo', 'Model/PeatclsmEval.vo',
          'Proofs/PeatclsmSpec.vo', 'Proofs/PeatclsmTac.vo', 'Model/PeatclsmFloat.vo']   # what the generated case files import
TOL_SY = F(1, 10 ** 9)

PUBLISHED = dict(sd='0.162', theta_s='0.88', b='7.4', psi_s='-0.024')
PUBLISHED_T = dict(Ksmacz0=7.3, alpha=3, zeta_max_cm=1.0)


def fr(p):
    return {k: F(v) for k, v in p.items()}


# ------------------------------------------------------------- implementation

_BUILT = []     # every parameter set handed to the factory by this process, in order


SY_FIELDS = ('sd', 'theta_s', 'b', 'psi_s')


def sy_yaml_text(p):
    """The specific-yield section of a parameter file holding the decimal texts of p as they are."""
    return 'type: peatclsm\n' + ''.join('%s: %s\n' % (k, p[k]) for k in SY_FIELDS)


def sy_yaml_types(p):
    """Python types yaml.safe_load gives for the texts of p ('1' -> int, '1.0' -> float, '1e-05' -> str)."""
    return {k: H.yaml_type(str(p[k])) for k in SY_FIELDS}


def impl_sy(p, how='float'):
    """how='float': every parameter as a Python float; how='yaml': the parameters dictionary yaml.safe_load makes
    of the texts of p, as the commands hand it to the factory (whole numbers are Python ints there)."""
    import spowtd.specific_yield as sy
    _BUILT.append(dict(p, _how=how) if how != 'float' else dict(p))
    with warnings.catch_warnings():
        warnings.simplefilter('ignore')
        if how == 'yaml':
            return sy.create_specific_yield_function(yaml.safe_load(sy_yaml_text(p)))
        return sy.create_specific_yield_function(
            dict(type='peatclsm', sd=float(F(p['sd'])), theta_s=float(F(p['theta_s'])), b=float(F(p['b'])),
                 psi_s=float(F(p['psi_s']))))


def rebuild(q):
    """Build again what _BUILT recorded (replay of a history)."""
    return impl_sy({k: v for k, v in q.items() if k != '_how'}, q.get('_how', 'float'))


def T_function(Ks, alpha, zmax, texts=None):
    import spowtd.transmissivity as tm
    if texts is not None:   # the dictionary yaml.safe_load makes of a parameter text
        params = yaml.safe_load('type: peatclsm\nKsmacz0: %s\nalpha: %s\nzeta_max_cm: %s\n'
                                % (texts['Ks'], texts['alpha'], texts['zmax']))
    else:
        params = dict(type='peatclsm', Ksmacz0=Ks, alpha=alpha, zeta_max_cm=zmax)
    return tm.create_transmissivity_function(params)


def impl_T(Ks, alpha, zmax, arg, texts=None):
    try:
        with warnings.catch_warnings():
            warnings.simplefilter('ignore')
            return ('ok', T_function(Ks, alpha, zmax, texts)(arg))
    except Exception as e:  # pylint: disable=broad-except
        return ('err', C.err_of(e))


# ------------------------------------------------------------- oracle: the published formulation

def phi_erfc(x):
    return 0.5 * math.erfc(-x / math.sqrt(2.0))


def db_profile(p, nlayers):
    """Discretised Dettmann-Bechtold profile (eq. 1-5) at the 201 levels, soil
    part summed over `nlayers` layers (201: the Python code; 200: the R script)."""
    sd, ths, b, psi = (float(F(p[k])) for k in ('sd', 'theta_s', 'b', 'psi_s'))
    k = np.arange(201)
    zl = -1.0 + k / 100.0
    zu = -0.99 + k / 100.0
    zm = 0.5 * (zl + zu)
    Fs = np.array([phi_erfc(x / sd) for x in zm])

    def theta(d):
        out = np.full(d.shape, ths)
        uns = d * 100 < psi * 100
        out[uns] = ths * ((d[uns] * 100) / (psi * 100)) ** (-1.0 / b)
        return out
    j = np.arange(nlayers)
    du = zu[:, None] - zm[None, j]
    dl = zl[:, None] - zm[None, j]
    A = ((zu[j] - zl[j])[None, :] * (1 - Fs[j])[None, :] * (theta(du) - theta(dl))).sum(axis=1)
    return 1000.0 * zm, A / (zu - zl) + Fs


def T_oracle(Ks, alpha, zmax, z):
    zc = z / 10
    if zc > zmax:
        return ('err', 'EValue')
    if zc == zmax:
        return ('ok', math.inf)
    return ('ok', Ks * math.pow(zmax - zc, 1 - alpha) / (100 * (alpha - 1)))


# ------------------------------------------------------------- certified tables, cached

TABLE_DEPS = [m for m in MODELS if 'Float' not in m] + ['Model/Util.vo']


def certified_tables(p):
    """H.peat_tables for the parameter set p.  The tables are facts about the
    model only (cdf and Campbell values of p; nothing of the implementation
    enters), so their compiled proofs are kept under work/C16/tabcache_<key>
    and reused, like any .vo that `make` finds up to date.  The key hashes the
    parameter set, the generator source and the compiled model / tactic files
    the table proofs were checked against; VERIF_NO_CACHE=1 recertifies."""
    h = hashlib.sha256()
    h.update(repr(sorted((k, str(F(v))) for k, v in p.items())).encode())
    h.update(open(H.__file__, 'rb').read())
    for dep in TABLE_DEPS:
        h.update(open(os.path.join(C.COQ, dep), 'rb').read())
    key = h.hexdigest()[:20]
    label = 'tabcache_' + key
    d = os.path.join(C.WORK, PROP, label)
    meta = os.path.join(d, 'meta.json')
    if os.environ.get('VERIF_NO_CACHE') != '1' and os.path.exists(meta) and os.path.exists(os.path.join(d, 'Tab.vo')):
        m = json.load(open(meta))
        return dict(dir=d, eps=F(m['eps']), eta=F(m['eta']), errors=[], seconds=0.0, extra=('-Q', d, 'Tab'),
                    cached=m['seconds'])
    with TABLE_LOCKS.setdefault(key, threading.Lock()):
        tab = H.peat_tables(PROP, label, fr(p))
        if not tab['errors']:
            with open(meta, 'w') as f:
                json.dump(dict(eps=str(tab['eps']), eta=str(tab['eta']), seconds=tab['seconds'],
                               p={k: str(v) for k, v in p.items()}), f)
    return tab


TABLE_LOCKS = {}


# ------------------------------------------------------------- specific yield

def unsaturated_layers(p, i):
    """Number of layers whose lower Campbell evaluation is unsaturated at level i."""
    psi = F(p['psi_s'])
    return sum(1 for j in range(201) if not psi <= F(i - j, 100) - F(1, 200))


def knot_goal(p, tab, i, v):
    """|sy_knot P 201 i - v| <= 1e-9 by Theorem knot_enclosure_Q: the value
    computed from the two certified tables is exact rational arithmetic run by
    vm_compute; the table errors are accounted for by the theorem."""
    stmt = 'Rabs (sy_knot P 201 %d - Q2R %s) <= Q2R %s' % (i, C.cQ(v), C.cQ(TOL_SY))
    tac = ('apply (knot_enclosure_Q P PhiQ ThQ 201 %d epsQ etaQ MQ thsQ %s %s adm_P ltac:(lia) phi_all phi_range '
           'theta_all ths_ok); vm_compute; reflexivity' % (i, C.cQ(v), C.cQ(TOL_SY)))
    return (stmt, 'idtac', tac)


def check_sy(psets, out, label, knots_for, seed=0):
    """psets: (name, parameters); knots_for(name, p) -> levels to enclose in Coq ([] = oracle only)."""
    todo = []
    for n, (name, p) in enumerate(psets):
        # what this process built before belongs to the failing input (replay rebuilds it first)
        pj = dict(level='sy', name=name, p=p, built_before=list(_BUILT))
        out.count('params:' + name.split('#')[0] + ('@yaml' if name.endswith('@yaml') else ''))
        if name.startswith('oracle-lattice'):
            ties = head_ties(p)
            out.count('lattice:psi_s:%s' % ('head-equals-psi_s-somewhere' if ties else 'no-head-equals-psi_s'))
            out.count('lattice:(level, layer) pairs with head == psi_s', ties)
            if ties:
                out.nontriv(('lattice-tie', tuple(sorted(p.items()))))
        how = 'yaml' if name.endswith('@yaml') else 'float'
        if how == 'yaml':
            pj['knots'] = []        # judged by the oracle alone (the replay does not certify tables for it)
            for k, t in sy_yaml_types(p).items():
                out.count('yaml-type:%s=%s' % (k, t))
        try:
            S = impl_sy(p, how)
        except Exception as e:  # pylint: disable=broad-except
            out.evaluations += 1
            if name.startswith('oracle-str'):
                # a number the YAML loader hands over as a string (`1e-01`): a refusal is not a wrong answer
                out.count('str-typed:refused:' + type(e).__name__)
                continue
            out.violation('oracle', 'PeatclsmSpecificYield raises %s: %s for admissible parameters %s'
                          % (type(e).__name__, e, p), case=pj)
            continue
        knots_mm = np.asarray(S.zeta_knots_mm, dtype=float)
        vals = np.asarray(S.sy_knots, dtype=float)
        # ---- oracle: the profile from the equations, 201 layers; the R script's 200 layers
        zk, want = db_profile(p, 201)
        _, want_r = db_profile(p, 200)
        out.evaluations += 201
        if knots_mm.shape != (201,) or not np.allclose(knots_mm, zk, rtol=0, atol=1e-9):
            out.violation('oracle', 'tabulated levels are not -995, -985, ..., 1005 mm for %s' % p, case=pj)
            continue
        bad = np.nonzero(~(np.abs(vals - want) <= 1e-12))[0]
        if len(bad):
            i = int(bad[0])
            out.violation('oracle', 'specific yield at tabulated level %g mm is %r; the discretised Dettmann-Bechtold '
                          'profile (201 layers + surface term) gives %r; parameters %s (%d of 201 levels differ)'
                          % (knots_mm[i], float(vals[i]), float(want[i]), p, len(bad)), case=pj)
        if name.startswith('published'):
            if not np.allclose(vals, want_r, rtol=1e-5, atol=1e-8):
                out.violation('oracle', 'published parameter set: values differ from the R reference formulation '
                              '(200 layers, transcribed) beyond np.allclose: max diff %r'
                              % float(np.max(np.abs(vals - want_r))), case=pj)
            out.notes.append('published set: max |Python (201 layers) - R transcription (200 layers)| = %.3g'
                             % float(np.max(np.abs(vals - want_r))))
        # ---- oracle: linear in between, constant beyond, scalar = array
        rng = C.rng_for(seed, PROP, 'interp', name)
        zs = ([-5000.0, -995.0, math.nextafter(-995.0, -math.inf), 1005.0, 1005.0000001, 4000.0, -990.0, 0.0, 3.3]
              + [rng.uniform(-995, 1005) for _ in range(40)])
        got = np.asarray(S(np.array(zs)), dtype=float)
        ref = np.interp(zs, knots_mm, vals)
        out.evaluations += len(zs)
        # the caller keeps its array: unchanged afterwards (bit for bit) and the same answer the second time
        for mode in H.ARRAY_MODES:
            results, modified = H.call_twice(S, zs, mode)
            out.count('sy-array-kept:' + mode)
            if modified:
                out.violation('oracle', 'the caller\'s levels were modified: the float64 array (%s) handed to the '
                              'specific-yield function differs from its pristine copy afterwards; parameters %s'
                              % (mode, p), case=pj)
            for nth, (st, arr) in enumerate(results, 1):
                if st != 'ok' or arr.shape != got.shape or not np.array_equal(arr, got):
                    out.violation('oracle', 'call number %d of the specific-yield function with the same float64 array '
                                  '(%s) gives %s; a fresh array of these levels gives %s; parameters %s'
                                  % (nth, mode, arr, got, p), case=pj)
                    break
        for z, g, r in zip(zs, got, ref):
            if not abs(g - r) <= 1e-12:
                out.violation('oracle', 'specific yield at %r mm is %r, linear interpolation of the tabulated values '
                              '(constant beyond) gives %r; parameters %s' % (z, g, r, p), case=pj)
                break
            if float(S(z)) != g:
                out.violation('oracle', 'scalar and array evaluation differ at %r mm: %r vs %r' % (z, float(S(z)), g),
                              case=pj)
                break
        # ---- correspondence: certified enclosure of sampled knots (run below, sets in parallel)
        ks = knots_for(name, p)
        if ks and np.all(np.isfinite(vals)):
            todo.append((n, name, p, pj, ks, vals, knots_mm, want))

    def coq_part(job):
        n, name, p, pj, ks, vals, knots_mm, want = job
        tab = certified_tables(p)
        if tab['errors']:
            return tab, None, [], 0.0
        goals = [knot_goal(fr(p), tab, i, float(vals[i])) for i in ks]
        head = ('Require Import Tab.Tab.\nFrom Coq Require Import ZArith Lia QArith Qreals.\nOpen Scope R_scope.\n'
                'Notation P := %s.\n' % H.peat_record(fr(p)))
        status, errs, secs = H.run_goals(PROP, '%s_knots%d' % (label, n), MODS, goals,
                                         per_file=max(1, (len(goals) + 15) // 16),
                                         extra_header=head, extra_args=tab['extra'])
        return tab, status, errs, secs

    with cf.ThreadPoolExecutor(max_workers=3) as ex:
        results = list(ex.map(coq_part, todo))
    for (n, name, p, pj, ks, vals, knots_mm, want), (tab, status, errs, secs) in zip(todo, results):
        out.corr_errors += tab['errors']
        out.notes.append('%s: cdf and Campbell tables %s, eps = %.2g, eta = %.2g'
                         % (name, ('certified in %.1fs' % tab['seconds']) if 'cached' not in tab else
                            ('reused from work/C16 (certified earlier in %.1fs against the same model build)'
                             % tab['cached']), float(tab['eps']), float(tab['eta'])))
        if tab['errors']:
            continue
        out.corr_errors += errs
        out.notes.append('%s: %d knots enclosed in %.1fs' % (name, len(ks), secs))
        for i, st in zip(ks, status):
            nuns = unsaturated_layers(fr(p), i)
            out.count('knot-layers:%s' % ('0' if nuns == 0 else '1-20' if nuns <= 20 else '21-100' if nuns <= 100
                                          else '>100'))
            if nuns >= 2:
                out.nontriv(('k', name, tuple(sorted(p.items())), i))
            if st == 'MISMATCH':
                out.violation('corr', 'Coq cannot enclose sy_knot p 201 %d within 1e-9 of the implementation value %r '
                              '(level %g mm; independent profile gives %r); parameters %s'
                              % (i, float(vals[i]), knots_mm[i], want[i], p), case=dict(pj, knots=[i]))


# ------------------------------------------------------------- transmissivity

def T_tol(alpha, zmax, z):
    """Relative tolerance: 1e-12 + forward error of the float subtraction
    zmax - z/10 amplified by the exponent."""
    gap = F(zmax) - F(z) / 10
    cond = (abs(F(zmax)) + abs(F(z)) / 10) / gap
    return F(1, 10 ** 12) + F(8, 2 ** 53) * abs(F(alpha) - 1) * cond


def gen_T_cases(rng, count):
    cases = []
    for k in range(count):
        Ks = H.round_sig(H.loguniform(rng, 1e-4, 1e5), 3)
        alpha = rng.choice([3, 2, 1.5, 7.4, 20.0, 1.001, 1.25, 3.0, round(rng.uniform(1.01, 20), 2)])
        # ceilings incl. decimals d for which 10 d, (10 d) / 10 and (10 d) * 0.1 round differently
        zmax = rng.choice([1.0, 0.0, 5.0, -3.5, 12.25, 1.0, 0.1, 0.3, 0.7, 1.2, -0.6, 2.3,
                           round(rng.uniform(-5, 15), 1)])
        top = 10 * zmax
        kind = k % 8
        if kind == 0:
            z = rng.choice([top, round(top, 6)])     # at the ceiling (float product / decimal)
        elif kind == 1:
            z = top + rng.choice([1e-6, 0.5, 3.0, 1000.0])   # above: refused
        elif kind == 2:
            z = top - rng.choice([1e-6, 1e-3, 0.01])         # just below
        elif kind == 3:
            z = math.nextafter(top, rng.choice([-math.inf, math.inf]))   # one ulp beside
        else:
            z = round(top - H.loguniform(rng, 0.1, 3000.0), 3)
        cases.append(dict(Ks=Ks, alpha=alpha, zmax=zmax, z=z, form=rng.choice(['float', 'np', 'array'])))
    return cases


T_TEXT_STYLES = ('int', 'int', 'dump', 'pest', 'dot0')


def gen_T_typed_cases(rng, count):
    """(Ksmacz0, alpha, zeta_max_cm) written the ways a parameter file may write them - whole numbers without a
    dot arrive as Python ints (`Ksmacz0: 7`, `alpha: 3`, `zeta_max_cm: 0`) - and levels incl. exactly 0.0, -0.0,
    Python ints and integer arrays; judged on the float values by the same oracle and models."""
    cases = []
    for k in range(count):
        Ks = float(rng.choice([1, 7, 20, 100000, 7.3, 0.0001, 28]))
        alpha = float(rng.choice([3, 2, 20, 7, 7.4, 1.5]))
        zmax = float(rng.choice([0, 1, -1, 5, 12, 0, 1, 2.5]))
        top = 10 * zmax
        kind = k % 6
        if kind == 0:
            z = top                                   # at the ceiling
        elif kind == 1:
            z = top + rng.choice([1.0, 3.0, 20.0, 1000.0])   # above: refused
        elif kind == 2:
            z = rng.choice([0.0, -0.0]) if zmax >= 0 else top - 1.0
        else:
            z = float(round(top - H.loguniform(rng, 1.0, 3000.0)))
        texts = dict(Ks=H.yaml_number_text(Ks, rng.choice(T_TEXT_STYLES)),
                     alpha=H.yaml_number_text(alpha, rng.choice(T_TEXT_STYLES)),
                     zmax=H.yaml_number_text(zmax, rng.choice(T_TEXT_STYLES)))
        cases.append(dict(Ks=Ks, alpha=alpha, zmax=zmax, z=z, texts=texts,
                          form=rng.choice(['float', 'np', 'array', 'int', 'intarray'])))
    return cases


def gen_T_array_cases(rng, count):
    """One float64 array of levels per case, kept by the caller and handed over twice (H.call_twice): levels below
    the ceiling; every third case holds one level above it (refused, every time)."""
    cases = []
    for k in range(count):
        Ks = H.round_sig(H.loguniform(rng, 1e-4, 1e5), 3)
        alpha = rng.choice([3, 2, 1.5, 7.4, 20.0, 1.25, 3.0])
        zmax = rng.choice([1.0, 0.0, 5.0, -3.5, 12.25, 1.0, 0.3, 2.3])
        top = 10 * zmax
        levels = [round(top - H.loguniform(rng, 0.1, 3000.0), 3) for _ in range(rng.choice([1, 3, 6]))]
        levels = [z for z in levels if z < top - 0.05] or [top - 25.0]
        if k % 4 == 1 and top > 0.5:
            levels.append(0.0)
        if k % 3 == 2:
            levels.insert(rng.randrange(len(levels) + 1), top + rng.choice([0.5, 3.0, 20.0, 95.0]))
        cases.append(dict(level='T-array', Ks=Ks, alpha=alpha, zmax=zmax, levels=levels,
                          mode=H.ARRAY_MODES[k % len(H.ARRAY_MODES)]))
    return cases


def check_T_arrays(cases, out):
    for c in cases:
        Ks, alpha, zmax, levels = c['Ks'], c['alpha'], c['zmax'], c['levels']
        want = [T_oracle(float(Ks), float(alpha), float(zmax), float(z)) for z in levels]
        refused = any(st == 'err' for st, _ in want)
        with warnings.catch_warnings():
            warnings.simplefilter('ignore')
            T = T_function(Ks, alpha, zmax)
        results, modified = H.call_twice(T, levels, c['mode'])
        out.evaluations += len(results)
        out.count('T-array-kept:%s:%s' % (c['mode'], 'holds-a-refused-level' if refused else 'values'))
        who = ('PEATCLSM transmissivity (Ksmacz0=%r alpha=%r zeta_max_cm=%r), one float64 array (%s) of levels %r mm '
               'kept by the caller' % (Ks, alpha, zmax, c['mode'], levels))
        if modified:
            out.violation('oracle', 'the caller\'s levels were modified: %s differs from its pristine copy after the '
                          'calls' % who, case=c)
        for nth, (st, arr) in enumerate(results, 1):
            if refused:
                good = (st, arr) == ('err', 'EValue')
            else:
                good = st == 'ok' and len(arr) == len(levels) and all(
                    abs(float(v) - ov) <= (float(T_tol(alpha, zmax, z)) + 1e-14) * abs(ov)
                    for v, (_, ov), z in zip(arr, want, levels))
            if not good:
                out.violation('oracle', '%s: call number %d gives %s %s; the published formula gives %s'
                              % (who, nth, st, arr, 'a refusal (ValueError: a level lies above the ceiling)' if refused
                                 else [ov for _, ov in want]), case=c)
                break


FLOAT_PREAMBLE = ('From Coq Require Import PrimFloat Uint63 List Bool.\nFrom Spowtd Require Import Model.Util '
                  'Model.PeatclsmFloat.\nImport ListNotations.\n')


def check_T(cases, out, label):
    goals, meta = [], []
    fcases, fmeta = [], []
    for c in cases:
        Ks, alpha, zmax, z = c['Ks'], c['alpha'], c['zmax'], c['z']
        out.evaluations += 1
        jc = dict(level='T', **c)
        texts = c.get('texts')
        form = c['form'] if float(z).is_integer() or c['form'] not in ('int', 'intarray') else 'float'
        arg = (np.float64(z) if form == 'np' else np.array([z, z - 7.0]) if form == 'array' else
               int(z) if form == 'int' else np.array([int(z), int(z) - 7]) if form == 'intarray' else float(z))
        if texts:
            out.count('T-yaml-types:' + ','.join(H.yaml_type(texts[k]) for k in ('Ks', 'alpha', 'zmax')))
            out.count('T-arg:' + form)
        pristine = arg.tobytes() if isinstance(arg, np.ndarray) else None
        st, v = impl_T(Ks, alpha, zmax, arg, texts)
        if pristine is not None and arg.tobytes() != pristine:
            out.violation('oracle', 'the caller\'s levels were modified: the array %r handed to PEATCLSM transmissivity '
                          '(Ksmacz0=%r alpha=%r zeta_max_cm=%r) holds %r afterwards'
                          % ([z, z - 7.0], Ks, alpha, zmax, arg.tolist()), case=jc)
        if st == 'ok' and form in ('array', 'intarray'):
            st2, v2 = impl_T(Ks, alpha, zmax, float(z), texts)
            if st2 != 'ok' or not (float(v2) == float(v[0]) or abs(float(v2) - float(v[0])) <= 1e-14 * abs(float(v2))):   # numpy's array and scalar pow differ by a few ulp
                out.violation('oracle', 'array and scalar transmissivity differ at %r: %r vs %r' % (z, v, v2), case=jc)
            v = v[0]
        # float layer of the ceiling decision (every case, also one ulp beside the ceiling)
        refused = st == 'err'
        isinf = (not refused) and math.isinf(float(v))
        fcases.append('(%s, %s, %s, %s)' % (C.cfloat(zmax), C.cfloat(z), C.cbool(refused), C.cbool(isinf)))
        fmeta.append((jc, st, v))
        exact_gap = F(zmax) - F(z) / 10
        cls = 'above' if exact_gap < 0 else 'at-ceiling' if exact_gap == 0 else 'below'
        ulp = exact_gap != 0 and abs(exact_gap) <= 4 * abs(F(math.ulp(zmax if zmax else 1e-300)))
        out.count('T:' + cls + ('(ulp)' if ulp else ''))
        if ulp:
            # the code decides on the rounded quotient z/10: one ulp beside the ceiling the
            # float decision may differ from the real one; judged by the binary64 model only
            fl = 'refused' if st == 'err' else 'inf' if not math.isfinite(float(v)) else 'value'
            out.count('T:ulp-beside:%s:%s' % (cls, fl))
            continue
        ost, ov = T_oracle(float(Ks), float(alpha), float(zmax), float(z))
        if st != ost:
            out.violation('oracle', 'PEATCLSM transmissivity at level %r mm with ceiling %r cm: implementation %s %s, '
                          'published formulation %s %s (Ks=%r alpha=%r)' % (z, zmax, st, v, ost, ov, Ks, alpha), case=jc)
            continue
        lit = '%s %s %s %s' % (H.cR(Ks), H.cR(alpha), H.cR(zmax), H.cR(z))
        if st == 'err':
            if v != 'EValue':
                out.violation('oracle', 'level above the ceiling raises %s instead of ValueError' % v, case=jc)
            goals.append(('T_peat %s = Err %s' % (lit, v), 'T_peat_eval', 'reflexivity'))
        elif not math.isfinite(float(v)):
            if cls != 'at-ceiling' or float(v) < 0:
                out.violation('oracle', 'transmissivity %r at level %r mm (ceiling %r cm)' % (v, z, zmax), case=jc)
            goals.append(('T_peat %s = Ok None' % lit, 'T_peat_eval', 'reflexivity'))
        elif cls == 'at-ceiling':
            out.violation('oracle', 'transmissivity at the ceiling (level %r mm, ceiling %r cm) is the finite value %r; '
                          'the published formula has no finite value there (0 ^ (1 - alpha), alpha = %r)'
                          % (z, zmax, float(v), alpha), case=jc)
            continue
        else:
            v = float(v)
            rel = T_tol(alpha, zmax, z)
            if not abs(v - ov) <= float(rel) * abs(ov):
                out.violation('oracle', 'transmissivity %r differs from Ks (zmax - zeta)^(1-alpha) / (100 (alpha-1)) '
                              '= %r at level %r mm (Ks=%r alpha=%r zmax=%r cm)' % (v, ov, z, Ks, alpha, zmax), case=jc)
            if v <= 0:
                out.violation('oracle', 'transmissivity %r is not positive' % v, case=jc)
            out.nontriv(('T', Ks, alpha, zmax, z))
            goals.append(('match T_peat %s with Ok (Some t) => Rabs (t - %s) <= %s | _ => False end'
                          % (lit, H.cR(v), H.cR(abs(F(v)) * rel)), 'T_peat_eval', H.INTERVAL))
        meta.append((c, st, v))
    bad, ferrs, fsecs = C.run_case_shards(PROP, label + '_float', FLOAT_PREAMBLE, 'float * float * bool * bool',
                                          'ceiling_check', fcases)
    out.corr_errors += ferrs
    out.notes.append('%s: %d ceiling decisions against the binary64 model in %.1fs' % (label, len(fcases), fsecs))
    for k in bad:
        jc, st, v = fmeta[k]
        out.violation('corr', 'binary64 model of the ceiling decision (refused iff zmax < level/10 in floats; inf when '
                      'zmax - level/10 == 0) disagrees with PeatclsmTransmissivity: implementation gives %s %r for %s'
                      % (st, v, jc), case=jc)
    status, errs, secs = H.run_goals(PROP, label, MODS, goals, per_file=25)
    out.corr_errors += errs
    out.notes.append('%s: %d transmissivity goals in %.1fs' % (label, len(goals), secs))
    for (c, st, v), s in zip(meta, status):
        if s == 'MISMATCH':
            out.violation('corr', 'model T_peat <> PeatclsmTransmissivity: implementation gives %s %r for %s'
                          % (st, v, c), case=dict(level='T', **c))
        elif s == 'EVALFAIL':
            out.corr_errors.append(('T goal %s' % c, 'T_peat_eval failed'))


def check_R_tables(out):
    """The repository's two R-based tests, with the R script transcribed:
    transmissivity table z = 0, -0.01, ..., -1.5 m (Ksmacz0 7.3, alpha 3, ceiling
    1 cm built into the R formula) and the specific-yield table evaluated
    through the callable at np.linspace(-0.995, 1.005, 201) m, under the tests'
    own np.allclose."""
    z_m = np.linspace(-1.5, 0.0, 151)[::-1]
    ref = (7.3 * (1 - z_m * 100) ** (1 - 3)) / (100 * (3 - 1))        # Transmissivity(Ksmacz0, alpha, z) of the R script
    st, got = impl_T(7.3, 3, 1.0, z_m * 1000)
    out.evaluations += len(z_m)
    out.count('R-table:transmissivity', len(z_m))
    if st != 'ok' or not np.allclose(got, ref):
        out.violation('oracle', 'published transmissivity parameters: the R reference table (151 levels, transcribed) '
                      'is not reproduced under np.allclose: %s %r' % (st, got if st != 'ok' else
                                                                      float(np.max(np.abs(got - ref) / ref))),
                      case=dict(level='R'))
    try:
        S = impl_sy(PUBLISHED)
        zeta_m = np.linspace(-0.995, 1.005, 201)
        got = np.asarray(S(zeta_m * 1000), dtype=float)
    except Exception as e:  # pylint: disable=broad-except
        out.violation('oracle', 'published specific yield raises %s: %s' % (type(e).__name__, e), case=dict(level='R'))
        return
    _, want_r = db_profile(PUBLISHED, 200)
    out.evaluations += 201
    out.count('R-table:specific-yield', 201)
    if not np.allclose(got, want_r):
        out.violation('oracle', 'published specific yield: the R reference table (201 levels, 200 layers, transcribed) is '
                      'not reproduced through the callable under np.allclose: max diff %r'
                      % float(np.max(np.abs(got - want_r))), case=dict(level='R'))


# ------------------------------------------------------------- history

SD_CHOICES = ['0.05', '0.1', '0.162', '0.3', '0.5', '1.0', '2']
SOIL_CHOICES = dict(theta_s=['0.5', '0.88', '0.93', '0.3', '1'], b=['2.0', '3.5', '7.4', '12', '20.0'],
                    psi_s=['-0.01', '-0.024', '-0.05', '-0.1', '-0.5'])


def _another(rng, choices, current):
    return rng.choice([c for c in choices if F(c) != F(current)])


def history_psets(seed, count):
    """Sequences of admissible parameter sets for functions built one after the other in one
    process: even ones share the soil parameters and differ in sd, odd ones share sd and
    change one soil parameter at a time; the first set of a sequence comes back at its end.
    Sequence 0 starts from the published set."""
    cases = []
    for k in range(count):
        rng = C.rng_for(seed, PROP, 'history', k)
        base = dict(PUBLISHED) if k == 0 else random_pset(rng)
        if k % 2 == 0:
            kind = 'same-soil-different-sd'
            sd1 = _another(rng, SD_CHOICES, base['sd'])
            sd2 = _another(rng, [c for c in SD_CHOICES if c != sd1], base['sd'])
            seq = [base, dict(base, sd=sd1), dict(base, sd=sd2), dict(base)]
        else:
            kind = 'same-sd-different-soil'
            seq = [base] + [dict(base, **{name: _another(rng, SOIL_CHOICES[name], base[name])})
                            for name in ('theta_s', 'b', 'psi_s')] + [dict(base)]
        cases.append(dict(level='sy-history', kind=kind, keep=bool(k % 4 >= 2), seq=seq))
    return cases


HISTORY_LEVELS = [-5000.0, -995.0, -990.0, -722.5, -301.25, -45.0, -3.3, 0.0, 5.0, 61.7, 333.0, 1005.0, 4000.0]


def history_sy_member(p, S, n, when, prev, out, case):
    """One function of a sequence against the profile of its own parameters."""
    who = 'PEATCLSM specific yield number %d of a sequence built in one process (%s; %s), parameters %s' % (
        n + 1, case['kind'], when, p)
    prev_s = '; built before it: %s' % (prev if prev else 'nothing')
    zk, want = db_profile(p, 201)
    knots_mm = np.asarray(S.zeta_knots_mm, dtype=float)
    vals = np.asarray(S.sy_knots, dtype=float)
    out.evaluations += 201 + len(HISTORY_LEVELS)
    if knots_mm.shape != (201,) or not np.allclose(knots_mm, zk, rtol=0, atol=1e-9):
        out.violation('oracle', '%s: tabulated levels are not -995, -985, ..., 1005 mm%s' % (who, prev_s), case=case)
        return False
    bad = np.nonzero(~(np.abs(vals - want) <= 1e-12))[0]
    if len(bad):
        i = int(bad[np.argmax(np.abs(vals - want)[bad])]) if np.all(np.isfinite(vals)) else int(bad[0])
        out.violation('oracle', '%s: specific yield at tabulated level %g mm is %r; the discretised Dettmann-Bechtold '
                      'profile of these parameters (201 layers + surface term) gives %r (%d of 201 levels differ)%s'
                      % (who, knots_mm[i], float(vals[i]), float(want[i]), len(bad), prev_s), case=case)
        return False
    got = np.asarray(S(np.array(HISTORY_LEVELS)), dtype=float)
    ref = np.interp(HISTORY_LEVELS, zk, want)
    for z, g, r in zip(HISTORY_LEVELS, got, ref):
        if not abs(g - r) <= 1e-12 or float(S(z)) != g:
            out.violation('oracle', '%s: the function returns %r (array) / %r (scalar) at %r mm; linear interpolation of the '
                          'profile of these parameters (constant beyond) gives %r%s'
                          % (who, float(g), float(S(z)), z, float(r), prev_s), case=case)
            return False
    return True


def check_sy_history(cases, out):
    import gc
    for k, case in enumerate(cases):
        if 'earlier' not in case:
            # what this process built before this sequence belongs to the failing input
            case = dict(case, earlier=[{f: c[f] for f in ('level', 'kind', 'keep', 'seq')} for c in cases[:k]])
        kept, ok, prev = [], True, None
        for n, p in enumerate(case['seq']):
            try:
                S = impl_sy(p)
            except Exception as e:  # pylint: disable=broad-except
                out.violation('oracle', 'PeatclsmSpecificYield raises %s: %s for admissible parameters %s as number %d of '
                              'a sequence built in one process; built before it: %s'
                              % (type(e).__name__, e, p, n + 1, prev or 'nothing'), case=case)
                ok = False
                break
            ok = history_sy_member(p, S, n, 'earlier ones %s' % ('kept alive' if case['keep'] else 'discarded'), prev,
                                   out, case)
            out.count('history:sy-functions')
            out.count('history:sy:%s:%s' % (case['kind'], 'kept' if case['keep'] else 'discarded'))
            prev = p
            if case['keep']:
                kept.append((n, p, S))
            del S
            gc.collect()
            if not ok:
                break
        for n, p, S in reversed(kept[:-1] if ok else []):
            out.count('history:sy-used-again')
            if not history_sy_member(p, S, n, 'used again after all %d were built' % len(case['seq']), case['seq'][-1],
                                     out, case):
                break
        del kept
        gc.collect()


def history_T_cases(seed, count):
    """Sequences of (Ksmacz0, alpha, zeta_max_cm) differing in one parameter at a time, the first
    one coming back at the end, with common levels: below every ceiling of the sequence, and
    between the lowest and the highest ceiling (refused by some members, a value for others)."""
    cases = []
    for k in range(count):
        rng = C.rng_for(seed, PROP, 'history-T', k)
        base = dict(Ks=H.round_sig(H.loguniform(rng, 1e-2, 1e3), 3), alpha=rng.choice([3, 2, 1.5, 7.4, 1.25]),
                    zmax=rng.choice([1.0, 0.0, 5.0, -3.5, 12.25, 0.3]))
        seq = [base,
               dict(base, zmax=base['zmax'] + rng.choice([1.5, 4.0, -2.0])),
               dict(base, alpha=rng.choice([a for a in (3, 2, 1.5, 7.4, 1.25, 4.5) if a != base['alpha']])),
               dict(base, Ks=H.round_sig(base['Ks'] * rng.choice([0.5, 3.0, 10.0]), 3)),
               dict(base)]
        tops = [10 * c['zmax'] for c in seq]
        lo, hi = min(tops), max(tops)
        levels = sorted({round(lo - H.loguniform(rng, 0.5, 2500.0), 3) for _ in range(4)} | {round(0.5 * (lo + hi), 3),
                                                                                            round(hi + 3.0, 3)})
        cases.append(dict(level='T-history', seq=seq, levels=levels))
    return cases


def check_T_history(cases, out):
    import spowtd.transmissivity as tm

    def ask(T, z, form):
        try:
            with warnings.catch_warnings():
                warnings.simplefilter('ignore')
                if form == 'array':
                    arr = np.array([z, z - 7.0])
                    v = T(arr)[0]
                    if arr.tolist() != [z, z - 7.0]:
                        return ('levels-modified', arr.tolist())
                else:
                    v = T(z)
                return ('ok', float(v))
        except Exception as e:  # pylint: disable=broad-except
            return ('err', C.err_of(e))

    for k, case in enumerate(cases):
        if 'earlier' not in case:
            case = dict(case, earlier=[{f: c[f] for f in ('level', 'seq', 'levels')} for c in cases[:k]])
        objs = []

        def judge(n, c, T, when, prev):
            for z in case['levels']:
                for form in ('scalar', 'array'):
                    out.evaluations += 1
                    st, v = ask(T, z, form)
                    ost, ov = T_oracle(float(c['Ks']), float(c['alpha']), float(c['zmax']), float(z))
                    good = st == ost and (st == 'err' and v == ov or st == 'ok' and (
                        v == ov or abs(v - ov) <= float(T_tol(c['alpha'], c['zmax'], z)) * abs(ov)))
                    if not good:
                        out.violation('oracle', 'PEATCLSM transmissivity number %d of a sequence built in one process (%s) '
                                      'with Ksmacz0=%r alpha=%r zeta_max_cm=%r gives %s %r at level %r mm (%s); the '
                                      'published formula with these parameters gives %s %r; built before it: %s'
                                      % (n + 1, when, c['Ks'], c['alpha'], c['zmax'], st, v, z, form, ost, ov,
                                         prev or 'nothing'), case=case)
                        return False
            return True

        ok = True
        for n, c in enumerate(case['seq']):
            with warnings.catch_warnings():
                warnings.simplefilter('ignore')
                T = tm.create_transmissivity_function(dict(type='peatclsm', Ksmacz0=c['Ks'], alpha=c['alpha'],
                                                           zeta_max_cm=c['zmax']))
            objs.append(T)
            out.count('history:T-functions')
            ok = judge(n, c, T, 'earlier ones kept alive', case['seq'][n - 1] if n else None)
            if not ok:
                break
        for n in reversed(range(len(objs) - 1) if ok else []):
            out.count('history:T-used-again')
            if not judge(n, case['seq'][n], objs[n], 'used again after all %d were built' % len(objs), case['seq'][-1]):
                break


# ------------------------------------------------------------- parameters on the lattices the code discretises with (wave 5)

def _dec(x, places):
    t = ('%.*f' % (places, x)).rstrip('0')
    return t + '0' if t.endswith('.') else t


HALF_CM = [_dec(-(2 * k + 1) * 0.005, 3) for k in range(1, 100)]        # -0.015, -0.025, ..., -0.995: odd multiples of half a layer
WHOLE_CM = [_dec(-k * 0.01, 2) for k in range(1, 101)]                  # -0.01, -0.02, ..., -1.0
SD_LATTICE = ['0.005', '0.01', '0.015', '0.05', '0.125', '0.25', '0.5', '0.995', '1.005', '1.5', '2']
THETA_LATTICE = ['0.05', '0.1', '0.125', '0.25', '0.5', '0.75', '0.9', '1']
B_LATTICE = ['0.25', '0.5', '1', '2', '2.5', '5', '7.5', '10', '20']


def head_ties(p):
    """Number of (water level, layer) pairs of the tabulation whose pressure head in cm, computed in binary64 on the
    grids the code tabulates on, EQUALS psi_s in cm exactly (the branch point of the Campbell function)."""
    psi = float(F(p['psi_s']))
    zl, zu = np.linspace(-1, 1, 201), np.linspace(-0.99, 1.01, 201)
    zm = 0.5 * (zl + zu)
    return sum(int(np.count_nonzero((z[:, None] - zm[None, :]) * 100 == psi * 100)) for z in (zl, zu))


def lattice_psets(seed, tier):
    """Admissible parameter sets sitting on the lattices of the discretisation: psi_s an odd multiple of half the
    1 cm layer thickness (the pressure head of a layer mid-point under a tabulated water level can then EQUAL psi_s)
    or a whole number of cm; sd / theta_s / b on their own round lattices.  Oracle only (names start with oracle)."""
    out = []
    count = 24 if tier == 'quick' else 160
    for k in range(count):
        rng = C.rng_for(seed, PROP, 'lattice', k)
        p = dict(PUBLISHED) if k % 4 == 0 else random_pset(rng)
        kind = k % 8
        if kind < 5:
            p['psi_s'] = rng.choice(HALF_CM)
        elif kind == 5:
            p['psi_s'] = rng.choice(WHOLE_CM)
        if kind in (3, 6, 7):
            p['sd'] = rng.choice(SD_LATTICE)
        if kind in (4, 6, 7):
            p['theta_s'] = rng.choice(THETA_LATTICE)
        if kind in (2, 6, 7):
            p['b'] = rng.choice(B_LATTICE)
        out.append(('oracle-lattice#%d' % k, p))
    return out


# ------------------------------------------------------------- attributes given new values on a live object (wave 5)

T_ATTR = dict(Ks='Ksmacz0', alpha='alpha', zmax='zeta_max_cm')


def T_reassign_cases(seed, tier):
    """PeatclsmTransmissivity reads Ksmacz0, alpha and zeta_max_cm (its documented attributes, in __slots__) at every
    call: a parameter sweep that gives a live object new values must get the function of the values it carries.
    One attribute at a time, every attribute at least once, the first values coming back at the end."""
    cases = []
    for k in range(8 if tier == 'quick' else 60):
        rng = C.rng_for(seed, PROP, 'T-reassign', k)
        cur = dict(Ks=H.round_sig(H.loguniform(rng, 1e-2, 1e3), 3), alpha=rng.choice([3, 2, 1.5, 7.4, 1.25, 3.0]),
                   zmax=rng.choice([1.0, 0.0, 5.0, -3.5, 12.25, 0.3]))
        start, steps = dict(cur), []
        names = ['alpha', 'Ks', 'zmax']
        rng.shuffle(names)
        for name in names + [rng.choice(names)]:
            if name == 'alpha':
                new = rng.choice([a for a in (3, 2, 2.2, 1.5, 7.4, 1.25, 4.5, 20.0) if a != cur['alpha']])
            elif name == 'Ks':
                new = H.round_sig(cur['Ks'] * rng.choice([0.5, 3.0, 10.0]), 3)
            else:
                new = cur['zmax'] + rng.choice([1.5, 4.0, -2.0])
            steps.append([name, new])
            cur[name] = new
        steps += [[name, start[name]] for name in names]
        tops = [10 * start['zmax']] + [10 * v for nme, v in steps if nme == 'zmax']
        lo, hi = min(tops), max(tops)
        levels = sorted({round(lo - H.loguniform(rng, 0.5, 2500.0), 3) for _ in range(4)}
                        | {round(0.5 * (lo + hi), 3), round(hi + 3.0, 3)})
        cases.append(dict(level='T-reassign', start=start, steps=steps, levels=levels))
    return cases


def check_T_reassign(cases, out):
    def ask(T, z, form):
        try:
            with warnings.catch_warnings():
                warnings.simplefilter('ignore')
                return ('ok', float(T(np.array([z, z - 7.0]))[0] if form == 'array' else T(z)))
        except Exception as e:  # pylint: disable=broad-except
            return ('err', C.err_of(e))

    for case in cases:
        cur = dict(case['start'])
        with warnings.catch_warnings():
            warnings.simplefilter('ignore')
            T = T_function(cur['Ks'], cur['alpha'], cur['zmax'])
        history = []
        for step in [None] + list(case['steps']):
            if step is not None:
                name, new = step
                try:
                    setattr(T, T_ATTR[name], new)
                except AttributeError:
                    out.count('T-reassign:refused:' + T_ATTR[name])     # no new value taken: nothing answered wrongly
                    break
                cur[name] = new
                history.append('%s = %r' % (T_ATTR[name], new))
                out.count('T-reassign:' + T_ATTR[name])
            with warnings.catch_warnings():
                warnings.simplefilter('ignore')
                fresh = T_function(cur['Ks'], cur['alpha'], cur['zmax'])
            ok = True
            for z in case['levels']:
                for form in ('scalar', 'array'):
                    out.evaluations += 1
                    got, ref = ask(T, z, form), ask(fresh, z, form)
                    ost, ov = T_oracle(float(cur['Ks']), float(cur['alpha']), float(cur['zmax']), float(z))
                    good = got == ref and got[0] == ost and (got[1] == ov or (got[0] == 'ok' and abs(got[1] - ov) <= float(
                        T_tol(cur['alpha'], cur['zmax'], z)) * abs(ov)))
                    if not good:
                        out.violation('oracle', 'PEATCLSM transmissivity built with Ksmacz0=%r alpha=%r zeta_max_cm=%r%s gives '
                                      '%s %r at level %r mm (%s); with the attributes it carries (Ksmacz0=%r alpha=%r '
                                      'zeta_max_cm=%r) the published formula gives %s %r and a freshly built function %s %r'
                                      % (case['start']['Ks'], case['start']['alpha'], case['start']['zmax'],
                                         ''.join(', then ' + h for h in history), got[0], got[1], z, form, cur['Ks'],
                                         cur['alpha'], cur['zmax'], ost, ov, ref[0], ref[1]), case=case)
                        ok = False
                        break
                if not ok:
                    break
            if not ok:
                break
            if step is not None:
                out.nontriv(('T-reassign', json.dumps(case['start'], sort_keys=True), len(history)))


# ------------------------------------------------------------- parameter sets

def random_pset(rng):
    """Admissible parameters within the PEST bounds, decimal with few digits."""
    return dict(sd=str(rng.choice([0.05, 0.1, 0.3, 0.5, 1.0, 2.0, round(rng.uniform(0.03, 2.0), 3)])),
                theta_s=str(rng.choice([0.01, 0.5, 1, round(rng.uniform(0.01, 1.0), 3)])),
                b=str(rng.choice([0.5, 2.0, 20.0, 0.05, round(rng.uniform(0.5, 20.0), 2)])),
                psi_s=str(rng.choice([-0.01, -0.025, -0.1, -1.0, -round(rng.uniform(0.01, 1.0), 3)])))


def wide_pset(rng):
    """Admissible set with a wide microtopographic distribution: there the
    201st layer (which the R script leaves out) carries weight."""
    p = random_pset(rng)
    p['sd'] = str(rng.choice([0.5, 1.0, 2.0]))
    return p


def corner_psets():
    """The corners of the PEST bounds (sd: 0.001 stands for the open end at 0)."""
    return [('corner#%d' % k, dict(sd=sd, theta_s=ths, b=b, psi_s=psi))
            for k, (sd, ths, b, psi) in enumerate(itertools.product(['0.001', '2'], ['0.01', '1'], ['0.01', '20'],
                                                                    ['-1', '-0.01']))]


def top_layer_levels(p):
    """Levels aimed at the branch of the 201st layer: the highest level at
    which that layer is still unsaturated for the lower water level, and its
    neighbours (above it the layer contributes nothing)."""
    psi = F(p['psi_s'])
    top = max(i for i in range(201) if not psi <= F(i - 201, 100) + F(1, 200))
    return [i for i in (top + 1, top, top - 1) if 0 <= i <= 200]


def boundary_probes(out):
    """Ends of the PEST bounds that lie outside the property's quantification
    (sd = 0: degenerate distribution; alpha = 1: division by zero): recorded,
    judged only if the lead lists the finding (signature C16/sd-zero-refused)."""
    p0 = dict(PUBLISHED, sd='0')
    try:
        S = impl_sy(p0)
        res = 'value' if np.all(np.isfinite(S.sy_knots)) else 'nan'
    except Exception as e:  # pylint: disable=broad-except
        res = type(e).__name__
    out.count('boundary:sd=0:' + res)
    out.notes.append('sd = 0 (PEST lower bound, outside `admissible`): constructor gives %s' % res)
    if res != 'value' and _listed('C16/sd-zero-refused'):
        out.violation('oracle', 'sd = 0.0 is inside the calibration bounds written to the PEST control file '
                      '(sd none relative NaN 0.0 2.0) but PeatclsmSpecificYield(sd=0.0, ...) gives %s' % res,
                      case=dict(level='sy', name='sd-zero', p=p0, knots=[]), signature='C16/sd-zero-refused')
    st, v = impl_T(7.3, 1, 1.0, -500.0)
    out.count('boundary:alpha=1:%s' % (st if st == 'err' else 'inf' if not math.isfinite(float(v)) else 'value'))


def _listed(signature):
    import json
    import os
    path = os.path.join(C.VERIF, 'known_findings.json')
    try:
        return any(k.get('signature') == signature for k in json.load(open(path)).get('findings', []))
    except (OSError, ValueError):
        return False


def run(ctx, out):
    C.import_spowtd()
    seed, tier = ctx['seed'], ctx['tier']
    rng = C.rng_for(seed, PROP)
    check_sy_history(history_psets(seed, 3 if tier == 'quick' else 12), out)
    check_T_history(history_T_cases(seed, 6 if tier == 'quick' else 40), out)
    wide = ('wide', wide_pset(C.rng_for(seed, PROP, 'wide')))
    if tier == 'quick':
        fixed = [200, 199, 190, 150, 101, 100, 99, 98, 60, 20, 1, 0]
        psets = [('published', PUBLISHED), wide]
        n_oracle = 12

        def knots_for(name, p):
            if name == 'published':
                return fixed
            if name == 'wide':
                return sorted(set(top_layer_levels(p) + [200, 100, 0]))
            return []
    else:
        psets = [('published', PUBLISHED), wide] + [('random#%d' % k, random_pset(rng)) for k in range(4)]
        n_oracle = 150

        def knots_for(name, p):
            if name == 'published':
                return list(range(0, 201, 2)) + [199, 101, 99]
            if name.startswith('oracle') or name.startswith('corner'):
                return []
            r = C.rng_for(seed, PROP, name)
            return sorted(set([200, 100, 0] + top_layer_levels(p) + [r.randrange(0, 201) for _ in range(4)]))
    ro = C.rng_for(seed, PROP, 'oracle-sets')
    psets += corner_psets() + [('oracle#%d' % k, (wide_pset if k % 3 == 0 else random_pset)(ro))
                               for k in range(n_oracle)]
    # the same sets as yaml.safe_load hands them to the factory, wherever that differs from all-floats (`theta_s: 1`,
    # `sd: 2`, `b: 20`, `psi_s: -1` are Python ints there); oracle only (knots_for gives [] for these names in the
    # quick tier, and the names start with corner / oracle otherwise)
    twins = [(n + '@yaml', p) for n, p in psets
             if (n.startswith('corner') or n.startswith('oracle')) and set(sy_yaml_types(p).values()) != {'float'}]
    rt = C.rng_for(seed, PROP, 'yaml-typed')
    for k in range(4 if tier == 'quick' else 24):      # whole-number values at the ends of the calibration bounds
        q = random_pset(rt)
        for f, v in rt.sample([('theta_s', '1'), ('sd', rt.choice(['1', '2'])), ('b', rt.choice(['1', '2', '7', '20'])),
                               ('psi_s', '-1')], rt.choice([1, 2, 4])):
            q[f] = v
        twins.append(('oracle-int#%d@yaml' % k, q))
    # a number written like 1e-01 (no dot) is a string for yaml.safe_load: refused or answered rightly
    twins += [('oracle-str#%d@yaml' % k, dict(PUBLISHED, **{f: v})) for k, (f, v) in enumerate(
        [('sd', '1e-01'), ('theta_s', '9e-01'), ('b', '1e+01'), ('psi_s', '-1e-02')])]
    check_sy(psets + twins + lattice_psets(seed, tier), out, 'sy', knots_for, seed)
    check_T_reassign(T_reassign_cases(seed, tier), out)
    boundary_probes(out)
    check_T([dict(Ks=PUBLISHED_T['Ksmacz0'], alpha=PUBLISHED_T['alpha'], zmax=PUBLISHED_T['zeta_max_cm'], z=float(z),
                  form='float') for z in (0.0, -10.0, -500.0, -1500.0, 10.0, 10.5)]
            + gen_T_cases(rng, 200 if tier == 'quick' else 2000)
            + gen_T_typed_cases(C.rng_for(seed, PROP, 'T-typed'), 60 if tier == 'quick' else 600), out, 'T')
    check_T_arrays(gen_T_array_cases(C.rng_for(seed, PROP, 'T-array'), 48 if tier == 'quick' else 480), out)
    check_R_tables(out)
    out.rule = ('specific yield: parameter sets (published, one wide-sd set, the 16 corners of the PEST bounds, random '
                'sets within the bounds; thorough adds more) x all 201 tabulated levels through the oracle; for the '
                'published, the wide and (thorough) 4 random sets a sample of levels through certified enclosure '
                '(incl. the levels where the 201st layer switches on); 49 levels '
                'between / beyond the knots; transmissivity: (Ks 1e-4..1e5, alpha in (1, 20], ceiling, level) with '
                'levels at the ceiling, above it, 1e-6 below it, one ulp beside it, and down to 3 m below. '
                'Non-trivial: an enclosed knot with >= 2 unsaturated layers, or a finite transmissivity value; '
                'distinct by parameters and level. History: sequences of 4-5 specific-yield functions built in one '
                'process (same soil / different sd; same sd / one soil parameter changed) x 201 levels, and of 5 '
                'transmissivity objects differing in one parameter x 6 common levels. Added (own random streams, '
                'oracle only): every corner / random set with a whole-number value once more as yaml.safe_load hands '
                'it over (Python ints for `theta_s: 1`, `sd: 2`, `b: 20`, `psi_s: -1`), transmissivity parameters '
                'and levels as ints / integer arrays / 0.0 / -0.0, numbers written like 1e-01 (strings for YAML 1.1: '
                'refusal or the right value); each float64 array of levels kept by the caller, compared bit-for-bit '
                'afterwards and handed over twice (writable, read-only, strided, reversed; with and without a '
                'level above the ceiling). Wave 5 (own random streams, oracle only): parameter sets on the lattices of '
                'the discretisation - psi_s an odd multiple of half the 1 cm layer thickness (-0.015 .. -0.995: the head '
                'of a layer can EQUAL psi_s; the number of such (level, layer) pairs is measured per set) or a whole '
                'number of cm, sd / theta_s / b on round lattices - x all 201 levels; PeatclsmTransmissivity objects '
                'whose attributes Ksmacz0 / alpha / zeta_max_cm (read at every call by the unchanged code) are given '
                'new values one at a time on the live object: after each the object equals the published formula for '
                'the attributes it carries and a freshly built function (scalar and array).')
    out.samples = [dict(params=PUBLISHED, knots=[200, 100, 0]), dict(T=PUBLISHED_T, level_mm=-500.0)]
    out.assumptions += [
        'the R reference is transcribed, not executed (Rscript is not installed): Model sy_knot_R / T_R and the '
        'numpy oracle db_profile(p, 200) are read off spowtd/test/peatclsm_hydraulic_functions.R',
        'parameters are decimal numbers; the model uses their exact decimal value, the implementation the nearest '
        'float (difference far below the 1e-9 tolerance)',
        'np.linspace levels and FITPACK order-1 evaluation are exercised (1e-12 against np.interp), not modelled',
        'scipy.stats.norm.cdf is not trusted: its values enter only through the implementation output, which is '
        'compared with cdf values certified by the Coq `integral` tactic',
        'Coq Interval library (certified enclosures of exp, ln, Rpower, RInt)']


def replay(case, out):
    C.import_spowtd()
    if case['level'] == 'sy-history':
        check_sy_history([dict(c, earlier=[]) for c in case.get('earlier', [])], C.Outcome(PROP))   # rebuild the history
        check_sy_history([case], out)
    elif case['level'] == 'T-history':
        check_T_history([dict(c, earlier=[]) for c in case.get('earlier', [])], C.Outcome(PROP))
        check_T_history([case], out)
    elif case['level'] == 'R':
        check_R_tables(out)
    elif case['level'] == 'T':
        check_T([{k: case[k] for k in ('Ks', 'alpha', 'zmax', 'z', 'form', 'texts') if k in case}], out, 'replay_T')
    elif case['level'] == 'T-array':
        check_T_arrays([case], out)
    elif case['level'] == 'T-reassign':
        check_T_reassign([case], out)
    elif case.get('name') == 'sd-zero':
        boundary_probes(out)
    else:
        for q in case.get('built_before', []):
            try:
                rebuild(q)
            except Exception:  # pylint: disable=broad-except
                pass
        ks = case['knots'] if case.get('knots') is not None else [200, 100, 0]
        check_sy([(case['name'], case['p'])], out, 'replay_sy', lambda name, p: ks, case.get('seed', 0))
