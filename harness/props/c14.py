"""C14 — spline specific yield: interpolation of the knots, constant
extrapolation, integrals consistent with the area under the clamped function.

Correspondence (function level, SplineSpecificYield objects built by the real
code):
  (A) wrapper: Model/SplineWrap.v [call] / [integrate] at the rational instance,
      with splev / splint of the object's OWN tck supplied as finite tables
      (scipy called directly, not through the wrapper): checks the clamping and
      the branch structure of Spline.integrate; exact for calls, 1e-10 relative
      for integrals.
  (B) oracle-free: Model/SplineWrapPP.v, the exact not-a-knot cubic spline as a
      piecewise polynomial whose defining conditions Coq checks exactly
      (certificate computed with Fractions), evaluated and integrated exactly in
      Coq and compared with the real object within 1e-9: checks FITPACK too.
Contract tests: the Section hypotheses of Proofs/SplineWrapSpec.v (splint is
the increment of one antiderivative inside the knots, is zero above them, its
derivative is splev, splev passes through the knots) on every tck.
Oracle (independent of the model): the property's wording on the
implementation's outputs: values at the knots, constancy outside, additivity,
antisymmetry, Gauss-Legendre area of the object's own __call__.
History stage (runs first, in a process that has built no spline yet): sequences
of functions built, used and discarded (or kept alive and used again) one after
the other in ONE process, sharing exactly one thing - all knot levels / the two
end levels / one end level / all values / the end values - and differing in the
rest, all asked at the same levels: each must be the function of its OWN
parameters (values against the exact not-a-knot spline computed with Fractions,
integrals against the area under its own __call__ and under that reference).
State carried between objects (module-level memo, mutable default argument,
id() reuse, class attribute) shows up only there; the case holds the whole
sequence, so its replay starts from a fresh process and rebuilds the history.
"""
import math
from fractions import Fraction

import numpy as np

from harness import common as C
from harness import gen_spline as GS

PROP = 'C14'
MODELS = ['Model/SplineWrapFloat.vo']
PRE = ('From Coq Require Import QArith PrimFloat.\nFrom Spowtd Require Import Model.SplineWrapFloat.\n')

# 5-point Gauss-Legendre on [-1, 1]: exact for polynomials of degree <= 9
_GL_X = [0.0, 0.5384693101056831, -0.5384693101056831, 0.9061798459386640, -0.9061798459386640]
_GL_W = [0.5688888888888889, 0.4786286704993665, 0.4786286704993665, 0.2369268850561891,
         0.2369268850561891]


def gl(f, lo, hi):
    """Area of f between lo <= hi and the sum of |contributions| (for the tolerance)."""
    c, h = 0.5 * (lo + hi), 0.5 * (hi - lo)
    vals = [w * float(f(c + h * x)) for x, w in zip(_GL_X, _GL_W)]
    return h * math.fsum(vals), h * math.fsum(abs(v) for v in vals)


def area(f, breaks, a, b):
    """Area under f from a to b (a <= b), piecewise between the break points."""
    pts = sorted({a, b} | {x for x in breaks if a < x < b})
    tot, mag = [], []
    for lo, hi in zip(pts, pts[1:]):
        t, m = gl(f, lo, hi)
        tot.append(t)
        mag.append(m)
    return math.fsum(tot), math.fsum(mag)


# ------------------------------------------------------------- implementation

def build(ks, via_factory=False):
    import spowtd.specific_yield as sy
    if via_factory:
        return sy.create_specific_yield_function(
            dict(type='spline', zeta_knots_mm=list(ks['knots']), sy_knots=list(ks['values'])))
    return sy.SplineSpecificYield(list(ks['knots']), list(ks['values']))


def tck_of(obj):
    return obj._spline._tck  # pylint: disable=protected-access


def fl(x):
    """float of a numpy scalar / 0-d array / float"""
    return float(np.asarray(x).reshape(()))


def tables(tck, points):
    """splev / splint of the tck at the points (scipy directly)."""
    from scipy.interpolate import splev, splint
    pts = sorted(set(points))
    evt = [(p, fl(splev(p, tck))) for p in pts]
    spt = [(p, q, fl(splint(p, q, tck))) for p in pts for q in pts]
    return evt, spt


def c_evt(evt):
    return C.clist(['(%s, %s)' % (C.cQ(k), C.cQ(v)) for k, v in evt])


def c_spt(spt):
    return C.clist(['(%s, %s, %s)' % (C.cQ(a), C.cQ(b), C.cQ(v)) for a, b, v in spt])


# ------------------------------------------------------------- contract tests

def contract_tests(ks, obj, rng, out, case):
    """The hypotheses under which the theorems were proved, on this tck."""
    from scipy.interpolate import splev, splint
    tck = tck_of(obj)
    knots, values = ks['knots'], ks['values']
    xmin, xmax = knots[0], knots[-1]
    span = xmax - xmin
    dom = (fl(tck[0][0]), fl(tck[0][-1]))
    if dom != (xmin, xmax):
        out.violation('corr', 'contract: tck domain %r is not the knot range %r' % (dom, (xmin, xmax)),
                      case=case)
    inside = sorted([xmin, xmax] + list(knots[1:-1]) + [GS.place(rng, knots, 'inside') for _ in range(4)])
    vals = [abs(fl(splev(x, tck))) for x in inside]
    scale = max(max(abs(v) for v in values), max(vals), 1e-300)
    # splev through the knots (s = 0)
    for x, y in zip(knots, values):
        if abs(fl(splev(x, tck)) - y) > 1e-10 * scale:
            out.violation('corr', 'contract: splev(%r) = %r is not the knot value %r'
                          % (x, fl(splev(x, tck)), y), case=case)
    # splint inside = increments of P(x) = splint(xmin, x): additive
    P = {x: fl(splint(xmin, x, tck)) for x in inside}
    for i, a in enumerate(inside):
        for b in inside[i:]:
            got = fl(splint(a, b, tck))
            if abs(got - (P[b] - P[a])) > 1e-10 * scale * span:
                out.violation('corr', 'contract: splint(%r, %r) = %r but P(b) - P(a) = %r'
                              % (a, b, got, P[b] - P[a]), case=case)
            # P' = splev: area of splev by Gauss-Legendre on the pieces
            ar, mag = area(lambda x: splev(x, tck), knots, a, b)
            if abs(got - ar) > 1e-9 * max(mag, scale * 1e-3):
                out.violation('corr', 'contract: splint(%r, %r) = %r but the area under splev is %r'
                              % (a, b, got, ar), case=case)
    # zero above the knots
    for a in [xmax, xmax + 1e-3, xmax + 10.0, xmax + span, math.nextafter(xmax, math.inf)]:
        if fl(splint(a, xmax, tck)) != 0.0:
            out.violation('corr', 'contract: splint(%r, xmax) = %r, expected 0 above the knots'
                          % (a, fl(splint(a, xmax, tck))), case=case)
    return scale


# ------------------------------------------------------------- oracle

def oracle(ks, obj, pairs, rng, out, case, scale):
    """The property's own wording on the implementation's outputs."""
    knots, values = ks['knots'], ks['values']
    xmin, xmax = knots[0], knots[-1]
    span = xmax - xmin
    # passes through every knot
    for x, y in zip(knots, values):
        got = fl(obj(x))
        if not abs(got - y) <= 1e-9 * scale:
            out.violation('oracle', 'specific yield at knot %r is %r, the knot value is %r (knots %r values %r)'
                          % (x, got, y, knots, values), case=case)
    # array call = the same values
    arr = np.array(knots, dtype=float)
    got = np.asarray(obj(arr), dtype=float)
    if got.shape != arr.shape or not np.all(np.abs(got - np.array(values)) <= 1e-9 * scale):
        out.violation('oracle', 'array call at the knots gives %r, knot values are %r' % (got.tolist(), values),
                      case=case)
    # constant outside the knot range
    lo, hi = fl(obj(xmin)), fl(obj(xmax))
    for d in [1e-3, 0.5, 10.0, span, 1e4]:
        for x, want, side in ((xmin - d, lo, 'below'), (xmax + d, hi, 'above')):
            if fl(obj(x)) != want:
                out.violation('oracle', 'specific yield %s the knots is not constant: f(%r) = %r, at the end '
                              'knot %r' % (side, x, fl(obj(x)), want), case=case)
    # integrals
    levels = sorted({p[2] for p in pairs} | {p[3] for p in pairs})
    integ = {}

    def I(a, b):
        if (a, b) not in integ:
            integ[(a, b)] = fl(obj.integrate(a, b))
        return integ[(a, b)]

    for _, _, a, b in pairs:
        v = I(a, b)
        lo_, hi_ = min(a, b), max(a, b)
        ar, mag = area(obj, knots, lo_, hi_)
        if a > b:
            ar = -ar
        tol = 1e-9 * max(mag, scale * 1e-6)
        if not abs(v - ar) <= tol:
            out.violation('oracle', 'integrate(%r, %r) = %r but the area under the same function is %r '
                          '(knots %r values %r)' % (a, b, v, ar, knots, values),
                          case=dict(case, pairs=[[a, b]]))
        # sign change when the limits are swapped
        w = I(b, a)
        if not abs(v + w) <= 1e-12 * max(abs(v), abs(w)):
            out.violation('oracle', 'integrate(%r, %r) = %r but integrate(%r, %r) = %r: no sign change '
                          '(knots %r values %r)' % (a, b, v, b, a, w, knots, values),
                          case=dict(case, pairs=[[a, b]]))
    # additivity over adjacent ranges, any order of the three levels
    triples = [(a, b, c) for a in levels for b in levels for c in levels]
    if len(triples) > 150:
        triples = rng.sample(triples, 150)
    for a, b, c in triples:
        s1, s2, s3 = I(a, c), I(a, b), I(b, c)
        _, mag = area(obj, knots, min(a, b, c), max(a, b, c))
        if not abs(s1 - (s2 + s3)) <= 1e-9 * max(mag, scale * 1e-6):
            out.violation('oracle', 'integrate(%r, %r) = %r but integrate(%r, %r) + integrate(%r, %r) = %r '
                          '(knots %r values %r)' % (a, c, s1, a, b, b, c, s2 + s3, knots, values),
                          case=dict(case, pairs=[[a, b], [b, c], [a, c]]))


# ------------------------------------------------------------- correspondence A

def ctriple(a, b, c):
    return '(%s, %s, %s)' % (C.cfloat(a), C.cfloat(b), C.cfloat(c))


def wrapper_case(ks, obj, pairs, out, count=True):
    """One case per knot set for the table-driven wrapper model (wrap_case of
    Model/SplineWrapFloat.v): splev / splint of the object's own tck at the
    levels of the set, and what the wrapper returned."""
    from scipy.interpolate import splev, splint
    tck = tck_of(obj)
    knots = ks['knots']
    xmin, xmax = knots[0], knots[-1]
    pts = sorted({p[2] for p in pairs} | {p[3] for p in pairs} | {xmin, xmax})
    ev = [fl(splev(p, tck)) for p in pts]
    sp = [[fl(splint(p, q, tck)) for q in pts] for p in pts]
    ints = []
    for pa, pb, a, b in pairs:
        ints.append((a, b, fl(obj.integrate(a, b))))
        if count:
            out.evaluations += 1
            out.count('integrate:%s-%s' % (pa, pb))
            if a != b and (a < xmin or a > xmax or b < xmin or b > xmax):
                out.nontriv(('i', tuple(knots), a, b))
    xs = sorted({p[2] for p in pairs})
    calls = [(x, fl(obj(x))) for x in xs]
    arr = [float(v) for v in np.asarray(obj(np.array(xs, dtype=float)), dtype=float).reshape(-1)]
    if count:
        out.evaluations += len(calls) + 1
        out.count('call-scalar', len(calls))
        out.count('call-array')
    return '(%s, %s, %s, %s, %s, %s, %s, (%s, %s))' % (
        C.cfloat(xmin), C.cfloat(xmax), C.cfloats(pts), C.cfloats(ev),
        C.clist([C.cfloats(r) for r in sp]),
        C.clist([ctriple(*t) for t in ints]),
        C.clist([C.cpair(C.cfloat(x), C.cfloat(v)) for x, v in calls]),
        C.cfloats(xs), C.cfloats(arr))


# ------------------------------------------------------------- correspondence B

def exact_case(order, knots, values, obj, pairs, out, count=True):
    """One case per knot set for the exact spline model (exact_case of
    Model/SplineWrapFloat.v): only the knots, the values and the real object's
    answers; the spline itself is computed and checked inside Coq."""
    xs = sorted({p[2] for p in pairs} | set(knots if len(knots) <= 12 else knots[::17]))
    calls = [(x, fl(obj(x))) for x in xs]
    ints = [(a, b, fl(obj.integrate(a, b))) for _, _, a, b in pairs]
    fs = max(max(abs(v) for v in values), max(abs(v) for _, v in calls))
    span = knots[-1] - knots[0]
    is_ = fs * (span + max(abs(p[2] - p[3]) for p in pairs))
    if count:
        out.evaluations += len(calls) + len(ints)
        out.count('exact-spline-order-%d' % order)
    return '(%d%%nat, %s, %s, %s, %s, %s, %s)' % (
        order, C.cfloats(knots), C.cfloats(values), C.cfloat(fs), C.cfloat(is_),
        C.clist([C.cpair(C.cfloat(x), C.cfloat(v)) for x, v in calls]),
        C.clist([ctriple(*t) for t in ints]))


def run_sets(kind, strs, out, label, shard):
    ctype, fn = (('wrap_case', 'wrap_check') if kind == 'wrap' else ('exact_case', 'exact_check'))
    bad, errs, secs = C.run_case_shards(PROP, label, PRE, ctype, fn, strs, shard=shard)
    out.corr_errors += errs
    out.notes.append('%s: %d knot sets evaluated in Coq in %.1fs' % (label, len(strs), secs))
    return bad


def pinpoint(kind, ks, obj, pairs, out, label, order=3):
    """A knot set failed as a whole: find the pairs that disagree (one query per case)."""
    strs = []
    for p in pairs:
        if kind == 'wrap':
            strs.append(wrapper_case(ks, obj, [p], out, count=False))
        else:
            strs.append(exact_case(order, ks['knots'], ks['values'], obj, [p], out, count=False))
    bad = run_sets(kind, strs, out, label, 50)
    return [pairs[i] for i in bad]


WHAT = {'wrap': 'wrapper model (clamp + three-part sum over splev/splint tables of the same tck, 1e-10)',
        'exact': 'exact not-a-knot cubic spline model (computed and checked in Coq, 1e-9)'}


def report_bad(kind, bad, metas, out, label):
    for n, i in enumerate(bad):
        ks, obj, pairs, case = metas[i]
        which = pinpoint(kind, ks, obj, pairs, out, '%s_pin%d' % (label, n)) if n < 3 else []
        detail = '; '.join('integrate(%r, %r) = %r, f(%r) = %r' % (a, b, fl(obj.integrate(a, b)), a, fl(obj(a)))
                           for _, _, a, b in which[:4])
        out.violation('corr', '%s <> SplineSpecificYield on knots %r values %r: %s'
                      % (WHAT[kind], ks['knots'], ks['values'], detail or '(whole set)'),
                      case=dict(case, pairs=[[a, b] for _, _, a, b in which] or case['pairs']))


# ------------------------------------------------------------- malformed

def malformed(rng, out, label):
    """from_points must refuse knots that are not strictly increasing."""
    strs, metas = [], []
    for k in range(12):
        ks = GS.gen_knots(rng)
        xs = list(ks['knots'])
        i = rng.randrange(1, len(xs))
        if k % 3 == 0:
            xs[i] = xs[i - 1]
        elif k % 3 == 1:
            xs[i], xs[i - 1] = xs[i - 1], xs[i]
        try:
            build(dict(knots=xs, values=ks['values']))
            res = 'Ok'
        except Exception as e:  # pylint: disable=broad-except
            res = C.err_of(e)
        out.evaluations += 1
        out.count('malformed' if k % 3 != 2 else 'wellformed-guard')
        strs.append('(%s, %s)' % (C.cQs(xs), 'None' if res == 'Ok' else 'Some %s' % res))
        metas.append((xs, ks['values'], res))
    bad, errs, _ = C.run_case_shards(
        PROP, label, PRE, 'list Q * option err',
        'fun c => option_eqb err_eqb (from_points_guard (fst c)) (snd c)', strs)
    out.corr_errors += errs
    for i in bad:
        xs, ys, res = metas[i]
        inc = all(b > a for a, b in zip(xs, xs[1:]))
        kind = 'oracle' if (inc and res != 'Ok') else 'corr'
        out.violation(kind, 'Spline.from_points on knots %r: %s, model says otherwise' % (xs, res),
                      case=dict(level='malformed', knots=xs, values=ys))


# ------------------------------------------------------------- history

def history_cases(seed, per_kind):
    cases = []
    for k, kind in enumerate(GS.HISTORY_KINDS * per_kind):
        rng = C.rng_for(seed, PROP, 'history', k)
        seq = GS.history_sequence(rng, kind)
        cases.append(dict(level='history', kind=kind, keep=bool((k // len(GS.HISTORY_KINDS)) % 2), seq=seq,
                          levels=GS.history_levels(rng, seq)))
    return cases


def history_member(ks, obj, levels, n, when, prev, out, case):
    """One function of a sequence against its own parameters.  Returns False after the first violation."""
    knots, values = [float(x) for x in ks['knots']], [float(y) for y in ks['values']]
    ref = GS.reference_function(knots, values)
    who = ('function number %d of a sequence built in one process (%s; %s) with knots %r values %r'
           % (n + 1, case['kind'], when, knots, values))
    prev_s = '; built before it: %s' % ('knots %r values %r' % (prev['knots'], prev['values']) if prev else 'nothing')
    dense = [ref(x) for x in np.linspace(knots[0], knots[-1], 60)]
    scale = max(max(abs(v) for v in values), max(abs(v) for v in dense), 1e-300)
    pts = sorted(set(levels) | set(knots))
    for x in pts:
        got, want = fl(obj(x)), ref(x)
        out.evaluations += 1
        if not abs(got - want) <= 1e-9 * scale:
            out.violation('oracle', '%s: specific yield at level %r is %r, the spline through its own knots '
                          '(constant beyond them) gives %r%s' % (who, x, got, want, prev_s), case=case)
            return False
    arr = np.asarray(obj(np.array(pts, dtype=float)), dtype=float).reshape(-1)
    if [float(v) for v in arr] != [fl(obj(x)) for x in pts]:
        out.violation('oracle', '%s: array call and scalar calls differ at levels %r%s' % (who, pts, prev_s), case=case)
        return False
    # areas between consecutive levels, once: of the object's own __call__ and of the reference
    lv = sorted(set(levels))
    own, mag, refa = [0.0], [0.0], [0.0]
    for lo, hi in zip(lv, lv[1:]):
        a1, m1 = area(obj, knots, lo, hi)
        a2, _ = area(ref, knots, lo, hi)
        own.append(own[-1] + a1)
        mag.append(mag[-1] + m1)
        refa.append(refa[-1] + a2)
    for i, a in enumerate(lv):
        for j, b in enumerate(lv):
            v = fl(obj.integrate(a, b))
            out.evaluations += 1
            tol = 1e-9 * max(abs(mag[j] - mag[i]), scale * 1e-6)
            for want, what in ((own[j] - own[i], 'the area under the same function'),
                               (refa[j] - refa[i], 'the area under the spline through its own knots')):
                if not abs(v - want) <= tol:
                    out.violation('oracle', '%s: integrate(%r, %r) = %r but %s is %r%s'
                                  % (who, a, b, v, what, want, prev_s), case=case)
                    return False
            if a != b and (min(a, b) < knots[0] or max(a, b) > knots[-1]):
                out.nontriv(('h', tuple(knots), tuple(values), a, b))
    return True


def check_history(cases, out):
    """Functions built one after the other in this process; see the module docstring."""
    import gc
    for k, case in enumerate(cases):
        if 'earlier' not in case:
            # what this process built before this sequence belongs to the failing input
            case = dict(case, earlier=[{f: c[f] for f in ('level', 'kind', 'keep', 'seq', 'levels')} for c in cases[:k]])
        seq, levels = case['seq'], [float(x) for x in case['levels']]
        kept, ok, prev = [], True, None
        for n, ks in enumerate(seq):
            try:
                obj = build(ks, via_factory=(n % 2 == 1))
            except Exception as e:  # pylint: disable=broad-except
                out.violation('oracle', 'SplineSpecificYield refused strictly increasing knots %r values %r as '
                              'function number %d of a sequence: %s: %s'
                              % (ks['knots'], ks['values'], n + 1, type(e).__name__, e), case=case)
                ok = False
                break
            ok = history_member(ks, obj, levels, n, 'earlier ones %s' % ('kept alive' if case['keep'] else 'discarded'),
                                prev, out, case)
            out.count('history:functions')
            out.count('history:%s:%s' % (case['kind'], 'kept' if case['keep'] else 'discarded'))
            prev = ks
            if case['keep']:
                kept.append((n, ks, obj))
            del obj
            gc.collect()
            if not ok:
                break
        # the functions kept alive, used again (latest first) after all of them were built
        for n, ks, obj in reversed(kept[:-1] if ok else []):
            out.count('history:used-again')
            if not history_member(ks, obj, levels, n, 'used again after all %d were built' % len(seq), seq[-1], out, case):
                break
        del kept
        gc.collect()


# ------------------------------------------------------------- driver

def check_sets(sets, seed, out, label):
    """sets: list of (knot set, pairs, exact?)"""
    wrap, exact, metas, emetas = [], [], [], []
    for k, (ks, pairs, with_exact) in enumerate(sets):
        rng = C.rng_for(seed, PROP, 'set', k, tuple(ks['knots']))
        case = dict(level='FL', knots=ks['knots'], values=ks['values'], exact=bool(with_exact),
                    pairs=[[a, b] for _, _, a, b in pairs])
        try:
            obj = build(ks, via_factory=(k % 2 == 1))
        except Exception as e:  # pylint: disable=broad-except
            out.violation('oracle', 'SplineSpecificYield refused strictly increasing knots %r values %r: %s: %s'
                          % (ks['knots'], ks['values'], type(e).__name__, e), case=case)
            continue
        out.count('knots:%s:n=%d' % (ks.get('kind', '?'), len(ks['knots'])))
        scale = contract_tests(ks, obj, rng, out, case)
        oracle(ks, obj, pairs, rng, out, case, scale)
        wrap.append(wrapper_case(ks, obj, pairs, out))
        metas.append((ks, obj, pairs, case))
        if with_exact:
            # one integral per position pair class is enough here: the branch structure is
            # covered by the wrapper check; this one is about the spline itself
            sub = pairs if len(pairs) <= 12 else pairs[k % 3::3]
            exact.append(exact_case(3, ks['knots'], ks['values'], obj, sub, out))
            emetas.append((ks, obj, sub, case))
    report_bad('wrap', run_sets('wrap', wrap, out, label + '_wrap', 20), metas, out, label + '_wrap')
    if exact:
        report_bad('exact', run_sets('exact', exact, out, label + '_exact', 8), emetas, out, label + '_exact')


def run(ctx, out):
    C.import_spowtd()
    seed, tier = ctx['seed'], ctx['tier']
    rng = C.rng_for(seed, PROP)
    check_history(history_cases(seed, 2 if tier == 'quick' else 12), out)
    nsets = 200 if tier == 'quick' else 2000
    sets = []
    kinds = ['param', 'wide', 'tight', 'full', 'wiggly', 'negative']
    for k in range(nsets):
        ks = GS.gen_knots(rng, kinds[k % len(kinds)])
        # exact spline model on the realistic decimal knot sets only when they are small
        small = ks['kind'] == 'param' and len(ks['knots']) <= 5 and k % 4 == 0
        sets.append((ks, GS.limit_pairs(rng, ks['knots']), small))
        if k % 2 == 0:
            sv = GS.short_variant(ks)
            sets.append((sv, GS.limit_pairs(rng, sv['knots']), True))
    # the shipped parameter file
    shipped = dict(kind='shipped', knots=[-291.7, -183.1, -15.74, 10.65, 38.78, 168.3],
                   values=[0.1358, 0.1671, 0.2541, 0.2907, 0.2892, 0.6857])
    sets.append((shipped, GS.limit_pairs(rng, shipped['knots']), True))
    check_sets(sets, seed, out, 'fl')
    malformed(rng, out, 'malformed')
    out.rule = ('SplineSpecificYield objects on seeded knot sets (4-9 strictly increasing knots, spacings '
                '0.1..300 mm, six kinds incl. values of both signs) x the 36 ordered pairs of positions '
                '{below, xmin, inside, interior knot, xmax, above}; scalar and array calls. Non-trivial: '
                'an integral with distinct limits at least one of which lies outside the knot range; '
                'distinct by (knots, a, b). History: sequences of 3-5 functions per kind of sharing (all knot '
                'levels / both or one end level / all values / end values; earlier functions discarded or kept '
                'alive and used again) x all ordered pairs of ~12 common levels.')
    out.samples = [dict(knots=s_[0]['knots'], values=s_[0]['values'], pairs=[p[2:] for p in s_[1][:3]])
                   for s_ in sets[:2]]
    out.assumptions += [
        'FITPACK (splrep/splev/splint) is not modelled in the wrapper theorems: its contract (splev through '
        'the knots; splint = increment of one antiderivative of splev inside the knots, zero above them) is '
        'a Section hypothesis, tested on every tck of the run; the piecewise-polynomial model replaces it '
        'by an exact spline whose not-a-knot conditions are checked in Coq per knot set (uniqueness of that '
        'spline is textbook mathematics, not proved here)',
        'binary64 rounding of the wrapper arithmetic is not modelled: model in exact rationals, compared '
        'within 1e-10 (wrapper) / 1e-9 (exact spline) relative']


def replay(case, out):
    C.import_spowtd()
    if case.get('level') == 'history':
        check_history([dict(c, earlier=[]) for c in case.get('earlier', [])], C.Outcome(PROP))   # rebuild the history
        check_history([case], out)
        return
    if case.get('level') == 'malformed':
        try:
            build(dict(knots=case['knots'], values=case['values']))
            res = 'Ok'
        except Exception as e:  # pylint: disable=broad-except
            res = C.err_of(e)
        inc = all(b > a for a, b in zip(case['knots'], case['knots'][1:]))
        if inc != (res == 'Ok'):
            out.violation('oracle' if inc else 'corr',
                          'Spline.from_points on knots %r: %s' % (case['knots'], res), case=case)
        return
    ks = dict(kind='replay', knots=case['knots'], values=case['values'])
    pairs = [('?', '?', float(a), float(b)) for a, b in case['pairs']]
    check_sets([(ks, pairs, case.get('exact', False))], 0, out, 'replay')
