"""C14 — spline specific yield: interpolation of the knots, constant
extrapolation, integrals consistent with the area under the clamped function.

Correspondence (function level, SplineSpecificYield objects built by the real
code):
  (A) wrapper: Model/SplineWrap.v [call] / [integrate] at the rational instance,
      with splev / splint of the object's OWN tck supplied as finite tables
      (scipy called directly, not through the wrapper): checks the clamping and
      the branch structure of Spline.integrate; exact for calls, 1e-10 relative
      for integrals.
  (B) oracle-free: Model/SplineWrapPP.v, the exact not-a-knot cubic spline as a
      piecewise polynomial whose defining conditions Coq checks exactly
      (certificate computed with Fractions), evaluated and integrated exactly in
      Coq and compared with the real object within 1e-9: checks FITPACK too.
Contract tests: the Section hypotheses of Proofs/SplineWrapSpec.v (splint is
the increment of one antiderivative inside the knots, is zero above them, its
derivative is splev, splev passes through the knots) on every tck.
Oracle (independent of the model): the property's wording on the
implementation's outputs: values at the knots, constancy outside, additivity,
antisymmetry, Gauss-Legendre area of the object's own __call__.
History stage (runs first, in a process that has built no spline yet): sequences
of functions built, used and discarded (or kept alive and used again) one after
the other in ONE process, sharing exactly one thing - all knot levels / the two
end levels / one end level / all values / the end values - and differing in the
rest, all asked at the same levels: each must be the function of its OWN
parameters (values against the exact not-a-knot spline computed with Fractions,
integrals against the area under its own __call__ and under that reference).
State carried between objects (module-level memo, mutable default argument,
id() reuse, class attribute) shows up only there; the case holds the whole
sequence, so its replay starts from a fresh process and rebuilds the history.
Routes and types (case fields `via`, `texts`, `flow`): a function is made through
the class or through create_specific_yield_function on floats ('class' /
'factory'), and - the 'typed' sets of GS.gen_typed_knots - from what
yaml.safe_load gives for a parameter text whose whole numbers are written without
a dot (Python ints next to floats; zeros as 0, 0.0, -0.0), through the factory
('yaml': the parsed text itself; 'factory-typed': a dictionary of those numbers)
or the class ('class-typed').  Every set goes through the same oracle, contract
tests and Coq models (the case holds the floats meant).  Arguments: levels and
limits are also handed over as Python ints, numpy integers and floats, 0-d
arrays, lists, integer arrays, 2-d arrays, -0.0 for 0.0: the answer must be the
one for the plain float.  The caller's arrays (H.call_twice: owned, read-only,
strided, reversed; 0-d limits of integrate) must come back bit-for-bit
unchanged and a second call with the same object must give the same answer.
Large-input stage (check_large; oracle only - nothing of that size goes to Coq):
ONE call with an array of 1001-5000 levels that is not ascending (shuffled,
descending, an oscillating record, sorted with ties, blocks reversed; repeated,
knot and out-of-range levels; sizes past 1000 / 1024 / 2048 / 4096) compared
element by element with the scalar calls, and ONE object asked for more than
1024 / 4096 DISTINCT ranges and then for early / boundary / late ones again in
both orders of the limits, every answer against the area under the same function.
"""
import math
from fractions import Fraction

import numpy as np

from harness import common as C
from harness import gen_hydraulic as H
from harness import gen_spline as GS

PROP = 'C14'
MODELS = ['Model/SplineWrapFloat.vo']
PRE = ('From Coq Require Import QArith PrimFloat.\nFrom Spowtd Require Import Model.SplineWrapFloat.\n')

# 5-point Gauss-Legendre on [-1, 1]: exact for polynomials of degree <= 9
_GL_X = [0.0, 0.5384693101056831, -0.5384693101056831, 0.9061798459386640, -0.9061798459386640]
_GL_W = [0.5688888888888889, 0.4786286704993665, 0.4786286704993665, 0.2369268850561891,
         0.2369268850561891]


def gl(f, lo, hi):
    """Area of f between lo <= hi and the sum of |contributions| (for the tolerance)."""
    c, h = 0.5 * (lo + hi), 0.5 * (hi - lo)
    vals = [w * float(f(c + h * x)) for x, w in zip(_GL_X, _GL_W)]
    return h * math.fsum(vals), h * math.fsum(abs(v) for v in vals)


def area(f, breaks, a, b):
    """Area under f from a to b (a <= b), piecewise between the break points."""
    pts = sorted({a, b} | {x for x in breaks if a < x < b})
    tot, mag = [], []
    for lo, hi in zip(pts, pts[1:]):
        t, m = gl(f, lo, hi)
        tot.append(t)
        mag.append(m)
    return math.fsum(tot), math.fsum(mag)


# ------------------------------------------------------------- implementation

VIAS = ('class', 'factory', 'yaml', 'factory-typed', 'class-typed')


def build(ks, via_factory=False):
    """The function of the knot set, made the way ks['via'] says (default: class / factory on floats).  The
    caller's parameter lists must come back as they were handed over (OracleViolation otherwise)."""
    import yaml
    import spowtd.specific_yield as sy
    via = ks.get('via') or ('factory' if via_factory else 'class')
    if via in ('yaml', 'factory-typed', 'class-typed'):
        if via == 'yaml':
            params = yaml.safe_load(GS.parameter_text(ks['texts'], ks.get('flow', False)))['specific_yield']
            zk, sy_ = params['zeta_knots_mm'], params['sy_knots']
        else:
            zk, sy_ = GS.typed_numbers(ks['texts']['zk']), GS.typed_numbers(ks['texts']['sy'])
            params = dict(type='spline', zeta_knots_mm=zk, sy_knots=sy_)
        if [float(x) for x in zk] != ks['knots'] or [float(y) for y in sy_] != ks['values']:
            raise AssertionError('harness: parameter text %r does not mean knots %r values %r'
                                 % (ks['texts'], ks['knots'], ks['values']))
    else:
        zk, sy_ = list(ks['knots']), list(ks['values'])
        params = dict(type='spline', zeta_knots_mm=zk, sy_knots=sy_)
    before = (repr(zk), repr(sy_))
    obj = sy.SplineSpecificYield(zk, sy_) if via.startswith('class') else sy.create_specific_yield_function(params)
    if (repr(zk), repr(sy_)) != before:
        raise ParametersModified('the caller\'s parameter lists were modified while the function was made (%s): '
                                 'handed over %s / %s, afterwards %r / %r' % (via, before[0], before[1], zk, sy_))
    return obj


class ParametersModified(Exception):
    pass


def via_fields(ks):
    return {f: ks[f] for f in ('via', 'texts', 'flow') if f in ks}


def tck_of(obj):
    return obj._spline._tck  # pylint: disable=protected-access


def fl(x):
    """float of a numpy scalar / 0-d array / float"""
    return float(np.asarray(x).reshape(()))


# ------------------------------------------------------------- the caller's arrays, the forms of an argument

def same_floats(a, b):
    """Equal as lists of binary64 numbers (an exact comparison: nan equals nan, 0.0 equals -0.0)."""
    a, b = np.asarray(a, dtype=float).reshape(-1), np.asarray(b, dtype=float).reshape(-1)
    return a.shape == b.shape and bool(np.all((a == b) | (np.isnan(a) & np.isnan(b))))


def call_array(obj, xs, out, case, who='', report=True, modes=H.ARRAY_MODES):
    """obj(array of the levels xs) as a caller that keeps its array does: one array per way of holding the memory
    (H.ARRAY_MODES), handed over twice.  Oracle: the caller's levels come back bit-for-bit unchanged, no call is
    refused, the second answer is the first, every way of holding the array gives the same answer, one value per
    level.  Returns the first answer for the owned array as a list of floats (nan where there is none)."""
    first = None
    for mode in modes:
        results, modified = H.call_twice(obj, xs, mode)
        if report:
            out.evaluations += len(results)
            out.count('array-call:%s' % mode, len(results))
        bad = None
        if modified:
            bad = 'the caller\'s levels were modified by the call'
        elif any(r[0] == 'err' for r in results):
            bad = 'the call was refused (%s)' % ', '.join(str(r[1]) for r in results)
        elif any(r[1].shape != (len(xs),) for r in results):
            bad = 'the answer has shape %r for %d levels' % (results[0][1].shape, len(xs))
        elif not same_floats(results[0][1], results[1][1]):
            bad = ('the second call with the same array gives %r, the first gave %r'
                   % (results[1][1].tolist(), results[0][1].tolist()))
        elif first is not None and not same_floats(results[0][1], first):
            bad = 'the answer %r differs from the one for an owned array, %r' % (results[0][1].tolist(), first.tolist())
        if bad and report:
            out.violation('oracle', 'specific yield of a %s array of levels %r%s: %s'
                          % (mode, [float(x) for x in xs], who, bad), case=case)
        if first is None:
            first = results[0][1] if results[0][0] == 'ok' and results[0][1].shape == (len(xs),) \
                else np.full(len(xs), np.nan)
    return [float(v) for v in first]


def scalar_forms(x):
    """(name, object) for the ways a caller may hand over the level x."""
    x = float(x)
    forms = [('np.float64', np.float64(x)), ('0-d float array', np.array(x))]
    if x.is_integer() and abs(x) < 2 ** 31:
        if not (x == 0 and math.copysign(1.0, x) < 0):
            forms += [('int', int(x)), ('np.int64', np.int64(int(x))), ('np.int32', np.int32(int(x))),
                      ('0-d int array', np.array(int(x)))]
    if x == 0:
        forms += [('-0.0', -0.0), ('0.0', 0.0), ('int 0', 0)]
    return forms


def twice(f, args):
    """f(*args) two times with the same objects; ndarray arguments must come back bit-for-bit unchanged.
    Returns (answers or None, complaint or None)."""
    import warnings
    keep = [(a, a.tobytes(), a.dtype, a.shape) for a in args if isinstance(a, np.ndarray)]
    keep += [(a, repr(a), None, None) for a in args if isinstance(a, list)]
    res = []
    for _ in range(2):
        try:
            with warnings.catch_warnings():
                warnings.simplefilter('ignore')
                res.append(np.array(f(*args), dtype=float, copy=True))
        except Exception as e:  # pylint: disable=broad-except
            return None, 'refused: %s: %s' % (type(e).__name__, e)
    for a, was, dt, sh in keep:
        now = repr(a) if dt is None else a.tobytes()
        if now != was or (dt is not None and (a.dtype != dt or a.shape != sh)):
            return res, 'the caller\'s argument was modified by the call'
    if not same_floats(res[0], res[1]):
        return res, 'the second call with the same objects gives %r, the first gave %r' % (res[1].tolist(), res[0].tolist())
    return res, None


def forms_oracle(ks, obj, pairs, out, case, max_pairs):
    """Levels and limits handed over as ints, numpy scalars, 0-d arrays, lists, integer arrays, 2-d arrays, -0.0:
    the answer is the one for the plain float (which the oracle judges); the caller's objects are not modified;
    the same objects handed over again give the same answer."""
    knots, values = ks['knots'], ks['values']
    tail = ' (knots %r values %r)' % (knots, values)
    levels = []
    for p in pairs:
        for x in p[2:4]:
            if not any(x == y and math.copysign(1.0, x) == math.copysign(1.0, y) for y in levels):
                levels.append(x)
    base = [fl(obj(float(x))) for x in levels]
    for x, want in zip(levels, base):
        for name, v in scalar_forms(x):
            res, bad = twice(obj, [v])
            out.evaluations += 2
            out.count('call-form:%s' % name)
            if bad is None and not (res[0].size == 1 and same_floats(res[0], [want])):
                bad = 'gives %r' % res[0].tolist()
            if bad:
                out.violation('oracle', 'specific yield at level %r handed over as %s %r: %s; for the float %r the '
                              'answer is %r%s' % (x, name, v, bad, float(x), want, tail), case=case)
    # many levels at once
    arrs = [('list of floats', [float(x) for x in levels]),
            ('2-d float array', np.array([levels, levels[::-1]], dtype=float))]
    whole = [(x, w) for x, w in zip(levels, base) if float(x).is_integer() and abs(x) < 2 ** 31]
    want_of = {'list of floats': base, '2-d float array': base + base[::-1]}
    if whole:
        ints = [int(x) for x, _ in whole]
        for name, v in (('list of ints', list(ints)), ('int64 array', np.array(ints, dtype='int64')),
                        ('int32 array', np.array(ints, dtype='int32')), ('tuple of ints', tuple(ints)),
                        ('read-only int64 array', np.array(ints, dtype='int64'))):
            arrs.append((name, v))
            want_of[name] = [w for _, w in whole]
        arrs[-1][1].setflags(write=False)
        mixed = [int(x) if i % 2 == 0 else float(x) for i, (x, _) in enumerate(whole)]
        arrs.append(('list of ints and floats', mixed))
        want_of['list of ints and floats'] = [w for _, w in whole]
    for name, v in arrs:
        res, bad = twice(obj, [v])
        out.evaluations += 2
        out.count('call-form:%s' % name)
        if bad is None and not (res[0].shape == np.shape(v) and same_floats(res[0], want_of[name])):
            bad = 'gives %r (shape %r)' % (res[0].tolist(), res[0].shape)
        if bad:
            out.violation('oracle', 'specific yield at levels handed over as %s %r: %s; for the floats one by one '
                          'the answers are %r%s' % (name, v, bad, want_of[name], tail), case=case)
    # limits of integrate
    sub = pairs if len(pairs) <= max_pairs else pairs[::max(1, len(pairs) // max_pairs)][:max_pairs]
    for n, (_, _, a, b) in enumerate(sub):
        want = fl(obj.integrate(float(a), float(b)))
        fa, fb = scalar_forms(a), scalar_forms(b)
        combos = [(fa[i % len(fa)], fb[(i + n) % len(fb)]) for i in range(max(len(fa), len(fb)))]
        combos.append((('float', float(a)), fb[n % len(fb)]))
        combos.append((fa[n % len(fa)], ('float', float(b))))
        # anything array-like, if accepted
        combos.append((('1-element float array', np.array([float(a)])), ('1-element float array', np.array([float(b)]))))
        combos.append((('1-element list', [float(a)]), ('1-element list', [float(b)])))
        for (na, va), (nb, vb) in combos:
            res, bad = twice(obj.integrate, [va, vb])
            out.evaluations += 2
            arrayish = na.startswith('1-element')
            if arrayish and res is None:
                out.count('integrate-form:%s:refused' % na)
                continue
            out.count('integrate-form:%s' % na)
            if bad is None and not (res[0].size == 1 and same_floats(res[0], [want])):
                bad = 'gives %r' % res[0].tolist()
            if bad:
                out.violation('oracle', 'integrate(%r, %r) with the limits handed over as %s %r and %s %r: %s; for '
                              'the floats the answer is %r%s' % (a, b, na, va, nb, vb, bad, want, tail),
                              case=dict(case, pairs=[[a, b]]))


def tables(tck, points):
    """splev / splint of the tck at the points (scipy directly)."""
    from scipy.interpolate import splev, splint
    pts = sorted(set(points))
    evt = [(p, fl(splev(p, tck))) for p in pts]
    spt = [(p, q, fl(splint(p, q, tck))) for p in pts for q in pts]
    return evt, spt


def c_evt(evt):
    return C.clist(['(%s, %s)' % (C.cQ(k), C.cQ(v)) for k, v in evt])


def c_spt(spt):
    return C.clist(['(%s, %s, %s)' % (C.cQ(a), C.cQ(b), C.cQ(v)) for a, b, v in spt])


# ------------------------------------------------------------- contract tests

def contract_tests(ks, obj, rng, out, case):
    """The hypotheses under which the theorems were proved, on this tck."""
    from scipy.interpolate import splev, splint
    tck = tck_of(obj)
    knots, values = ks['knots'], ks['values']
    xmin, xmax = knots[0], knots[-1]
    span = xmax - xmin
    dom = (fl(tck[0][0]), fl(tck[0][-1]))
    if dom != (xmin, xmax):
        out.violation('corr', 'contract: tck domain %r is not the knot range %r' % (dom, (xmin, xmax)),
                      case=case)
    inside = sorted([xmin, xmax] + list(knots[1:-1]) + [GS.place(rng, knots, 'inside') for _ in range(4)])
    vals = [abs(fl(splev(x, tck))) for x in inside]
    scale = max(max(abs(v) for v in values), max(vals), 1e-300)
    # splev through the knots (s = 0)
    for x, y in zip(knots, values):
        if abs(fl(splev(x, tck)) - y) > 1e-10 * scale:
            out.violation('corr', 'contract: splev(%r) = %r is not the knot value %r'
                          % (x, fl(splev(x, tck)), y), case=case)
    # splint inside = increments of P(x) = splint(xmin, x): additive
    P = {x: fl(splint(xmin, x, tck)) for x in inside}
    for i, a in enumerate(inside):
        for b in inside[i:]:
            got = fl(splint(a, b, tck))
            if abs(got - (P[b] - P[a])) > 1e-10 * scale * span:
                out.violation('corr', 'contract: splint(%r, %r) = %r but P(b) - P(a) = %r'
                              % (a, b, got, P[b] - P[a]), case=case)
            # P' = splev: area of splev by Gauss-Legendre on the pieces
            ar, mag = area(lambda x: splev(x, tck), knots, a, b)
            if abs(got - ar) > 1e-9 * max(mag, scale * 1e-3):
                out.violation('corr', 'contract: splint(%r, %r) = %r but the area under splev is %r'
                              % (a, b, got, ar), case=case)
    # zero above the knots
    for a in [xmax, xmax + 1e-3, xmax + 10.0, xmax + span, math.nextafter(xmax, math.inf)]:
        if fl(splint(a, xmax, tck)) != 0.0:
            out.violation('corr', 'contract: splint(%r, xmax) = %r, expected 0 above the knots'
                          % (a, fl(splint(a, xmax, tck))), case=case)
    return scale


# ------------------------------------------------------------- oracle

def oracle(ks, obj, pairs, rng, out, case, scale):
    """The property's own wording on the implementation's outputs."""
    knots, values = ks['knots'], ks['values']
    xmin, xmax = knots[0], knots[-1]
    span = xmax - xmin
    # passes through every knot
    for x, y in zip(knots, values):
        got = fl(obj(x))
        if not abs(got - y) <= 1e-9 * scale:
            out.violation('oracle', 'specific yield at knot %r is %r, the knot value is %r (knots %r values %r)'
                          % (x, got, y, knots, values), case=case)
    # array call = the same values
    got = np.array(call_array(obj, knots, out, case, ' (the knots; values %r)' % (values,)))
    if not np.all(np.abs(got - np.array(values)) <= 1e-9 * scale):
        out.violation('oracle', 'array call at the knots gives %r, knot values are %r' % (got.tolist(), values),
                      case=case)
    # array call at every level of the set (beyond the knots too) = the scalar calls
    lv = sorted({p[2] for p in pairs} | {p[3] for p in pairs} | {xmin - 0.5, xmax + 0.5})
    got = call_array(obj, lv, out, case, ' (knots %r values %r)' % (knots, values))
    one = [fl(obj(x)) for x in lv]
    if not same_floats(got, one):
        out.violation('oracle', 'array call at levels %r gives %r, the calls one by one give %r (knots %r values %r)'
                      % (lv, got, one, knots, values), case=case)
    # constant outside the knot range
    lo, hi = fl(obj(xmin)), fl(obj(xmax))
    for d in [1e-3, 0.5, 10.0, span, 1e4]:
        for x, want, side in ((xmin - d, lo, 'below'), (xmax + d, hi, 'above')):
            if fl(obj(x)) != want:
                out.violation('oracle', 'specific yield %s the knots is not constant: f(%r) = %r, at the end '
                              'knot %r' % (side, x, fl(obj(x)), want), case=case)
    # integrals
    levels = sorted({p[2] for p in pairs} | {p[3] for p in pairs})
    integ = {}

    def I(a, b):
        if (a, b) not in integ:
            integ[(a, b)] = fl(obj.integrate(a, b))
        return integ[(a, b)]

    for _, _, a, b in pairs:
        v = I(a, b)
        lo_, hi_ = min(a, b), max(a, b)
        ar, mag = area(obj, knots, lo_, hi_)
        if a > b:
            ar = -ar
        tol = 1e-9 * max(mag, scale * 1e-6)
        if not abs(v - ar) <= tol:
            out.violation('oracle', 'integrate(%r, %r) = %r but the area under the same function is %r '
                          '(knots %r values %r)' % (a, b, v, ar, knots, values),
                          case=dict(case, pairs=[[a, b]]))
        # sign change when the limits are swapped
        w = I(b, a)
        if not abs(v + w) <= 1e-12 * max(abs(v), abs(w)):
            out.violation('oracle', 'integrate(%r, %r) = %r but integrate(%r, %r) = %r: no sign change '
                          '(knots %r values %r)' % (a, b, v, b, a, w, knots, values),
                          case=dict(case, pairs=[[a, b]]))
    # additivity over adjacent ranges, any order of the three levels
    triples = [(a, b, c) for a in levels for b in levels for c in levels]
    if len(triples) > 150:
        triples = rng.sample(triples, 150)
    for a, b, c in triples:
        s1, s2, s3 = I(a, c), I(a, b), I(b, c)
        _, mag = area(obj, knots, min(a, b, c), max(a, b, c))
        if not abs(s1 - (s2 + s3)) <= 1e-9 * max(mag, scale * 1e-6):
            out.violation('oracle', 'integrate(%r, %r) = %r but integrate(%r, %r) + integrate(%r, %r) = %r '
                          '(knots %r values %r)' % (a, c, s1, a, b, b, c, s2 + s3, knots, values),
                          case=dict(case, pairs=[[a, b], [b, c], [a, c]]))


# ------------------------------------------------------------- correspondence A

def ctriple(a, b, c):
    return '(%s, %s, %s)' % (C.cfloat(a), C.cfloat(b), C.cfloat(c))


def wrapper_case(ks, obj, pairs, out, count=True, case=None):
    """One case per knot set for the table-driven wrapper model (wrap_case of
    Model/SplineWrapFloat.v): splev / splint of the object's own tck at the
    levels of the set, and what the wrapper returned."""
    from scipy.interpolate import splev, splint
    tck = tck_of(obj)
    knots = ks['knots']
    xmin, xmax = knots[0], knots[-1]
    pts = sorted({p[2] for p in pairs} | {p[3] for p in pairs} | {xmin, xmax})
    ev = [fl(splev(p, tck)) for p in pts]
    sp = [[fl(splint(p, q, tck)) for q in pts] for p in pts]
    ints = []
    for pa, pb, a, b in pairs:
        ints.append((a, b, fl(obj.integrate(a, b))))
        if count:
            out.evaluations += 1
            out.count('integrate:%s-%s' % (pa, pb))
            if a != b and (a < xmin or a > xmax or b < xmin or b > xmax):
                out.nontriv(('i', tuple(knots), a, b))
    xs = sorted({p[2] for p in pairs})
    calls = [(x, fl(obj(x))) for x in xs]
    arr = call_array(obj, xs, out, case, ' (knots %r values %r)' % (knots, ks['values']),
                     report=case is not None, modes=('owned',))
    if count:
        out.evaluations += len(calls) + 1
        out.count('call-scalar', len(calls))
        out.count('call-array')
    return '(%s, %s, %s, %s, %s, %s, %s, (%s, %s))' % (
        C.cfloat(xmin), C.cfloat(xmax), C.cfloats(pts), C.cfloats(ev),
        C.clist([C.cfloats(r) for r in sp]),
        C.clist([ctriple(*t) for t in ints]),
        C.clist([C.cpair(C.cfloat(x), C.cfloat(v)) for x, v in calls]),
        C.cfloats(xs), C.cfloats(arr))


# ------------------------------------------------------------- correspondence B

def exact_case(order, knots, values, obj, pairs, out, count=True):
    """One case per knot set for the exact spline model (exact_case of
    Model/SplineWrapFloat.v): only the knots, the values and the real object's
    answers; the spline itself is computed and checked inside Coq."""
    xs = sorted({p[2] for p in pairs} | set(knots if len(knots) <= 12 else knots[::17]))
    calls = [(x, fl(obj(x))) for x in xs]
    ints = [(a, b, fl(obj.integrate(a, b))) for _, _, a, b in pairs]
    fs = max(max(abs(v) for v in values), max(abs(v) for _, v in calls))
    span = knots[-1] - knots[0]
    is_ = fs * (span + max(abs(p[2] - p[3]) for p in pairs))
    if count:
        out.evaluations += len(calls) + len(ints)
        out.count('exact-spline-order-%d' % order)
    return '(%d%%nat, %s, %s, %s, %s, %s, %s)' % (
        order, C.cfloats(knots), C.cfloats(values), C.cfloat(fs), C.cfloat(is_),
        C.clist([C.cpair(C.cfloat(x), C.cfloat(v)) for x, v in calls]),
        C.clist([ctriple(*t) for t in ints]))


def run_sets(kind, strs, out, label, shard):
    ctype, fn = (('wrap_case', 'wrap_check') if kind == 'wrap' else ('exact_case', 'exact_check'))
    bad, errs, secs = C.run_case_shards(PROP, label, PRE, ctype, fn, strs, shard=shard)
    out.corr_errors += errs
    out.notes.append('%s: %d knot sets evaluated in Coq in %.1fs' % (label, len(strs), secs))
    return bad


def pinpoint(kind, ks, obj, pairs, out, label, order=3):
    """A knot set failed as a whole: find the pairs that disagree (one query per case)."""
    strs = []
    for p in pairs:
        if kind == 'wrap':
            strs.append(wrapper_case(ks, obj, [p], out, count=False))
        else:
            strs.append(exact_case(order, ks['knots'], ks['values'], obj, [p], out, count=False))
    bad = run_sets(kind, strs, out, label, 50)
    return [pairs[i] for i in bad]


WHAT = {'wrap': 'wrapper model (clamp + three-part sum over splev/splint tables of the same tck, 1e-10)',
        'exact': 'exact not-a-knot cubic spline model (computed and checked in Coq, 1e-9)'}


def report_bad(kind, bad, metas, out, label):
    for n, i in enumerate(bad):
        ks, obj, pairs, case = metas[i]
        which = pinpoint(kind, ks, obj, pairs, out, '%s_pin%d' % (label, n)) if n < 3 else []
        detail = '; '.join('integrate(%r, %r) = %r, f(%r) = %r' % (a, b, fl(obj.integrate(a, b)), a, fl(obj(a)))
                           for _, _, a, b in which[:4])
        out.violation('corr', '%s <> SplineSpecificYield on knots %r values %r: %s'
                      % (WHAT[kind], ks['knots'], ks['values'], detail or '(whole set)'),
                      case=dict(case, pairs=[[a, b] for _, _, a, b in which] or case['pairs']))


# ------------------------------------------------------------- malformed

def passes_through(ks, obj):
    """None, or what is wrong with an accepted function at its own (level, value) pairs."""
    scale = max(max(abs(y) for y in ks['values']), 1e-300)
    for x, y in zip(ks['knots'], ks['values']):
        try:
            got = fl(obj(x))
        except Exception as e:  # pylint: disable=broad-except
            return 'the call at level %r fails: %s: %s' % (x, type(e).__name__, e)
        if not abs(got - y) <= 1e-9 * scale:
            return 'the specific yield at level %r is %r, the value given for that level is %r' % (x, got, y)
    return None


def malformed_try(ks, out):
    """'Ok' / the error kind; an accepted function must pass through its own points whatever their order."""
    try:
        obj = build(ks)
    except ParametersModified as e:
        out.violation('oracle', str(e), case=dict(level='malformed', knots=ks['knots'], values=ks['values'],
                                                  **via_fields(ks)))
        return 'Ok'
    except Exception as e:  # pylint: disable=broad-except
        return C.err_of(e)
    if len(set(ks['knots'])) == len(ks['knots']):
        bad = passes_through(ks, obj)
        if bad:
            out.violation('oracle', 'knots %r values %r (made through: %s) were accepted, but %s'
                          % (ks['knots'], ks['values'], ks.get('via', 'class'), bad),
                          case=dict(level='malformed', knots=ks['knots'], values=ks['values'], **via_fields(ks)))
    return 'Ok'


def malformed(rng, out, label, rng_routes=None):
    """from_points must refuse knots that are not strictly increasing, whichever way the function is made."""
    strs, metas = [], []
    for k in range(12 + (12 if rng_routes is not None else 0)):
        if k < 12:
            ks = GS.gen_knots(rng)
            r = rng
        else:       # every kind of disorder through the factory / a parameter text, numbers typed as the text types them
            r = rng_routes
            via = ('factory', 'yaml', 'factory-typed', 'class-typed')[((k - 12) // 3) % 4]
            ks = dict(GS.gen_knots(r) if via == 'factory' else GS.gen_typed_knots(r, r.randrange(7)), via=via)
        xs = list(ks['knots'])
        i = r.randrange(1, len(xs))
        perm = list(range(len(xs)))
        if k % 3 == 0:
            xs[i] = xs[i - 1]
            perm[i] = i - 1
        elif k % 3 == 1:
            xs[i], xs[i - 1] = xs[i - 1], xs[i]
            perm[i], perm[i - 1] = perm[i - 1], perm[i]
        ks = dict(ks, knots=xs)
        if 'texts' in ks:
            ks['texts'] = dict(zk=[ks['texts']['zk'][j] for j in perm], sy=ks['texts']['sy'])
        res = malformed_try(ks, out)
        out.evaluations += 1
        out.count(('malformed' if k % 3 != 2 else 'wellformed-guard') + (':' + ks['via'] if k >= 12 else ''))
        strs.append('(%s, %s)' % (C.cQs(xs), 'None' if res == 'Ok' else 'Some %s' % res))
        metas.append((xs, ks['values'], res, via_fields(ks)))
    bad, errs, _ = C.run_case_shards(
        PROP, label, PRE, 'list Q * option err',
        'fun c => option_eqb err_eqb (from_points_guard (fst c)) (snd c)', strs)
    out.corr_errors += errs
    for i in bad:
        xs, ys, res, via = metas[i]
        inc = all(b > a for a, b in zip(xs, xs[1:]))
        kind = 'oracle' if (inc and res != 'Ok') else 'corr'
        out.violation(kind, 'Spline.from_points on knots %r%s: %s, model says otherwise'
                      % (xs, ' (made through: %s)' % via['via'] if via else '', res),
                      case=dict(level='malformed', knots=xs, values=ys, **via))


# ------------------------------------------------------------- history

def history_cases(seed, per_kind):
    cases = []
    for k, kind in enumerate(GS.HISTORY_KINDS * per_kind):
        rng = C.rng_for(seed, PROP, 'history', k)
        seq = GS.history_sequence(rng, kind)
        cases.append(dict(level='history', kind=kind, keep=bool((k // len(GS.HISTORY_KINDS)) % 2), seq=seq,
                          levels=GS.history_levels(rng, seq)))
    return cases


def history_member(ks, obj, levels, n, when, prev, out, case):
    """One function of a sequence against its own parameters.  Returns False after the first violation."""
    knots, values = [float(x) for x in ks['knots']], [float(y) for y in ks['values']]
    ref = GS.reference_function(knots, values)
    who = ('function number %d of a sequence built in one process (%s; %s) with knots %r values %r'
           % (n + 1, case['kind'], when, knots, values))
    prev_s = '; built before it: %s' % ('knots %r values %r' % (prev['knots'], prev['values']) if prev else 'nothing')
    dense = [ref(x) for x in np.linspace(knots[0], knots[-1], 60)]
    scale = max(max(abs(v) for v in values), max(abs(v) for v in dense), 1e-300)
    pts = sorted(set(levels) | set(knots))
    for x in pts:
        got, want = fl(obj(x)), ref(x)
        out.evaluations += 1
        if not abs(got - want) <= 1e-9 * scale:
            out.violation('oracle', '%s: specific yield at level %r is %r, the spline through its own knots '
                          '(constant beyond them) gives %r%s' % (who, x, got, want, prev_s), case=case)
            return False
    nv = len(out.violations)
    arr = call_array(obj, pts, out, case, ' - %s%s' % (who, prev_s))
    if len(out.violations) > nv:
        return False
    if not same_floats(arr, [fl(obj(x)) for x in pts]):
        out.violation('oracle', '%s: array call and scalar calls differ at levels %r%s' % (who, pts, prev_s), case=case)
        return False
    # areas between consecutive levels, once: of the object's own __call__ and of the reference
    lv = sorted(set(levels))
    own, mag, refa = [0.0], [0.0], [0.0]
    for lo, hi in zip(lv, lv[1:]):
        a1, m1 = area(obj, knots, lo, hi)
        a2, _ = area(ref, knots, lo, hi)
        own.append(own[-1] + a1)
        mag.append(mag[-1] + m1)
        refa.append(refa[-1] + a2)
    for i, a in enumerate(lv):
        for j, b in enumerate(lv):
            v = fl(obj.integrate(a, b))
            out.evaluations += 1
            tol = 1e-9 * max(abs(mag[j] - mag[i]), scale * 1e-6)
            for want, what in ((own[j] - own[i], 'the area under the same function'),
                               (refa[j] - refa[i], 'the area under the spline through its own knots')):
                if not abs(v - want) <= tol:
                    out.violation('oracle', '%s: integrate(%r, %r) = %r but %s is %r%s'
                                  % (who, a, b, v, what, want, prev_s), case=case)
                    return False
            if a != b and (min(a, b) < knots[0] or max(a, b) > knots[-1]):
                out.nontriv(('h', tuple(knots), tuple(values), a, b))
    return True


def check_history(cases, out):
    """Functions built one after the other in this process; see the module docstring."""
    import gc
    for k, case in enumerate(cases):
        if 'earlier' not in case:
            # what this process built before this sequence belongs to the failing input
            case = dict(case, earlier=[{f: c[f] for f in ('level', 'kind', 'keep', 'seq', 'levels')} for c in cases[:k]])
        seq, levels = case['seq'], [float(x) for x in case['levels']]
        kept, ok, prev = [], True, None
        for n, ks in enumerate(seq):
            try:
                obj = build(ks, via_factory=(n % 2 == 1))
            except Exception as e:  # pylint: disable=broad-except
                out.violation('oracle', 'SplineSpecificYield refused strictly increasing knots %r values %r as '
                              'function number %d of a sequence: %s: %s'
                              % (ks['knots'], ks['values'], n + 1, type(e).__name__, e), case=case)
                ok = False
                break
            ok = history_member(ks, obj, levels, n, 'earlier ones %s' % ('kept alive' if case['keep'] else 'discarded'),
                                prev, out, case)
            out.count('history:functions')
            out.count('history:%s:%s' % (case['kind'], 'kept' if case['keep'] else 'discarded'))
            prev = ks
            if case['keep']:
                kept.append((n, ks, obj))
            del obj
            gc.collect()
            if not ok:
                break
        # the functions kept alive, used again (latest first) after all of them were built
        for n, ks, obj in reversed(kept[:-1] if ok else []):
            out.count('history:used-again')
            if not history_member(ks, obj, levels, n, 'used again after all %d were built' % len(seq), seq[-1], out, case):
                break
        del kept
        gc.collect()


# ------------------------------------------------------------- large inputs (oracle only)

def large_cases(seed, tier):
    """Cases of the large-input stage, each from its own random stream: long arrays of levels for ONE call (sizes
    past 1000 / 1024 / 2048 / 4096, never a multiple of a block size; shuffled, descending, an oscillating record,
    sorted with ties, blocks reversed) and long histories of integrate() calls on ONE object (more than 1024 / 2048 /
    4096 distinct ranges, then early / boundary / late ranges again).  Judged by the oracle alone: nothing of this
    size is sent to Coq."""
    cases = []
    kinds = ['param', 'wide', 'tight', 'full', 'wiggly', 'negative']
    shipped = dict(kind='shipped', knots=[-291.7, -183.1, -15.74, 10.65, 38.78, 168.3],
                   values=[0.1358, 0.1671, 0.2541, 0.2907, 0.2892, 0.6857])
    bands = [0, 1, 3] if tier == 'quick' else [0, 1, 2, 3, 4, 1, 2, 3, 0, 1, 3, 4]
    for k, band in enumerate(bands):
        rng = C.rng_for(seed, PROP, 'large', 'array', k)
        ks = shipped if k == 0 else GS.gen_knots(rng, kinds[(seed + k) % len(kinds)])
        order = GS.LONG_ORDERS[(seed + k) % len(GS.LONG_ORDERS)]
        n = GS.long_size(rng, band)
        cases.append(dict(level='large', what='array', knots=ks['knots'], values=ks['values'],
                          via='factory' if k % 2 else 'class', order=order,
                          mode=H.ARRAY_MODES[1 + (seed + k) % (len(H.ARRAY_MODES) - 1)],
                          levels=GS.long_levels(rng, ks['knots'], n, order)))
    bands = [1, 3] if tier == 'quick' else [1, 2, 3, 4, 1, 3]
    for k, band in enumerate(bands):
        rng = C.rng_for(seed, PROP, 'large', 'integrals', k)
        ks = shipped if k == 0 else GS.gen_knots(rng, kinds[(seed + k + 3) % len(kinds)])
        n = GS.long_size(rng, band)
        cases.append(dict(level='large', what='integrals', knots=ks['knots'], values=ks['values'],
                          via='factory' if k % 2 else 'class', **GS.many_ranges(rng, ks['knots'], n)))
    return cases


def size_class(n):
    return '>%d' % max([0] + [b for b in GS.BLOCK_BOUNDARIES if n > b])


def check_large_array(case, obj, out):
    """ONE call with a long array of levels: element by element the value of the scalar call at that level; the knot
    values at the knots, the end values beyond the range; the caller's array unchanged; the same answer twice."""
    knots, values, xs = case['knots'], case['values'], case['levels']
    n = len(xs)
    tail = ' (one array of %d levels, order: %s; knots %r values %r)' % (n, case['order'], knots, values)
    out.count('large:array:n%s:%s' % (size_class(n), case['order']))
    out.count('large:array:not-ascending', int(any(b < a for a, b in zip(xs, xs[1:]))))
    one = [fl(obj(x)) for x in xs]
    out.evaluations += n
    scale = max(max(abs(v) for v in values), max(abs(v) for v in one), 1e-300)
    lo, hi = fl(obj(knots[0])), fl(obj(knots[-1]))
    at = dict(zip(knots, values))
    for mode in ('owned', case['mode']):
        results, modified = H.call_twice(obj, xs, mode)
        out.evaluations += 2 * n
        out.count('large:array-call:%s' % mode, 2)
        if modified:
            out.violation('oracle', 'the caller\'s levels were modified by the call (%s array)%s' % (mode, tail), case=case)
            return
        for nth, (st, got) in enumerate(results, 1):
            if st == 'err' or got.shape != (n,):
                out.violation('oracle', 'specific yield of a %s array: call number %d %s%s'
                              % (mode, nth, 'was refused (%s)' % (got,) if st == 'err' else
                                 'gives an answer of shape %r' % (got.shape,), tail), case=case)
                return
            got = [float(v) for v in got]
            bad = [i for i in range(n) if not (got[i] == one[i] or (got[i] != got[i] and one[i] != one[i]))]
            if bad:
                i = bad[0]
                out.violation('oracle', 'specific yield of a %s array of %d levels (call number %d): element %d, level %r, '
                              'is %r; the scalar call at that level gives %r (%d elements differ, first at indices %r)%s'
                              % (mode, n, nth, i, xs[i], got[i], one[i], len(bad), bad[:6], tail), case=case)
                return
            for i, x in enumerate(xs):
                want = at.get(x, lo if x < knots[0] else hi if x > knots[-1] else None)
                if want is not None and not abs(got[i] - want) <= 1e-9 * scale:
                    out.violation('oracle', 'specific yield of a %s array of %d levels: element %d, level %r (%s), is %r, '
                                  'expected %r%s' % (mode, n, i, x, 'a knot' if x in at else 'beyond the knot range: the '
                                                     'value at the end knot', got[i], want, tail), case=case)
                    return
    out.nontriv(('L', tuple(knots), n, case['order']))


def check_large_integrals(case, obj, out):
    """A long history of integrate() calls on ONE object, then early / boundary / late ranges again: every answer is
    the area under the object's own __call__ (Gauss-Legendre between the grid levels, split at the knots), and a
    range asked again gets the answer it got the first time."""
    knots, values, lv = case['knots'], case['values'], case['levels']
    scale = max(max(abs(v) for v in values), max(abs(fl(obj(x))) for x in knots), 1e-300)
    step_area, step_mag = [], []
    for a, b in zip(lv, lv[1:]):
        t, m = area(obj, knots, a, b)
        step_area.append(t)
        step_mag.append(m)
    n_calls = len(case['calls'])
    tail = ' (knots %r values %r)' % (knots, values)
    out.count('large:integrals:distinct-ranges%s' % size_class(n_calls))
    first = {}

    def judge(i, j, v, when):
        a, b = lv[i], lv[j]
        p, q = min(i, j), max(i, j)
        want = math.fsum(step_area[p:q]) * (1 if i <= j else -1)
        mag = math.fsum(step_mag[p:q])
        if not abs(v - want) <= 1e-9 * max(mag, scale * 1e-6):
            out.violation('oracle', 'integrate(%r, %r) = %r %s, but the area under the same function is %r%s'
                          % (a, b, v, when, want, tail), case=case)
            return False
        return True

    for k, (i, j) in enumerate(case['calls']):
        v = fl(obj.integrate(lv[i], lv[j]))
        out.evaluations += 1
        first[(i, j)] = (k, v)
        if not judge(i, j, v, 'as distinct range number %d integrated on one object' % (k + 1)):
            return
    out.count('large:integrals:first-time', n_calls)
    for i, j in case['repeats']:
        v = fl(obj.integrate(lv[i], lv[j]))
        out.evaluations += 1
        k, v0 = first.get((i, j), first.get((j, i), (None, None)))
        swapped = (i, j) not in first
        out.count('large:integrals:asked-again:%s' % ('limits-swapped' if swapped else 'same-order'))
        when = ('when asked again after %d distinct ranges had been integrated on the same object (this range was '
                'number %d%s)' % (n_calls, k + 1, ', then with the limits the other way round' if swapped else ''))
        if not judge(i, j, v, when):
            return
        want = -v0 if swapped else v0
        if not (v == want or abs(v - want) <= 1e-12 * max(abs(v), abs(want))):
            out.violation('oracle', 'integrate(%r, %r) = %r %s; the first time the answer was %r%s'
                          % (lv[i], lv[j], v, when, want, tail), case=case)
            return
        out.nontriv(('R', tuple(knots), n_calls, i, j))


def check_large(cases, out):
    for case in cases:
        ks = dict(knots=case['knots'], values=case['values'], via=case.get('via', 'class'))
        try:
            obj = build(ks)
        except Exception as e:  # pylint: disable=broad-except
            out.violation('oracle', 'SplineSpecificYield refused strictly increasing knots %r values %r: %s: %s'
                          % (ks['knots'], ks['values'], type(e).__name__, e), case=case)
            continue
        (check_large_array if case['what'] == 'array' else check_large_integrals)(case, obj, out)



# ------------------------------------------------------------- driver

def check_sets(sets, seed, out, label):
    """sets: list of (knot set, pairs, exact?)"""
    wrap, exact, metas, emetas = [], [], [], []
    for k, (ks, pairs, with_exact) in enumerate(sets):
        rng = C.rng_for(seed, PROP, 'set', k, tuple(ks['knots']))
        if 'via' not in ks:
            ks = dict(ks, via='factory' if k % 2 == 1 else 'class')
        typed = 'texts' in ks
        case = dict(level='FL', knots=ks['knots'], values=ks['values'], exact=bool(with_exact),
                    pairs=[[a, b] for _, _, a, b in pairs], **via_fields(ks))
        try:
            obj = build(ks)
        except ParametersModified as e:
            out.violation('oracle', str(e), case=case)
            continue
        except Exception as e:  # pylint: disable=broad-except
            out.violation('oracle', 'SplineSpecificYield (made through: %s%s) refused strictly increasing knots %r '
                          'values %r: %s: %s' % (ks['via'], ', numbers written %r' % (ks['texts'],) if typed else '',
                                                 ks['knots'], ks['values'], type(e).__name__, e), case=case)
            continue
        out.count('knots:%s:n=%d' % (ks.get('kind', '?'), len(ks['knots'])))
        out.count('made-through:%s' % ks['via'])
        if typed:
            for t in ks['texts']['zk'] + ks['texts']['sy']:
                out.count('yaml-type:%s%s' % (H.yaml_type(t), ':zero' if float(t) == 0 else ''))
            if 0.0 in ks['knots']:
                out.count('knot-at-zero:%s' % ('lowest' if ks['knots'][0] == 0 else 'highest' if ks['knots'][-1] == 0
                                               else 'interior'))
            first, rest = GS.typed_numbers(ks['texts']['sy'][:1])[0], ks['values'][1:]
            if isinstance(first, int) and any(not float(y).is_integer() for y in rest):
                out.count('values:int-first-fractions-after')
        scale = contract_tests(ks, obj, rng, out, case)
        oracle(ks, obj, pairs, rng, out, case, scale)
        forms_oracle(ks, obj, pairs, out, case, max_pairs=len(pairs) if typed else 6)
        wrap.append(wrapper_case(ks, obj, pairs, out, case=case))
        metas.append((ks, obj, pairs, case))
        if with_exact:
            # one integral per position pair class is enough here: the branch structure is
            # covered by the wrapper check; this one is about the spline itself
            sub = pairs if len(pairs) <= 12 else pairs[k % 3::3]
            exact.append(exact_case(3, ks['knots'], ks['values'], obj, sub, out))
            emetas.append((ks, obj, sub, case))
    report_bad('wrap', run_sets('wrap', wrap, out, label + '_wrap', 20), metas, out, label + '_wrap')
    if exact:
        report_bad('exact', run_sets('exact', exact, out, label + '_exact', 8), emetas, out, label + '_exact')


def run(ctx, out):
    C.import_spowtd()
    seed, tier = ctx['seed'], ctx['tier']
    rng = C.rng_for(seed, PROP)
    check_history(history_cases(seed, 2 if tier == 'quick' else 12), out)
    check_large(large_cases(seed, tier), out)
    nsets = 200 if tier == 'quick' else 2000
    sets = []
    kinds = ['param', 'wide', 'tight', 'full', 'wiggly', 'negative']
    for k in range(nsets):
        ks = GS.gen_knots(rng, kinds[k % len(kinds)])
        # exact spline model on the realistic decimal knot sets only when they are small
        small = ks['kind'] == 'param' and len(ks['knots']) <= 5 and k % 4 == 0
        sets.append((ks, GS.limit_pairs(rng, ks['knots']), small))
        if k % 2 == 0:
            sv = GS.short_variant(ks)
            sets.append((sv, GS.limit_pairs(rng, sv['knots']), True))
    # the shipped parameter file
    shipped = dict(kind='shipped', knots=[-291.7, -183.1, -15.74, 10.65, 38.78, 168.3],
                   values=[0.1358, 0.1671, 0.2541, 0.2907, 0.2892, 0.6857])
    sets.append((shipped, GS.limit_pairs(rng, shipped['knots']), True))
    # parameter sets as parameter files write them (own random streams: the sets above are what they were)
    for k in range(42 if tier == 'quick' else 280):
        rt = C.rng_for(seed, PROP, 'typed', k)
        ks = GS.gen_typed_knots(rt, k)
        sets.append((ks, GS.typed_pairs(rt, ks['knots']), ks.pop('exact')))
    check_sets(sets, seed, out, 'fl')
    malformed(rng, out, 'malformed', C.rng_for(seed, PROP, 'malformed-routes'))
    out.rule = ('SplineSpecificYield objects on seeded knot sets (4-9 strictly increasing knots, spacings '
                '0.1..300 mm, six kinds incl. values of both signs) x the 36 ordered pairs of positions '
                '{below, xmin, inside, interior knot, xmax, above}; scalar and array calls. Non-trivial: '
                'an integral with distinct limits at least one of which lies outside the knot range; '
                'distinct by (knots, a, b). History: sequences of 3-5 functions per kind of sharing (all knot '
                'levels / both or one end level / all values / end values; earlier functions discarded or kept '
                'alive and used again) x all ordered pairs of ~12 common levels. Added classes (own random '
                'streams): functions made through create_specific_yield_function / the class from what '
                'yaml.safe_load gives for a parameter text (block or flow lists; whole numbers written -300, +5, '
                '5., 5.0, 5.0e+00: Python ints next to floats, an int first and fractions after it; knots and '
                'values exactly 0 written 0, 0.0, -0.0), same oracle, contract tests and Coq models; disordered '
                'knots through every route; levels and limits handed over as int, np.int64/int32/float64, 0-d '
                'arrays, lists, tuples, integer / read-only / 2-d arrays, 1-element arrays (if accepted), -0.0; '
                'every array of levels handed over twice as owned / read-only / strided / reversed memory and '
                'compared bit-for-bit with a pristine copy afterwards. Large-input stage (own random streams; ORACLE '
                'ONLY - nothing of this size is sent to Coq, where reading the literals would dominate): ONE call with an '
                'array of 1001-5000 (thorough: -10001) levels, sizes past 1000 / 1024 / 2048 / 4096 / 8192 and never a '
                'multiple of a block size, shuffled / descending / an oscillating water-level record / sorted with ties / '
                'blocks reversed, with repeated, knot and out-of-range levels, a knot and out-of-range levels planted '
                'around indices 1000, 1024, 2048, ...: element by element the scalar value, knot values at knots, end '
                'values beyond; and ONE object asked for 1025-5000 (thorough: -10001) DISTINCT ranges (a rise-curve grid '
                'reaching beyond both ends, some longer ranges, some limits swapped), then the earliest, the latest and '
                'the ranges around call numbers 1000, 1024, 2048, ... (counted from the first and from the last call) '
                'AGAIN in both orders of the limits: every answer against the area under the same function, a repeated '
                'one also against the first answer.')
    out.samples = [dict(knots=s_[0]['knots'], values=s_[0]['values'], pairs=[p[2:] for p in s_[1][:3]])
                   for s_ in sets[:2]]
    out.assumptions += [
        'FITPACK (splrep/splev/splint) is not modelled in the wrapper theorems: its contract (splev through '
        'the knots; splint = increment of one antiderivative of splev inside the knots, zero above them) is '
        'a Section hypothesis, tested on every tck of the run; the piecewise-polynomial model replaces it '
        'by an exact spline whose not-a-knot conditions are checked in Coq per knot set (uniqueness of that '
        'spline is textbook mathematics, not proved here)',
        'binary64 rounding of the wrapper arithmetic is not modelled: model in exact rationals, compared '
        'within 1e-10 (wrapper) / 1e-9 (exact spline) relative']


def replay(case, out):
    C.import_spowtd()
    if case.get('level') == 'history':
        check_history([dict(c, earlier=[]) for c in case.get('earlier', [])], C.Outcome(PROP))   # rebuild the history
        check_history([case], out)
        return
    if case.get('level') == 'large':
        check_large([case], out)
        return
    if case.get('level') == 'malformed':
        res = malformed_try(dict(knots=case['knots'], values=case['values'], **via_fields(case)), out)
        inc = all(b > a for a, b in zip(case['knots'], case['knots'][1:]))
        if inc != (res == 'Ok'):
            out.violation('oracle' if inc else 'corr',
                          'Spline.from_points on knots %r: %s' % (case['knots'], res), case=case)
        return
    ks = dict(kind='replay', knots=case['knots'], values=case['values'], **via_fields(case))
    pairs = [('?', '?', float(a), float(b)) for a, b in case['pairs']]
    check_sets([(ks, pairs, case.get('exact', False))], 0, out, 'replay')
