"""C02 — the matching is stable (no blocking pair)."""
from harness import common as C
from harness import classify_common as K
from harness import gen_classify as G

PROP = 'C02'
MODELS = ['Model/ClassifyData.vo', 'Model/DepthView.vo', 'Model/ClassifyCommand.vo']   # .vo files the generated case files import
KEEP = {'C02'}

# Witness of the known finding C02/duration-off-by-one (Refuted/C02.v): a 3-step storm overlapping a
# 3-step rise and a 2-step rise is matched to the 2-step rise while the 3-step rise stays free.
KNOWN_WITNESS = dict(cls='known-duration', step=3600, thr_s=1.0, thr_j=1.0,
                     rain=[0.0, 0.0, 5.0, 5.0, 5.0, 0.0, 0.0],
                     zeta=[0.0, 2.0, 4.0, 6.0, 6.0, 8.0, 10.0], t0=1361318400, missing=[], lead=0, trail=0)


def run(ctx, out):
    C.import_spowtd()
    seed, tier = ctx['seed'], ctx['tier']
    rng = C.rng_for(seed, PROP)
    n_gs, n_ms, n_cl = (2000, 2500, 100) if tier == 'quick' else (20000, 25000, 1000)
    graphs = [K.gen_graph(rng, ties=(k % 2 == 0), small=(k % 2 == 0)) for k in range(n_gs)]
    K.check_gs(graphs, out, KEEP, PROP, 'gs')
    classes = ['chain', 'contested', 'long_rise', 'long_storm', 'contested', 'random', 'events', 'edges']
    recs = [KNOWN_WITNESS] + [G.gen_record(rng, classes[k % len(classes)], nmax=(60 if k % 10 == 0 else 30))
                              for k in range(n_ms)]
    K.check_ms(recs, out, KEEP, PROP, 'ms')
    recs_cl = [KNOWN_WITNESS] + [G.gen_record(rng, classes[k % len(classes)]) for k in range(n_cl)]
    # every 4th record with a 2-3x finer water level series, outages and mostly an island of readings between two
    # outages (stored data-interval numbers with a hole); own stream, the records are otherwise unchanged
    recs_cl = G.fine_share(recs_cl, C.rng_for(seed, PROP, 'fine'))
    # every 5th record dated where epochs leave the 32-bit range (around 2038 / 2106 / 1901, centuries away); own stream
    recs_cl = G.far_share(recs_cl, C.rng_for(seed, PROP, 'far'))
    # environment stage: two records once more through load + classify in a child process (python -O, one other variant)
    recs_env = K.env_records(recs_cl[1:], C.rng_for(seed, PROP, 'env'), seed, n_opt=1, n_other=1)
    K.check_cl(recs_cl + recs_env, out, KEEP, PROP, 'cl')
    # LARGE-INPUT stage, oracle only: chains of thousands of links, some links flipped / cut (independent chains of
    # random lengths): the recorded matching must have no blocking pair however long the displacement chains are
    rng_b = C.rng_for(seed, PROP, 'large')
    sizes = [rng_b.randrange(1500, 3000) for _ in range(5 if tier == 'quick' else 15)]
    K.check_gs_large(K.chain_graph_specs(rng_b, sizes), out, KEEP, PROP)
    big = [G.gen_chain_spec(rng_b, rng_b.randrange(1200, 2000), cut=c) for c in ([0.01] if tier == 'quick' else [0.0, 0.01, 0.05])]
    # one storm / one rise of 1100+ steps with dozens of candidates whose durations differ by a step and whose start
    # offsets differ by thousands of steps
    for which in ['storm', 'rise', 'storm', 'storm', 'storm'] * (1 if tier == 'quick' else 4):
        big.append(G.gen_span_spec(rng_b, rng_b.randrange(3000, 8000), which, width=rng_b.choice([2, 4, 8])))
    K.check_ms(big, out, KEEP, PROP, 'ms_large', coq=False)
    K.check_cl([G.gen_span_spec(rng_b, rng_b.randrange(2500, 5000), w) for w in (['storm'] if tier == 'quick' else ['storm', 'rise', 'storm'])],
               out, KEEP, PROP, 'cl_large', coq=False)
    out.rule = ('GS: random bipartite graphs (half with ties in the rises\' preferences) through '
                'find_stable_matching, compared with the model under 3 schedules (strict) or with the set of all '
                'model outcomes over all schedules (ties, small graphs); MS/CL: records with chains and long '
                'rises/storms; every 5th CL record dated beyond the 32-bit range of epochs; two records once more in a '
                'child process (python -O, one other environment variant); LARGE-INPUT stage, oracle only (not sent to Coq): '
                'chain graphs of 1500-3000 links through find_stable_matching and a record with a chain of 1200+ storms '
                'through match_storms; records of 2500-6000 samples holding ONE storm (or one rise) of 1100+ steps with dozens of '
                'candidate rises (storms) of nearly equal durations at start offsets thousands of steps apart, through '
                'match_storms and the CLI. Oracle: blocking pairs by brute force, under the code\'s keys (must be none) and '
                'under recorded durations (known finding). Non-trivial: contention (a storm or rise with >= 2 '
                'candidates) and >= 1 recorded pair.')
    out.samples = [dict(level='GS', cands=str(graphs[0][0]), prefs=str(graphs[0][1])), dict(level='MS', record=recs[1])]
    out.assumptions += ['second sentence of the property (storm-optimal, schedule independent without ties) is '
                        'tested by exhaustive schedule enumeration in Coq on generated cases, not proved',
                        'blocking pairs under recorded durations are the known finding C02/duration-off-by-one']


def replay(case, out):
    C.import_spowtd()
    K.replay_case(case, out, KEEP, PROP)
